"""Opaque symbolic numpy values for folds of large functions (plot/map.py, plot/histogram2d.py):

  Sym(origin)    any array/scalar: origin is a hashable expression tree; + and * are flattened and sorted (commutative,
                 associative), so that refactorings that reorder operands yield the same tree
  Sc(poly)       a scalar with an exact polynomial value (sa.poly): scalar arithmetic is normalised exactly
  Stack([...])   an array whose FIRST axis is known element by element (np.array([a, b, c]), slices of it, concatenations):
                 slot bookkeeping is computed, not pattern-matched
"""
from __future__ import annotations

import math

from .peval import Model, Unsupported
from .poly import Poly, Rat, Fn


def origin_of(x):
    if isinstance(x, Sc):
        return x.origin
    if hasattr(x, "origin"):
        return x.origin
    if isinstance(x, (list, tuple)):
        return tuple(origin_of(e) for e in x)
    if isinstance(x, slice):
        return ("slice", origin_of(x.start), origin_of(x.stop), origin_of(x.step))
    if x is Ellipsis:
        return "..."
    return x


def _flat(op, a, b):
    items = []
    for t in (a, b):
        if isinstance(t, tuple) and t and t[0] == op:
            items.extend(t[1])
        else:
            items.append(t)
    return (op, tuple(sorted(items, key=repr)))


class Sym(Model):
    kinds = ("ndarray",)

    def __init__(self, origin):
        self.origin = origin

    # ---- arithmetic
    def _bin(self, op, o, swap=False):
        a, b = self.origin, origin_of(o)
        if swap:
            a, b = b, a
        if op in ("+", "*"):
            return Sym(_flat(op, a, b))
        return Sym((op, a, b))

    def __add__(self, o):
        return self._bin("+", o)

    __radd__ = __add__

    def __mul__(self, o):
        return self._bin("*", o)

    __rmul__ = __mul__

    def __sub__(self, o):
        return self._bin("-", o)

    def __rsub__(self, o):
        return self._bin("-", o, True)

    def __truediv__(self, o):
        return self._bin("/", o)


    def __rtruediv__(self, o):
        return self._bin("/", o, True)

    def __neg__(self):
        return Sym(("neg", self.origin))

    def __lt__(self, o):
        return self._bin("<", o)

    def __le__(self, o):
        return self._bin("<=", o)

    def __gt__(self, o):
        return self._bin(">", o)

    def __ge__(self, o):
        return self._bin(">=", o)

    def __eq__(self, o):
        return self._bin("==", o)

    def __ne__(self, o):
        return self._bin("!=", o)

    def __and__(self, o):
        return Sym(_flat("&", self.origin, origin_of(o)))

    def __invert__(self):
        return Sym(("~", self.origin))

    __hash__ = None

    # ---- structure
    def __getitem__(self, idx):
        return Sym(("idx", self.origin, origin_of(idx)))

    @property
    def T(self):
        if isinstance(self.origin, tuple) and self.origin[0] == "T":
            return Sym(self.origin[1])
        return Sym(("T", self.origin))

    @property
    def shape(self):
        return Shape(("shape", self.origin))

    def reshape(self, *a, **k):
        return Sym(("reshape", self.origin, origin_of(a)))

    def astype(self, t, *a, **k):
        return Sym(("astype", self.origin, repr(t)))

    def copy(self):
        return Sym(("copy", self.origin))

    def __getattr__(self, name):
        if name not in ("min", "max", "sum", "mean", "ravel", "flatten", "squeeze", "transpose", "any", "all", "nonzero", "argsort", "cumsum"):
            raise AttributeError(name)
        return lambda *a, **k: Sym(("method", name, self.origin, origin_of(a), tuple(sorted((kk, origin_of(v)) for kk, v in k.items()))))

    def __repr__(self):
        return "Sym%r" % (self.origin,)


class Shape(Model):
    """an array shape: only concatenation and unpacking are needed"""

    def __init__(self, origin):
        self.origin = origin

    def __add__(self, o):
        return Shape(("shape+", self.origin, origin_of(o)))

    def __iter__(self):
        return iter([Sym(("shape*", self.origin))])


class Sc(Sym):
    """scalar with an exact polynomial / rational value"""

    def __init__(self, value):
        self.r = value if isinstance(value, Rat) else Rat(value if isinstance(value, Poly) else Poly.const(value))

    @property
    def origin(self):
        try:
            p = self.r.as_poly()
        except (ValueError, AttributeError):
            p = None
        return ("sc", repr(p if p is not None else self.r))

    @staticmethod
    def sym(name):
        return Sc(Poly.sym(name))

    @staticmethod
    def lift(x):
        if isinstance(x, Sc):
            return x
        if isinstance(x, (int, float)) and not isinstance(x, bool):
            return Sc(Poly.const(x))
        return None

    def _sc(self, o, f):
        if getattr(o, "_wins_over_sc", False):
            return NotImplemented        # the other operand's reflected operator takes over (unit objects)
        o2 = Sc.lift(o)
        if o2 is None:
            return None
        return type(self)(f(self.r, o2.r)) if type(self) is not Sc and type(o2) in (Sc, type(self)) else Sc(f(self.r, o2.r))

    def __add__(self, o):
        r_ = self._sc(o, lambda a, b: a + b)
        return r_ if r_ is not None else Sym._bin(self, "+", o)

    __radd__ = __add__

    def __sub__(self, o):
        r_ = self._sc(o, lambda a, b: a - b)
        return r_ if r_ is not None else Sym._bin(self, "-", o)

    def __rsub__(self, o):
        r_ = self._sc(o, lambda a, b: b - a)
        return r_ if r_ is not None else Sym._bin(self, "-", o, True)

    def __mul__(self, o):
        r_ = self._sc(o, lambda a, b: a * b)
        return r_ if r_ is not None else Sym._bin(self, "*", o)

    __rmul__ = __mul__

    def __truediv__(self, o):
        r_ = self._sc(o, lambda a, b: a / b)
        return r_ if r_ is not None else Sym._bin(self, "/", o)

    def __rtruediv__(self, o):
        r_ = self._sc(o, lambda a, b: b / a)
        return r_ if r_ is not None else Sym._bin(self, "/", o, True)

    def __neg__(self):
        return type(self)(-self.r)

    def __eq__(self, o):
        o2 = Sc.lift(o)
        return o2 is not None and self.r == o2.r

    def __ne__(self, o):
        return not self.__eq__(o)

    def __hash__(self):
        return hash(self.origin)

    def __repr__(self):
        return "Sc%r" % (self.origin[1],)


class Stack(Model):
    kinds = ("ndarray",)

    def __init__(self, elems, inner_shape=None):
        self.elems = list(elems)
        self.inner_shape = inner_shape        # the shape of every element when known (e.g. (nz, ny, nx) of the kernel output)

    @property
    def origin(self):
        return ("stack", tuple(origin_of(e) for e in self.elems))

    def __len__(self):
        return len(self.elems)

    def __iter__(self):
        return iter(list(self.elems))          # iterating an array yields its slots along the first axis

    def __getitem__(self, idx):
        if isinstance(idx, tuple):
            first, rest = idx[0], idx[1:]
            if any(r is not Ellipsis and r != slice(None) for r in rest):
                base = self[first]
                if isinstance(base, Stack) and self.inner_shape is not None and len(rest) == 1 and isinstance(rest[0], int):
                    # arr[:, k]: sample k along the first inner axis of every element
                    return Stack([Sym(("take", origin_of(e), rest[0])) for e in base.elems], tuple(self.inner_shape[1:]))
                return base[rest] if not isinstance(base, Stack) else Stack([e[rest] for e in base.elems])
            return self[first]
        if isinstance(idx, int):
            try:
                return self.elems[idx]
            except IndexError:
                from .models import Raised
                raise Raised("IndexError", None, "index %d out of bounds for %d slots" % (idx, len(self.elems)))
        if isinstance(idx, slice):
            return Stack(self.elems[idx], self.inner_shape)
        raise Unsupported("Stack indexed with %r" % (idx,))

    def __setitem__(self, idx, value):
        first = idx[0] if isinstance(idx, tuple) else idx
        if isinstance(first, int) and (not isinstance(idx, tuple) or all(r is Ellipsis or r == slice(None) for r in idx[1:])):
            self.elems[first] = value
            return
        raise Unsupported("Stack element assignment with %r" % (idx,))

    def _map(self, f):
        return Stack([f(e) for e in self.elems])

    def __mul__(self, o):
        return self._map(lambda e: e * o)

    __rmul__ = __mul__

    def __truediv__(self, o):
        if isinstance(o, Stack) and len(o) == len(self):
            return Stack([a / b for a, b in zip(self.elems, o.elems)])
        return self._map(lambda e: e / o)


    @property
    def T(self):
        return Sym(("stackT", tuple(origin_of(e) for e in self.elems)))

    @property
    def shape(self):
        if self.inner_shape is not None:
            return (len(self.elems),) + tuple(self.inner_shape)
        return Shape(("shape", self.origin))

    def __repr__(self):
        return "Stack%r" % (self.elems,)


def reduce_stack(name, x, args, kwargs):
    """numpy.<name>(stack, axis=k): element-wise for k >= 1 (the first axis is the slot axis)"""
    axis = kwargs.get("axis", args[0] if args else None)
    if isinstance(x, Stack):
        if axis in (None, 0):
            return Sym(("reduce0", name, x.origin))
        return Stack([Sym(("reduce", name, origin_of(e), axis - 1)) for e in x.elems])
    return Sym(("np", name, origin_of(x), origin_of(args), tuple(sorted((k, origin_of(v)) for k, v in kwargs.items()))))


def np_hooks(extra=None):
    def array(x, *a, **k):
        if isinstance(x, (list, tuple)):
            if all(isinstance(e, (int, float)) for e in x):
                return Sym(("const", tuple(x)))
            return Stack(list(x))
        return x

    def concatenate(xs, *a, **k):
        axis = k.get("axis", a[0] if a else 0)
        if axis == 0 and all(isinstance(x, Stack) for x in xs):
            return Stack([e for x in xs for e in x.elems])
        return Sym(("concatenate", origin_of(list(xs)), axis))

    def sqrt(x):
        if isinstance(x, (int, float)):
            return math.sqrt(x)
        s = Sc.lift(x)
        if isinstance(x, Sc):
            return Sc(Poly.sym(Fn("sqrt", x.r)))
        return Sym(("sqrt", origin_of(x)))
    def isclose(a, b, *r, **k):
        """approximate equality: true for equal values and for distinct values close enough - for two numbers computed, for symbolic
        values equal if they are the same expression and otherwise NOT DECIDED (explored both ways)"""
        if isinstance(a, (int, float)) and isinstance(b, (int, float)) and not r and not k:
            return abs(a - b) <= 1e-8 + 1e-5 * abs(b)
        sa_, sb_ = Sc.lift(a), Sc.lift(b)
        if sa_ is not None and sb_ is not None and sa_ == sb_:
            return True
        from .models import Undecided
        return Undecided("isclose(%r, %r) [true also for some UNEQUAL values]" % (origin_of(a), origin_of(b)))
    ext = {
        "numpy.array": array, "numpy.asarray": array, "numpy.concatenate": concatenate, "numpy.sqrt": sqrt,
        "numpy.linspace": lambda a, b, n, *r, **k: Sym(("linspace", origin_of(a), origin_of(b), origin_of(n))),
        "numpy.meshgrid": lambda *xs, **k: tuple(Sym(("meshgrid", i, origin_of(xs), k.get("indexing", "xy"))) for i in range(len(xs))),
        "numpy.isnan": lambda x: Sym(("isnan", origin_of(x))),
        "numpy.isclose": isclose, "math.isclose": isclose,
        "numpy.broadcast_to": lambda x, shape, *a, **k: Sym(("broadcast", origin_of(x))),
        "numpy.zeros_like": lambda x, *a, **k: Sym(("zeros_like", origin_of(x))),
        "numpy.ma.masked_where": lambda m, d, **k: Sym(("masked", origin_of(m), origin_of(d))),
        "numpy.errstate": lambda **k: Sym(("errstate",)),
    }
    if extra:
        ext.update(extra)
    return ext


def ext_default(name, args, kwargs):
    if name.startswith("numpy.") and args:
        return reduce_stack(name[6:], args[0], args[1:], kwargs)
    raise Unsupported("library function %s is not modelled" % name)
