"""D3: provenance ("origin") analysis — which objects may alias something reachable from a parameter of the entry
function, and which statements mutate such an object.  Interprocedural (context-sensitive inlining of package
functions), flow-sensitive for local names AND for the fields of objects allocated during the call.

Abstract objects
    PARAM(p)   something reachable from parameter p of the entry point; attribute / key / method-result access yields a
               distinct child object (so that static types established by isinstance tests and annotations stay
               separate), summarised beyond depth 4
    FRESH(s)   an object allocated at site s during the call; its fields (attribute / literal key -> set of objects,
               '*' for contents under non-literal keys) live in the flow-sensitive heap of the state
    GLOBAL(g)  a module-level mutable object of the package
Values are frozensets of abstract objects (immutable constants carry the empty set).

Known unsoundness (stated in the evidence): a fresh abstract object may summarise several concrete objects of one
allocation site, yet a store through a singleton fresh receiver is a strong update; methods of library objects that
are not in the mutator catalogue are assumed not to mutate their receiver.
"""
from __future__ import annotations

import ast

from .flow import FlowWalker, join_all
from .source import AnalysisError, ClassInfo, FuncInfo, ModuleInfo, norm, const_value

MUTATING_METHODS = {"update", "pop", "popitem", "append", "extend", "clear", "sort", "setdefault", "insert", "remove",
                    "fill", "sortby", "resize", "put", "itemset", "reverse", "partition", "add", "discard", "byteswap",
                    "__setitem__", "__delitem__", "__iadd__", "__isub__", "__imul__", "__itruediv__", "set_units",
                    # pint's in-place conversions of a Quantity
                    "ito", "ito_base_units", "ito_reduced_units", "ito_root_units", "ito_preferred"}
IMMUTABLE_ANNOT = {"str", "bool", "int", "float", "complex", "bytes"}
# library functions whose result is (or may be) a view of / the same object as one of their arguments
ALIASING_LIB = {"numpy.asarray": 0, "numpy.asanyarray": 0, "numpy.atleast_1d": 0, "numpy.atleast_2d": 0, "numpy.ravel": 0,
                "numpy.reshape": 0, "numpy.broadcast_to": 0, "numpy.squeeze": 0, "numpy.transpose": 0,
                "numpy.ma.masked_where": 1, "numpy.ma.asarray": 0, "numpy.ma.masked_array": 0, "numpy.swapaxes": 0,
                "numpy.expand_dims": 0}
CONTAINER_BUILDERS = {"dict", "list", "tuple", "set", "zip", "enumerate", "sorted", "reversed", "iter", "map", "filter",
                      "frozenset"}
VIEW_METHODS = {"reshape", "ravel", "view", "squeeze", "transpose", "swapaxes"}
EMPTY = frozenset()


class Obj:
    __slots__ = ("kind", "label", "cls", "exempt", "children", "depth", "scalar")

    def __init__(self, kind, label, cls=None, exempt=False, depth=0, scalar=False):
        self.kind, self.label, self.cls, self.exempt = kind, label, cls, exempt
        self.scalar = scalar
        self.children = {}
        self.depth = depth

    def child(self, key):
        if self.depth >= 4:
            return self
        c = self.children.get(key)
        if c is None:
            c = Obj(self.kind, self.label, None, self.exempt, self.depth + 1, self.scalar)
            self.children[key] = c
        return c

    def typed(self, cls):
        """The same object seen under a static type established by an isinstance test or an annotation."""
        if self.cls is not None or self.kind == "fresh":
            return self
        key = ("type", cls.qual)
        c = self.children.get(key)
        if c is None:
            c = Obj(self.kind, self.label, cls, self.exempt, self.depth, self.scalar)
            c.children = self.children
            self.children[key] = c
        return c

    def __repr__(self):
        return "%s(%s%s)" % (self.kind.upper(), self.label, ":" + self.cls.name if self.cls else "")


class Env:
    """names: local name -> value;  heap: (fresh object, field key) -> value  (both flow-sensitive)."""

    def __init__(self, names=None, heap=None):
        self.names = dict(names or {})
        self.heap = dict(heap or {})

    def copy(self):
        return Env(self.names, self.heap)

    def join(self, other):
        out = {}
        for k in set(self.names) | set(other.names):
            out[k] = self.names.get(k, EMPTY) | other.names.get(k, EMPTY)
        heap = {}
        for k in set(self.heap) | set(other.heap):
            heap[k] = self.heap.get(k, EMPTY) | other.heap.get(k, EMPTY)
        return Env(out, heap)

    def __eq__(self, other):
        return isinstance(other, Env) and self.names == other.names and self.heap == other.heap

    def fields_of(self, o):
        return {k[1]: v for k, v in self.heap.items() if k[0] is o}

    def __repr__(self):
        return "Env(%d names, %d fields)" % (len(self.names), len(self.heap))


class Finding:
    def __init__(self, fi, node, what, objs, chain):
        self.fi, self.node, self.what, self.objs, self.chain = fi, node, what, objs, chain

    @property
    def params(self):
        return sorted({o.label for o in self.objs if o.kind == "param"} |
                      {"global:" + o.label for o in self.objs if o.kind == "global"})


class OriginAnalysis:
    MAX_DEPTH = 8

    def __init__(self, tree, exempt_params=("ax", "fig"), exempt_sites=()):
        self.tree = tree
        self.exempt_params = set(exempt_params)
        self.exempt_sites = set(exempt_sites)  # (function qual, normalised statement)
        self.findings = []
        self.fresh = {}
        self.globals = {}
        self.chain = []
        self.functions_seen = set()
        self.call_sites = 0

    # ------------------------------------------------------------------ objects
    def fresh_obj(self, site, cls=None):
        key = (site, cls.qual if cls else None, tuple(c[0] for c in self.chain[-2:]))
        o = self.fresh.get(key)
        if o is None:
            o = Obj("fresh", "%s" % (site,), cls)
            self.fresh[key] = o
        return o

    def global_obj(self, mi, name):
        key = (mi.rel, name)
        if key not in self.globals:
            self.globals[key] = Obj("global", "%s::%s" % (mi.rel, name))
        return self.globals[key]

    def contents(self, val, env):
        """Objects stored inside the objects of val (one level)."""
        out = set()
        for o in val:
            if o.kind != "fresh":
                out.add(o.child("*"))
            else:
                for v in env.fields_of(o).values():
                    out |= v
        return frozenset(out)

    def field(self, val, key, env):
        out = set()
        for o in val:
            if o.kind != "fresh":
                out.add(o.child(key))
                continue
            fs = env.fields_of(o)
            if key != "*" and key in fs:
                out |= fs[key]
                out |= fs.get("*", EMPTY)
            else:
                for v in fs.values():
                    out |= v
        return frozenset(out)

    def store_field(self, val, key, value, env, fi, node, what):
        bad = {o for o in val if o.kind in ("param", "global") and not o.exempt}
        if bad:
            self.report(fi, node, what, bad)
        fresh = [o for o in val if o.kind == "fresh"]
        strong = len(val) == 1 and len(fresh) == 1 and key != "*"
        for o in fresh:
            if strong:
                env.heap[(o, key)] = value
            else:
                env.heap[(o, key)] = env.heap.get((o, key), EMPTY) | value

    def add_field(self, o, key, value, env):
        env.heap[(o, key)] = env.heap.get((o, key), EMPTY) | value

    def mutate(self, val, fi, node, what):
        bad = {o for o in val if o.kind in ("param", "global") and not o.exempt and not (o.scalar and "in-place operator" in what)}
        if bad:
            self.report(fi, node, what, bad)

    def report(self, fi, node, what, objs):
        stmt = norm(node)
        if (fi.qual, stmt) in self.exempt_sites:
            return
        for f in self.findings:
            if f.fi.qual == fi.qual and norm(f.node) == stmt and f.what == what:
                f.objs |= set(objs)
                return
        self.findings.append(Finding(fi, node, what, set(objs), [c[0] for c in self.chain]))

    # ------------------------------------------------------------------ entry
    def analyse_entry(self, fi, data_params=None):
        a = fi.node.args
        env = Env()
        for p in a.posonlyargs + a.args + a.kwonlyargs:
            ann = norm(p.annotation) if p.annotation is not None else ""
            if ann in IMMUTABLE_ANNOT:
                # annotated as a plain number / string: `x += 1` rebinds the local name and is no mutation - but a catalogued mutating METHOD
                # called on it (limit.ito(...), x.sort()) shows that another kind of object is accepted there, and changes the caller's
                env.names[p.arg] = frozenset([Obj("param", p.arg, None, exempt=p.arg in self.exempt_params, scalar=True)])
                continue
            if data_params is not None and p.arg not in data_params and p.arg not in self.exempt_params:
                env.names[p.arg] = EMPTY
                continue
            o = Obj("param", p.arg, self.annot_class(fi, p.annotation), exempt=p.arg in self.exempt_params)
            env.names[p.arg] = frozenset([o])
        if a.vararg is not None:
            o = Obj("param", a.vararg.arg)
            t = self.fresh_obj("*%s" % a.vararg.arg)
            env.heap[(t, "*")] = frozenset([o])
            env.names[a.vararg.arg] = frozenset([t])
        if a.kwarg is not None:
            o = Obj("param", a.kwarg.arg)
            t = self.fresh_obj("**%s" % a.kwarg.arg)
            env.heap[(t, "*")] = frozenset([o])
            env.names[a.kwarg.arg] = frozenset([t])
        self.chain = [(fi.qual, None)]
        self.run_function(fi, env)
        return self.findings

    def annot_class(self, fi, annotation):
        if annotation is None:
            return None
        r = self.tree.resolve_expr(fi.module, annotation) if isinstance(annotation, (ast.Name, ast.Attribute)) else None
        return r if isinstance(r, ClassInfo) else None

    # ------------------------------------------------------------------ function interpretation
    def run_function(self, fi, env):
        """Returns (returned value, heap at the normal exits)."""
        self.functions_seen.add(fi.qual)
        w = _Walker(self, fi)
        from .normalize import unroll_constant_loops
        w.run(unroll_constant_loops(self.tree, fi), env)
        out_env = join_all(w.exit_envs)
        heap = out_env.heap if out_env is not None else env.heap
        if w.yielded is not None:
            # a generator function: the call returns an iterator whose elements are what the body yields
            g = self.fresh_obj("gen:%s" % fi.qual)
            heap = dict(heap)
            for k in [k for k in heap if k[0] is g]:
                del heap[k]
            heap[(g, "*")] = frozenset(w.yielded)
            return frozenset([g]), heap
        return frozenset(w.returned), heap

    def call_function(self, fi, bound_env, call_node):
        if len(self.chain) >= self.MAX_DEPTH or sum(1 for c in self.chain if c[0] == fi.qual) >= 2:
            out = set()
            for v in bound_env.names.values():
                out |= v
            return frozenset(out), bound_env.heap
        # the same function entered with the same abstract inputs (same objects bound to the same names, same heap) gives the same abstract
        # result: remembered, so that chains of property getters do not multiply the work at every level (the analysis is deterministic
        # in its inputs; findings of the first evaluation are already recorded)
        # The key is the callee, its caller (fresh objects are named after the last two functions of the call chain) and the part of the
        # abstract state the callee can see: the objects bound to its parameters and everything reachable from them through the heap.
        # The rest of the heap is a FRAME: it passes through the call unchanged, so a remembered result is the callee's heap DELTA, applied
        # to whatever heap the next caller has.
        try:
            by_obj = {}
            for (o, f), v in bound_env.heap.items():
                by_obj.setdefault(id(o), []).append((f, v))
            seen, todo = set(), [o for v in bound_env.names.values() for o in v]
            while todo:
                o = todo.pop()
                if id(o) in seen:
                    continue
                seen.add(id(o))
                for f, v in by_obj.get(id(o), ()):
                    todo.extend(v)
            visible = frozenset(((id(o), f), v) for (o, f), v in bound_env.heap.items() if id(o) in seen)
            key = (fi.qual, self.chain[-1][0] if self.chain else None, frozenset(bound_env.names.items()), visible)
            hash(key)
        except TypeError:
            key = None
        memo = self.__dict__.setdefault("_call_memo", {})
        if key is not None and key in memo:
            ret, delta = memo[key]
            heap = dict(bound_env.heap)
            heap.update(delta)
            return ret, heap
        self.chain.append((fi.qual, call_node))
        try:
            ret, heap = self.run_function(fi, bound_env)
        finally:
            self.chain.pop()
        if key is not None:
            memo[key] = (ret, {k: v for k, v in heap.items() if bound_env.heap.get(k) != v})
        return ret, heap


class _Walker(FlowWalker):
    def __init__(self, an, fi):
        super().__init__()
        self.an, self.fi, self.tree = an, fi, an.tree
        self.returned = set()
        self.yielded = None           # generator functions: what they yield (the call returns an iterator over these)
        self.exit_envs = []

    def exit(self, kind, node, env):
        if kind in ("return", "end"):
            self.exit_envs.append(env.copy())

    # ---------------------------------------------------------------- statements
    def simple(self, st, env):
        if isinstance(st, ast.Assign):
            v = self.ev(st.value, env)
            for t in st.targets:
                self.assign(t, v, env, st)
        elif isinstance(st, ast.AnnAssign):
            if st.value is not None:
                self.assign(st.target, self.ev(st.value, env), env, st)
        elif isinstance(st, ast.AugAssign):
            v = self.ev(st.value, env)
            t = st.target
            if isinstance(t, ast.Name):
                cur = env.names.get(t.id, EMPTY)
                self.an.mutate(cur, self.fi, st, "in-place operator on a caller's object")
            elif isinstance(t, ast.Attribute):
                recv = self.ev(t.value, env)
                cur = self.an.field(recv, t.attr, env)
                self.an.mutate(recv, self.fi, st, "augmented assignment to an attribute")
                self.an.mutate(cur, self.fi, st, "in-place operator on a caller's object")
            elif isinstance(t, ast.Subscript):
                recv = self.ev(t.value, env)
                if not isinstance(t.slice, ast.Slice):
                    self.ev(t.slice, env)
                self.an.mutate(recv, self.fi, st, "augmented assignment to an element")
        elif isinstance(st, ast.Delete):
            for t in st.targets:
                if isinstance(t, ast.Subscript):
                    self.an.mutate(self.ev(t.value, env), self.fi, st, "del of an element")
                elif isinstance(t, ast.Attribute):
                    self.an.mutate(self.ev(t.value, env), self.fi, st, "del of an attribute")
                elif isinstance(t, ast.Name):
                    env.names.pop(t.id, None)
        elif isinstance(st, ast.Expr):
            self.ev(st.value, env)
        elif isinstance(st, ast.Return):
            if st.value is not None:
                self.returned |= self.ev(st.value, env)
        elif isinstance(st, ast.Raise):
            if st.exc is not None:
                self.ev(st.exc, env)
        elif isinstance(st, (ast.FunctionDef, ast.AsyncFunctionDef, ast.ClassDef)):
            env.names[st.name] = EMPTY
        return env

    def assign(self, t, v, env, st):
        if isinstance(t, ast.Name):
            env.names[t.id] = v
        elif isinstance(t, (ast.Tuple, ast.List)):
            # positional: a tuple literal / returned tuple keeps its elements apart (field i); anything else yields its contents
            c = self.an.contents(v, env)
            starred = any(isinstance(e, ast.Starred) for e in t.elts)
            for i, e in enumerate(t.elts):
                if isinstance(e, ast.Starred) or starred:
                    self.assign(e.value if isinstance(e, ast.Starred) else e, c, env, st)
                else:
                    self.assign(e, self.an.field(v, i, env), env, st)
        elif isinstance(t, ast.Attribute):
            recv = self.ev(t.value, env)
            self.an.store_field(recv, t.attr, v, env, self.fi, st, "attribute store")
        elif isinstance(t, ast.Subscript):
            recv = self.ev(t.value, env)
            idx = EMPTY
            if not isinstance(t.slice, ast.Slice):
                idx = self.ev(t.slice, env)
            plain = set()
            for o in recv:
                si = self.tree.method(o.cls, "__setitem__") if o.cls is not None else None
                if si is not None:
                    self.call_bound(si, frozenset([o]), [idx, v], {}, st, env)
                else:
                    plain.add(o)
            if plain:
                self.an.store_field(frozenset(plain), self.key_of(t.slice), v, env, self.fi, st, "subscript store")
        elif isinstance(t, ast.Starred):
            self.assign(t.value, v, env, st)

    def key_of(self, s):
        c = const_value(s)
        if isinstance(c, (str, int)) and not isinstance(c, bool):
            return c
        return "*"

    def test(self, expr, env):
        self.ev(expr, env)
        t, f = env.copy(), env.copy()
        self.narrow(expr, t, True)
        self.narrow(expr, f, False)
        return t, f

    def narrow(self, expr, env, outcome):
        neg = False
        while isinstance(expr, ast.UnaryOp) and isinstance(expr.op, ast.Not):
            neg = not neg
            expr = expr.operand
        if neg:
            outcome = not outcome
        if isinstance(expr, ast.BoolOp):
            if (isinstance(expr.op, ast.And) and outcome) or (isinstance(expr.op, ast.Or) and not outcome):
                for v in expr.values:
                    self.narrow(v, env, outcome)
            return
        if isinstance(expr, ast.Call) and isinstance(expr.func, ast.Name) and expr.func.id == "isinstance" and \
                len(expr.args) == 2 and isinstance(expr.args[0], ast.Name) and outcome:
            cls = self.tree.resolve_expr(self.fi.module, expr.args[1]) if isinstance(
                expr.args[1], (ast.Name, ast.Attribute)) else None
            if isinstance(cls, ClassInfo):
                nm = expr.args[0].id
                env.names[nm] = frozenset(o.typed(cls) for o in env.names.get(nm, EMPTY))
        if isinstance(expr, ast.Compare) and len(expr.ops) == 1 and isinstance(expr.ops[0], (ast.Is, ast.IsNot)) and \
                isinstance(expr.left, ast.Name) and isinstance(expr.comparators[0], ast.Constant) and \
                expr.comparators[0].value is None:
            is_none = outcome if isinstance(expr.ops[0], ast.Is) else not outcome
            if is_none:
                env.names[expr.left.id] = EMPTY

    def iter_bind(self, target, it, env):
        v = self.ev(it, env)
        c = self.an.contents(v, env)
        if isinstance(target, (ast.Tuple, ast.List)):
            # items()/zip()/enumerate() yield tuples: the targets receive what the tuples hold
            inner = frozenset(o for o in c if o.kind == "fresh" and o.label.startswith(("call:", "lit:", "comp:")))
            rest = c - inner
            cc = self.an.contents(inner, env) | rest
            starred = any(isinstance(e, ast.Starred) for e in target.elts)
            for i, e in enumerate(target.elts):
                if isinstance(e, ast.Starred) or starred:
                    self.assign(e.value if isinstance(e, ast.Starred) else e, cc, env, it)
                else:
                    # element i of the yielded tuples (zip/enumerate/items keep positions apart)
                    self.assign(e, self.an.field(inner, i, env) | frozenset(o.child(i) if o.kind != "fresh" else o for o in rest), env, it)
        else:
            self.assign(target, c, env, it)
        return env

    def with_enter(self, item, env):
        v = self.ev(item.context_expr, env)
        if item.optional_vars is not None:
            self.assign(item.optional_vars, v, env, item.context_expr)
        return env

    def handler_bind(self, h, env):
        if h.name:
            env.names[h.name] = EMPTY
        return env

    # ---------------------------------------------------------------- expressions
    def ev(self, node, env):
        m = getattr(self, "ev_" + type(node).__name__, None)
        if m is None:
            for ch in ast.iter_child_nodes(node):
                if isinstance(ch, ast.expr):
                    self.ev(ch, env)
            return EMPTY
        return m(node, env)

    def ev_Constant(self, node, env):
        return EMPTY

    def ev_Yield(self, node, env):
        v = self.ev(node.value, env) if node.value is not None else EMPTY
        self.yielded = (self.yielded or frozenset()) | v
        return EMPTY

    def ev_YieldFrom(self, node, env):
        v = self.ev(node.value, env)
        self.yielded = (self.yielded or frozenset()) | self.an.contents(v, env)
        return EMPTY

    def ev_Name(self, node, env):
        if node.id in env.names:
            return env.names[node.id]
        r = self.tree.resolve_name(self.fi.module, node.id)
        if isinstance(r, tuple) and r[0] == "value":
            mi, vnode = r[1], r[2]
            if isinstance(vnode, (ast.Dict, ast.List, ast.Set, ast.ListComp, ast.DictComp)) or (
                    isinstance(vnode, ast.Call) and norm(vnode.func) in ("dict", "list", "set")):
                return frozenset([self.an.global_obj(mi, node.id)])
        return EMPTY

    def is_property(self, fi):
        return any(isinstance(d, ast.Name) and d.id == "property" for d in fi.node.decorator_list)

    def ev_Attribute(self, node, env):
        base = self.ev(node.value, env)
        out = set()
        for o in base:
            if o.cls is not None:
                getter = self.tree.method(o.cls, node.attr)
                if getter is not None and self.is_property(getter):
                    out |= self.call_bound(getter, frozenset([o]), [], {}, node, env)
                    continue
            out |= self.an.field(frozenset([o]), node.attr, env)
        return frozenset(out)

    def ev_Subscript(self, node, env):
        base = self.ev(node.value, env)
        idx = EMPTY
        if not isinstance(node.slice, ast.Slice):
            idx = self.ev(node.slice, env)
        out = set()
        for o in base:
            if o.cls is not None:
                gi = self.tree.method(o.cls, "__getitem__")
                if gi is not None:
                    out |= self.call_bound(gi, frozenset([o]), [idx], {}, node, env)
                    continue
            out |= self.an.field(frozenset([o]), self.key_of(node.slice), env)
            if isinstance(node.slice, ast.Slice) and o.kind == "fresh":
                out.add(o)  # a slice of a fresh sequence/array is (a view of) the same data
        return frozenset(out)

    def ev_Starred(self, node, env):
        return self.an.contents(self.ev(node.value, env), env)

    def ev_BinOp(self, node, env):
        a, b = self.ev(node.left, env), self.ev(node.right, env)
        o = self.an.fresh_obj("op:%s:%d:%d" % (self.fi.qual, node.lineno, node.col_offset))
        c = self.an.contents(frozenset(x for x in (a | b) if x.kind == "fresh"), env)
        if c:
            self.an.add_field(o, "*", c, env)
        return frozenset([o])

    def ev_UnaryOp(self, node, env):
        self.ev(node.operand, env)
        return frozenset([self.an.fresh_obj("op:%s:%d:%d" % (self.fi.qual, node.lineno, node.col_offset))])

    def ev_BoolOp(self, node, env):
        out = set()
        for v in node.values:
            out |= self.ev(v, env)
        return frozenset(out)

    def ev_Compare(self, node, env):
        self.ev(node.left, env)
        for c in node.comparators:
            self.ev(c, env)
        return EMPTY

    def ev_IfExp(self, node, env):
        self.ev(node.test, env)
        return self.ev(node.body, env) | self.ev(node.orelse, env)

    def ev_NamedExpr(self, node, env):
        v = self.ev(node.value, env)
        self.assign(node.target, v, env, node)
        return v

    def ev_JoinedStr(self, node, env):
        return EMPTY

    def ev_Lambda(self, node, env):
        return EMPTY

    def _literal(self, node, env, items):
        o = self.an.fresh_obj("lit:%s:%d:%d" % (self.fi.qual, node.lineno, node.col_offset))
        # a literal evaluated again (loop) denotes a new object: start from what this evaluation stores
        for k in [k for k in env.heap if k[0] is o]:
            del env.heap[k]
        for k, v in items:
            self.an.add_field(o, k, v, env)
        return frozenset([o])

    def ev_Dict(self, node, env):
        items = []
        for k, v in zip(node.keys, node.values):
            if k is None:
                items.append(("*", self.an.contents(self.ev(v, env), env)))
            else:
                self.ev(k, env)
                items.append((self.key_of(k), self.ev(v, env)))
        return self._literal(node, env, items)

    def ev_List(self, node, env):
        items = []
        for i, e in enumerate(node.elts):
            v = self.ev(e, env)
            items.append(("*" if isinstance(e, ast.Starred) else i, v))
        return self._literal(node, env, items)

    ev_Tuple = ev_List
    ev_Set = ev_List

    def _comp(self, node, env, elts):
        env2 = env.copy()
        for g in node.generators:
            self.iter_bind(g.target, g.iter, env2)
            for c in g.ifs:
                self.ev(c, env2)
        o = self.an.fresh_obj("comp:%s:%d:%d" % (self.fi.qual, node.lineno, node.col_offset))
        val = EMPTY
        for e in elts:
            val |= self.ev(e, env2)
        for k, v in env2.heap.items():
            if k not in env.heap or env.heap[k] != v:
                env.heap[k] = env.heap.get(k, EMPTY) | v
        env.heap[(o, "*")] = val
        return frozenset([o])

    def ev_ListComp(self, node, env):
        return self._comp(node, env, [node.elt])

    ev_SetComp = ev_ListComp
    ev_GeneratorExp = ev_ListComp

    def ev_DictComp(self, node, env):
        return self._comp(node, env, [node.value])

    # ---------------------------------------------------------------- calls
    def ev_Call(self, node, env):
        self.an.call_sites += 1
        args = [self.ev(a, env) for a in node.args]
        kwargs = {}
        star_kw = EMPTY
        star_kw_objs = EMPTY
        for k in node.keywords:
            v = self.ev(k.value, env)
            if k.arg is None:
                star_kw |= self.an.contents(v, env)
                star_kw_objs |= v
            else:
                kwargs[k.arg] = v
        f = node.func
        ctx = (args, kwargs, star_kw, star_kw_objs)
        if isinstance(f, ast.Attribute) and f.attr == "__class__":
            recv = self.ev(f.value, env)
            out = set()
            for o in recv:
                if o.cls is not None:
                    out |= self.construct(o.cls, node, env, ctx)
                else:
                    out |= self.lib_result(node, "?.__class__", env, ctx)
            if not recv:
                out |= self.lib_result(node, "?.__class__", env, ctx)
            return frozenset(out)
        if isinstance(f, ast.Attribute) and not self.is_module_expr(f.value):
            if isinstance(f.value, ast.Call) and isinstance(f.value.func, ast.Name) and f.value.func.id == "super":
                callee = self.tree.resolve_call(self.fi, node)
                if isinstance(callee, FuncInfo):
                    return self.call_bound(callee, env.names.get("self", EMPTY), args, kwargs, node, env, ctx)
            recv = self.ev(f.value, env)
            return self.method_call(node, f.attr, recv, env, ctx)
        # getattr(<package module>, <name>)(...): any public function of that module may be the callee
        if isinstance(f, ast.Call) and isinstance(f.func, ast.Name) and f.func.id == "getattr" and len(f.args) >= 2:
            target = self.tree.resolve_expr(self.fi.module, f.args[0]) if isinstance(f.args[0], (ast.Name, ast.Attribute)) else None
            if isinstance(target, ModuleInfo):
                out = set()
                base_heap = dict(env.heap)
                heaps = []
                for fn in target.functions.values():
                    if fn.name.startswith("_"):
                        continue
                    env.heap = dict(base_heap)
                    benv = self.bind(fn, None, node, env, ctx)
                    out |= self.invoke(fn, benv, node, env)
                    heaps.append(env.heap)
                merged = {}
                for h in heaps or [base_heap]:
                    for k, v in h.items():
                        merged[k] = merged.get(k, EMPTY) | v
                env.heap = merged
                return frozenset(out)
        callee = self.tree.resolve_call(self.fi, node)
        if isinstance(callee, FuncInfo):
            benv = self.bind(callee, None, node, env, ctx)
            return self.invoke(callee, benv, node, env)
        if isinstance(callee, ClassInfo):
            return self.construct(callee, node, env, ctx)
        name = None
        if isinstance(callee, tuple) and callee[0] == "ext":
            name = callee[1]
        elif isinstance(f, ast.Name):
            name = f.id
            if f.id in env.names and env.names[f.id]:
                cands = self.registry_functions(env.names[f.id])
                if cands:
                    # an element of a module-level registry of package functions (dispatch table): any registered function may be the callee
                    out = set()
                    base_heap = dict(env.heap)
                    heaps = []
                    for fn in cands:
                        env.heap = dict(base_heap)
                        benv = self.bind(fn, None, node, env, ctx)
                        out |= self.invoke(fn, benv, node, env)
                        heaps.append(env.heap)
                    merged = {}
                    for h in heaps:
                        for k, v in h.items():
                            merged[k] = merged.get(k, EMPTY) | v
                    env.heap = merged
                    return frozenset(out)
                out = set(env.names[f.id])
                for a in args:
                    out |= a
                return frozenset(o.child("()") if o.kind != "fresh" else o for o in out)
        return self.lib_result(node, name or norm(f), env, ctx)

    def registry_functions(self, objs):
        """objs all stem from ONE module-level object of the package: the package functions that object can hold - those named in its
        defining expression, in top-level statements that mention it, and the top-level functions of its module that carry a decorator
        defined in the package (registering decorators)."""
        labels = {o.label for o in objs if o.kind == "global"}
        if len(labels) != 1 or any(o.kind != "global" for o in objs):
            return []
        label = next(iter(labels))
        if "::" not in label:
            return []
        rel, name = label.split("::", 1)
        try:
            mod = self.tree.module(rel)
        except Exception:
            return []
        out = []

        def add(n):
            if isinstance(n, ast.Name):
                r = self.tree.resolve_name(mod, n.id)
                if isinstance(r, FuncInfo) and r not in out:
                    out.append(r)
        for st in mod.tree.body:
            if isinstance(st, (ast.FunctionDef, ast.ClassDef)):
                for d in st.decorator_list:
                    fn = d.func if isinstance(d, ast.Call) else d
                    if isinstance(fn, ast.Name) and isinstance(self.tree.resolve_name(mod, fn.id), FuncInfo) and isinstance(st, ast.FunctionDef):
                        r = self.tree.resolve_name(mod, st.name)
                        if isinstance(r, FuncInfo) and r not in out:
                            out.append(r)
                continue
            if any(isinstance(n, ast.Name) and n.id == name for n in ast.walk(st)):
                for n in ast.walk(st):
                    add(n)
        return out

    def is_module_expr(self, node):
        if isinstance(node, ast.Name) and node.id == "self":
            return False
        r = self.tree.resolve_expr(self.fi.module, node) if isinstance(node, (ast.Name, ast.Attribute)) else None
        return isinstance(r, ModuleInfo) or (isinstance(r, tuple) and r[0] == "ext")

    def lib_result(self, node, name, env, ctx):
        args, kwargs, star_kw, star_kw_objs = ctx
        allv = set(star_kw)
        for a in args:
            allv |= a
        for v in kwargs.values():
            allv |= v
        o = self.an.fresh_obj("call:%s:%d:%d" % (self.fi.qual, node.lineno, node.col_offset))
        for k in [k for k in env.heap if k[0] is o]:
            del env.heap[k]
        short = name.split(".")[-1] if name else ""
        if name in CONTAINER_BUILDERS or short in ("OrderedDict", "defaultdict", "deepcopy"):
            if name in ("zip", "enumerate") and not star_kw:
                # yields tuples: position i holds the elements of argument i (enumerate: position 0 is an int)
                tup = self.an.fresh_obj("call:%s:%d:%d:tuple" % (self.fi.qual, node.lineno, node.col_offset))
                for k in [k for k in env.heap if k[0] is tup]:
                    del env.heap[k]
                cols = ([EMPTY] if name == "enumerate" else []) + [self.an.contents(a, env) for a in args]
                for i, cv in enumerate(cols):
                    env.heap[(tup, i)] = cv
                self.an.add_field(o, "*", frozenset([tup]), env)
            elif name in ("zip", "enumerate", "map", "filter"):
                self.an.add_field(o, "*", self.an.contents(frozenset(allv), env), env)
            else:
                # dict(d) / list(x): a shallow copy — same keys, same member objects
                for a in list(args) + [star_kw_objs]:
                    for src in a:
                        if src.kind == "fresh":
                            for k, v in env.fields_of(src).items():
                                self.an.add_field(o, k, v, env)
                        else:
                            self.an.add_field(o, "*", frozenset([src.child("*")]), env)
            for k, v in kwargs.items():
                self.an.add_field(o, k, v, env)
            return frozenset([o])
        if name and name.startswith("numpy.") and isinstance(node, ast.Call) and \
                any(k.arg == "copy" and isinstance(k.value, ast.Constant) and k.value.value is False for k in node.keywords):
            # numpy.ma.masked_*(a, ..., copy=False) / numpy.nan_to_num(a, copy=False) / numpy.array(a, copy=False): works on the
            # operand's own buffer (masks or replaces entries in place) and returns a view of it
            src = EMPTY
            for a in args[:2]:
                src |= a
            if not name.endswith((".array", ".asarray", ".asanyarray", ".astype")):
                self.an.mutate(src, self.fi, node, "in-place library operation (copy=False)")
            return frozenset([o]) | src
        if name in ALIASING_LIB:
            idx = ALIASING_LIB[name]
            first = args[idx] if len(args) > idx else EMPTY
            return frozenset([o]) | first
        if name == "getattr" and args:
            # an attribute of the object (any of them: the name is not known), never the object itself
            return self.an.contents(args[0], env)
        return frozenset([o])

    def method_call(self, node, mname, recv, env, ctx):
        args, kwargs, star_kw, star_kw_objs = ctx
        out = set()
        for o in recv:
            if o.cls is not None:
                m = self.tree.method(o.cls, mname)
                if m is not None:
                    out |= self.call_bound(m, frozenset([o]), args, kwargs, node, env, ctx)
                    continue
            if o.kind in ("param", "global"):
                if mname in MUTATING_METHODS and not o.exempt:
                    self.an.report(self.fi, node, "mutating method .%s()" % mname, {o})
                out.add(o.child("()" + mname))
                continue
            site = "call:%s:%d:%d" % (self.fi.qual, node.lineno, node.col_offset)
            if mname == "update":
                for a in list(args) + [star_kw_objs]:
                    for src in a:
                        if src.kind == "fresh":
                            for k, v in env.fields_of(src).items():
                                self.an.add_field(o, k, v, env)
                        else:
                            self.an.add_field(o, "*", frozenset([src.child("*")]), env)
                for k, v in kwargs.items():
                    env.heap[(o, k)] = v if len(recv) == 1 else env.heap.get((o, k), EMPTY) | v
            elif mname in ("append", "add", "insert", "extend", "setdefault"):
                for a in args:
                    self.an.add_field(o, "*", self.an.contents(a, env) if mname == "extend" else a, env)
                if mname == "setdefault":
                    out |= self.an.contents(frozenset([o]), env)
            elif mname in ("get", "pop", "popitem", "__getitem__"):
                k = const_value(node.args[0]) if node.args else None
                out |= self.an.field(frozenset([o]), k if isinstance(k, (str, int)) and not isinstance(k, bool) else "*", env)
                for a in args[1:]:
                    out |= a
            elif mname == "items":
                r = self.an.fresh_obj(site)
                tup = self.an.fresh_obj(site + ":tuple")
                for k in [k for k in env.heap if k[0] in (r, tup)]:
                    del env.heap[k]
                env.heap[(tup, 0)] = EMPTY
                env.heap[(tup, 1)] = self.an.contents(frozenset([o]), env)
                env.heap[(r, "*")] = frozenset([tup])
                out.add(r)
            elif mname in ("values", "keys", "__iter__"):
                r = self.an.fresh_obj(site)
                env.heap[(r, "*")] = self.an.contents(frozenset([o]), env) if mname != "keys" else EMPTY
                out.add(r)
            elif mname == "copy":
                r = self.an.fresh_obj(site)
                for k in [k for k in env.heap if k[0] is r]:
                    del env.heap[k]
                for k, v in env.fields_of(o).items():
                    env.heap[(r, k)] = v
                out.add(r)
            elif mname in VIEW_METHODS:
                out.add(o)
            else:
                out.add(self.an.fresh_obj(site))
        if not recv:
            out.add(self.an.fresh_obj("call:%s:%d:%d" % (self.fi.qual, node.lineno, node.col_offset)))
        return frozenset(out)

    def bind(self, callee, self_val, node, env, ctx):
        args, kwargs, star_kw, star_kw_objs = ctx
        a = callee.node.args
        names = [x.arg for x in a.posonlyargs + a.args]
        benv = Env({}, env.heap)
        if self_val is not None and names:
            benv.names[names[0]] = self_val
            names = names[1:]
        arg_nodes = getattr(node, "args", None) if isinstance(node, ast.Call) else None
        pos, star_pos = [], EMPTY
        if arg_nodes is not None and len(arg_nodes) == len(args):
            for an_, v in zip(arg_nodes, args):
                if isinstance(an_, ast.Starred):
                    star_pos |= v
                else:
                    pos.append(v)
        else:
            pos = list(args)
        for n_, v in zip(names, pos):
            benv.names[n_] = v
        rest = pos[len(names):]
        defaults = {}
        dn = names[len(names) - len(a.defaults):] if a.defaults else []
        for n_ in names[len(pos):]:
            if n_ in kwargs:
                benv.names[n_] = kwargs[n_]
            else:
                benv.names[n_] = star_pos | star_kw
        for x in a.kwonlyargs:
            benv.names[x.arg] = kwargs.get(x.arg, star_kw)
        if a.vararg is not None:
            t = self.an.fresh_obj("*%s@%s" % (a.vararg.arg, callee.qual))
            c = set(star_pos)
            for v in rest:
                c |= v
            benv.heap = dict(benv.heap)
            for k in [k for k in benv.heap if k[0] is t]:
                del benv.heap[k]
            benv.heap[(t, "*")] = frozenset(c)
            benv.names[a.vararg.arg] = frozenset([t])
        if a.kwarg is not None:
            t = self.an.fresh_obj("**%s@%s" % (a.kwarg.arg, callee.qual))
            benv.heap = dict(benv.heap)
            for k in [k for k in benv.heap if k[0] is t]:
                del benv.heap[k]
            known = set(names) | {x.arg for x in a.kwonlyargs}
            for k, v in kwargs.items():
                if k not in known:
                    benv.heap[(t, k)] = v
            # **d spreads the members of d key-wise
            for src in star_kw_objs:
                if src.kind == "fresh":
                    for k, v in env.fields_of(src).items():
                        if k not in known:
                            benv.heap[(t, k)] = benv.heap.get((t, k), EMPTY) | v
                else:
                    benv.heap[(t, "*")] = benv.heap.get((t, "*"), EMPTY) | frozenset([src.child("*")])
            benv.names[a.kwarg.arg] = frozenset([t])
        for x in a.posonlyargs + a.args + a.kwonlyargs:
            cls = self.an.annot_class(callee, x.annotation)
            if cls is not None and x.arg in benv.names:
                benv.names[x.arg] = frozenset(o.typed(cls) for o in benv.names[x.arg])
        return benv

    def invoke(self, callee, benv, node, env):
        ret, heap = self.an.call_function(callee, benv, node)
        env.heap = dict(heap)
        return ret

    def call_bound(self, callee, self_val, args, kwargs, node, env, ctx=None):
        if ctx is None:
            ctx = (args, kwargs, EMPTY, EMPTY)
        benv = self.bind(callee, self_val, node, env, ctx)
        return self.invoke(callee, benv, node, env)

    def construct(self, cls, node, env, ctx):
        o = self.an.fresh_obj("new:%s:%d:%d" % (self.fi.qual, node.lineno, node.col_offset), cls)
        for k in [k for k in env.heap if k[0] is o]:
            del env.heap[k]
        init = self.tree.method(cls, "__init__")
        if init is not None:
            benv = self.bind(init, frozenset([o]), node, env, ctx)
            self.invoke(init, benv, node, env)
        else:
            for a in ctx[0]:
                self.an.add_field(o, "*", a, env)
        return frozenset([o])
