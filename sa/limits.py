"""D5 x D6: asymptotic-limit evaluation — the class of every value when ONE designated source tends to +infinity and
everything else stays bounded, with the osyris kinds needed to interpret operators (Vector - Array broadcasts the
scalar to every component; .norm of a vector with infinite components is +INF; a dot product with a bounded vector of
unknown sign is UNKNOWN).  Comparisons evaluate to TRUE / FALSE / UNKNOWN.

Parameters can be specialised to None / not-None (modes); tests on them fold.
"""
from __future__ import annotations

import ast

from .flow import FlowWalker
from .source import norm, const_value, FuncInfo, ClassInfo

B, PINF, NINF, UNK = "BOUNDED", "+INF", "-INF", "UNKNOWN"


class V:
    __slots__ = ("kind", "lim", "sign", "verdict", "text", "lineno", "const")

    def __init__(self, kind="num", lim=B, sign=None, verdict=None, text=None, lineno=None, const=None):
        self.kind, self.lim, self.sign = kind, lim, sign
        self.verdict, self.text, self.lineno, self.const = verdict, text, lineno, const

    def key(self):
        return (self.kind, self.lim, self.sign, self.verdict, self.const)

    def __eq__(self, o):
        return isinstance(o, V) and self.key() == o.key()

    def __hash__(self):
        return hash(self.key())

    def __repr__(self):
        return "<%s %s%s%s>" % (self.kind, self.lim, " sign=%s" % self.sign if self.sign else "",
                                " verdict=%s" % self.verdict if self.verdict else "")


NONEV = V("none", B, None, const="None")


def neg(l):
    return {PINF: NINF, NINF: PINF}.get(l, l)


def kind_join(a, b):
    for k in ("vec", "arr"):
        if k in (a.kind, b.kind):
            return k
    if a.kind == b.kind:
        return a.kind
    return "num" if {a.kind, b.kind} <= {"num", "qty"} else "other"


def add(a, b, sub=False):
    lb = neg(b.lim) if sub else b.lim
    if a.lim == B and lb == B:
        lim = B
    elif UNK in (a.lim, lb):
        lim = UNK
    elif a.lim == B:
        lim = lb
    elif lb == B:
        lim = a.lim
    elif a.lim == lb:
        lim = a.lim
    else:
        lim = UNK
    sign = None
    if lim == B and a.sign and (b.sign if not sub else (-b.sign if b.sign else None)) == a.sign:
        sign = a.sign
    return V(kind_join(a, b), lim, sign)


def mul(a, b, div=False):
    kind = kind_join(a, b)
    if div:
        if b.lim in (PINF, NINF) and a.lim == B:
            return V(kind, B, None)
        if b.lim != B or not b.sign:
            return V(kind, UNK if a.lim != B or b.lim != B else B, a.sign * b.sign if a.sign and b.sign else None)
    if a.lim == B and b.lim == B:
        s = a.sign * b.sign if a.sign and b.sign else None
        return V(kind, B, s)
    inf, oth = (a, b) if a.lim in (PINF, NINF) else (b, a)
    if inf.lim in (PINF, NINF) and oth.lim == B and oth.sign:
        return V(kind, inf.lim if oth.sign > 0 else neg(inf.lim), None)
    if a.lim in (PINF, NINF) and b.lim in (PINF, NINF) and not div:
        return V(kind, PINF if a.lim == b.lim else NINF, None)
    return V(kind, UNK, None)


def absval(a, kind=None):
    lim = PINF if a.lim in (PINF, NINF) else a.lim
    return V(kind or a.kind, lim, 1 if lim == B else None)


def compare(op, a, b):
    """verdict of a <op> b in the limit"""
    if isinstance(op, (ast.Gt, ast.GtE)):
        a, b = b, a
    if not isinstance(op, (ast.Lt, ast.LtE, ast.Gt, ast.GtE)):
        return UNK
    if (a.lim == B and b.lim == PINF) or (a.lim == NINF and b.lim in (B, PINF)):
        return "TRUE"
    if (a.lim == PINF and b.lim in (B, NINF)) or (a.lim == B and b.lim == NINF):
        return "FALSE"
    return UNK


class LEnv:
    def __init__(self, names=None):
        self.names = dict(names or {})

    def copy(self):
        return LEnv(self.names)

    def join(self, o):
        out = {}
        for k in set(self.names) | set(o.names):
            a, b = self.names.get(k), o.names.get(k)
            if a is None or b is None:
                out[k] = a or b
            elif a == b:
                out[k] = a
            else:
                out[k] = V(kind_join(a, b), a.lim if a.lim == b.lim else UNK, a.sign if a.sign == b.sign else None,
                           a.verdict if a.verdict == b.verdict else (UNK if (a.verdict or b.verdict) else None), a.text, a.lineno)
        return LEnv(out)

    def __eq__(self, o):
        return isinstance(o, LEnv) and self.names == o.names


class LimitAnalysis(FlowWalker):
    """Runs over ONE function (package callees are summarised as bounded unless the rule supplies a summary)."""

    def __init__(self, tree, fi, sources, param_modes=None, bounded_calls=(), stop_at=None):
        super().__init__()
        self.tree, self.fi = tree, fi
        self.sources = sources          # normalised expression text -> V
        self.param_modes = param_modes or {}
        self.masks = {}                 # name -> V (comparison results bound to names)
        self.index_uses = set()         # names used as subscript index
        self.unknown_calls = set()
        self.stop_at = stop_at

    def start_env(self):
        env = LEnv()
        a = self.fi.node.args
        for p in a.posonlyargs + a.args + a.kwonlyargs:
            mode = self.param_modes.get(p.arg)
            if mode == "none":
                env.names[p.arg] = NONEV
            else:
                ann = norm(p.annotation) if p.annotation is not None else ""
                kind = "qty" if "Quantity" in ann else "vec" if ann == "Vector" else "other"
                env.names[p.arg] = V(kind, B, 1 if kind == "qty" else None, const="notnone" if mode == "notnone" else None)
        if a.vararg:
            env.names[a.vararg.arg] = V("other", B)
        if a.kwarg:
            env.names[a.kwarg.arg] = V("other", B)
        return env

    def analyse(self):
        self.run(self.fi.node, self.start_env())
        return self.masks

    # ------------------------------------------------------------ control
    def fold(self, expr, env):
        """Definite truth of a test under the mode assumptions, or None."""
        if isinstance(expr, ast.Compare) and len(expr.ops) == 1 and isinstance(expr.ops[0], (ast.Is, ast.IsNot)) and \
                isinstance(expr.comparators[0], ast.Constant) and expr.comparators[0].value is None:
            v = self.ev(expr.left, env)
            if v.kind == "none":
                return isinstance(expr.ops[0], ast.Is)
            if v.const == "notnone" or v.kind in ("vec", "arr", "qty", "num", "basis", "mask"):
                return isinstance(expr.ops[0], ast.IsNot)
            return None
        if isinstance(expr, ast.Name):
            v = env.names.get(expr.id)
            if v is not None and v.kind == "bool" and v.const in (True, False):
                return v.const
            return None
        if isinstance(expr, ast.UnaryOp) and isinstance(expr.op, ast.Not):
            r = self.fold(expr.operand, env)
            return None if r is None else not r
        if isinstance(expr, ast.BoolOp):
            vals = [self.fold(v, env) for v in expr.values]
            if isinstance(expr.op, ast.And):
                if any(v is False for v in vals):
                    return False
                if all(v is True for v in vals):
                    return True
            else:
                if any(v is True for v in vals):
                    return True
                if all(v is False for v in vals):
                    return False
        return None

    def test(self, expr, env):
        r = self.fold(expr, env)
        self.ev(expr, env)
        if r is True:
            return env.copy(), None
        if r is False:
            return None, env.copy()
        return env.copy(), env.copy()

    def iter_bind(self, target, it, env):
        self.ev(it, env)
        for n in ast.walk(target):
            if isinstance(n, ast.Name):
                env.names[n.id] = V("other", UNK)
        return env

    def simple(self, st, env):
        if isinstance(st, ast.Assign):
            v = self.ev(st.value, env)
            for t in st.targets:
                if isinstance(t, ast.Name):
                    env.names[t.id] = v
                    if v.verdict is not None:
                        self.masks[t.id] = v
                elif isinstance(t, (ast.Tuple, ast.List)):
                    for e in t.elts:
                        if isinstance(e, ast.Name):
                            env.names[e.id] = V("other", v.lim if v.lim == B else UNK)
                else:
                    self.ev(t, env)
        elif isinstance(st, ast.AugAssign):
            cur = self.ev(st.target, env)
            v = self.ev(st.value, env)
            if isinstance(st.target, ast.Name):
                env.names[st.target.id] = self.binop(st.op, cur, v)
        elif isinstance(st, ast.Expr):
            self.ev(st.value, env)
        elif isinstance(st, ast.Return) and st.value is not None:
            self.ev(st.value, env)
        return env

    # ------------------------------------------------------------ expressions
    def binop(self, op, a, b):
        if isinstance(op, ast.Add):
            return add(a, b)
        if isinstance(op, ast.Sub):
            return add(a, b, sub=True)
        if isinstance(op, ast.Mult):
            return mul(a, b)
        if isinstance(op, ast.Div):
            return mul(a, b, div=True)
        if isinstance(op, ast.Pow) and b.lim == B:
            return V(a.kind, a.lim if a.lim in (B, PINF) else UNK, None)
        return V(kind_join(a, b), B if a.lim == B and b.lim == B else UNK)

    def ev(self, n, env):
        t = norm(n)
        if t in self.sources:
            return self.sources[t]
        m = getattr(self, "ev_" + type(n).__name__, None)
        if m is None:
            for ch in ast.iter_child_nodes(n):
                if isinstance(ch, ast.expr):
                    self.ev(ch, env)
            return V("other", UNK)
        return m(n, env)

    def ev_Constant(self, n, env):
        if isinstance(n.value, bool):
            return V("bool", B, None, const=n.value)
        if isinstance(n.value, (int, float)):
            return V("num", B, (n.value > 0) - (n.value < 0) or None)
        if n.value is None:
            return NONEV
        return V("other", B)

    def ev_Name(self, n, env):
        return env.names.get(n.id, V("other", B))

    def ev_UnaryOp(self, n, env):
        a = self.ev(n.operand, env)
        if isinstance(n.op, ast.USub):
            return V(a.kind, neg(a.lim), -a.sign if a.sign else None)
        if isinstance(n.op, ast.Not):
            r = self.fold(n, env)
            return V("bool", B, None, const=r)
        return a

    def ev_BinOp(self, n, env):
        return self.binop(n.op, self.ev(n.left, env), self.ev(n.right, env))

    def ev_BoolOp(self, n, env):
        r = self.fold(n, env)
        for v in n.values:
            self.ev(v, env)
        return V("bool", B, None, const=r)

    def ev_NamedExpr(self, n, env):
        v = self.ev(n.value, env)
        if isinstance(n.target, ast.Name):
            env.names[n.target.id] = v
        return v

    def ev_IfExp(self, n, env):
        r = self.fold(n.test, env)
        self.ev(n.test, env)
        if r is True:
            return self.ev(n.body, env)
        if r is False:
            return self.ev(n.orelse, env)
        a, b = self.ev(n.body, env), self.ev(n.orelse, env)
        return V(kind_join(a, b), a.lim if a.lim == b.lim else UNK, a.sign if a.sign == b.sign else None)

    def ev_Compare(self, n, env):
        r = self.fold(n, env)
        if r is not None:
            return V("bool", B, None, const=r)
        a = self.ev(n.left, env)
        if len(n.ops) != 1:
            for c in n.comparators:
                self.ev(c, env)
            return V("mask", B, None, verdict=UNK, text=norm(n), lineno=n.lineno)
        b = self.ev(n.comparators[0], env)
        if isinstance(n.ops[0], (ast.Lt, ast.LtE, ast.Gt, ast.GtE)):
            return V("mask", B, None, verdict=compare(n.ops[0], a, b), text=norm(n), lineno=n.lineno)
        return V("bool", B)

    def ev_Attribute(self, n, env):
        base = self.ev(n.value, env)
        a = n.attr
        if a in ("values", "magnitude", "_array"):
            if base.kind == "mask":
                return base
            return V("arr" if base.kind in ("vec", "arr") else "num" if base.kind in ("qty", "num") else base.kind, base.lim, base.sign)
        if a in ("x", "y", "z") and base.kind == "vec":
            return V("arr", base.lim, None)
        if a == "norm":
            return absval(base, "arr")
        if a in ("n", "u", "v") and base.kind == "basis":
            return V("vec", B, None)
        if a in ("units", "unit"):
            return V("unit", B, 1)
        if a == "nvec":
            return V("num", B, 1)
        if a in ("shape", "name", "label", "dtype"):
            return V("other", B)
        if base.kind == "mask":
            return base
        return V("other", base.lim if base.lim == B else UNK)

    def ev_Subscript(self, n, env):
        base = self.ev(n.value, env)
        if isinstance(n.slice, ast.Name):
            self.index_uses.add(n.slice.id)
        if not isinstance(n.slice, ast.Slice):
            self.ev(n.slice, env)
        return V(base.kind, base.lim, base.sign, base.verdict, base.text, base.lineno)

    def ev_Tuple(self, n, env):
        for e in n.elts:
            self.ev(e, env)
        return V("other", B)

    ev_List = ev_Tuple

    def ev_Dict(self, n, env):
        for v in n.values:
            if v is not None:
                self.ev(v, env)
        return V("other", B)

    def ev_Call(self, n, env):
        f = n.func
        args = [self.ev(a.value if isinstance(a, ast.Starred) else a, env) for a in n.args]
        kws = {k.arg: self.ev(k.value, env) for k in n.keywords}
        allv = args + list(kws.values())
        d = self.tree.dotted(self.fi.module, f) if isinstance(f, (ast.Name, ast.Attribute)) else None
        callee = self.tree.resolve_call(self.fi, n)
        if d in ("numpy.sqrt", "math.sqrt") and args:
            return V(args[0].kind if args[0].kind != "other" else "num", args[0].lim if args[0].lim in (B, PINF) else UNK,
                     1 if args[0].lim == B else None)
        if d in ("numpy.abs", "numpy.absolute", "numpy.fabs") or (isinstance(f, ast.Name) and f.id == "abs"):
            return absval(args[0]) if args else V("other", UNK)
        if d in ("numpy.maximum", "numpy.fmax") or (isinstance(f, ast.Name) and f.id == "max"):
            if any(a.lim == PINF for a in allv) and not any(a.lim == UNK for a in allv):
                return V("num", PINF)
            lim = B if all(a.lim == B for a in allv) else UNK
            return V("num", lim, 1 if lim == B and any(a.sign == 1 for a in allv) and all(a.sign in (1, None) for a in allv)
                     and all(a.sign == 1 for a in allv) else None)
        if d in ("numpy.minimum", "numpy.fmin") or (isinstance(f, ast.Name) and f.id == "min"):
            if all(a.lim == PINF for a in allv):
                return V("num", PINF)
            if any(a.lim == B for a in allv) and all(a.lim in (B, PINF) for a in allv):
                return V("num", B, 1 if all(a.sign == 1 for a in allv if a.lim == B) else None)
            return V("num", UNK)
        if d in ("numpy.arange", "numpy.zeros", "numpy.ones", "numpy.linspace") or (isinstance(f, ast.Name) and f.id in ("len", "range", "int", "round")):
            return V("arr" if d else "num", B, None)
        if isinstance(callee, ClassInfo):
            if callee.name == "Vector":
                lim = B if all(a.lim == B for a in allv) else UNK
                return V("vec", lim)
            if callee.name == "VectorBasis":
                return V("basis", B)
            if callee.name == "Array":
                v = kws.get("values", args[0] if args else V("num", B))
                return V("arr", v.lim, v.sign)
            return V("other", B)
        if isinstance(callee, FuncInfo):
            if callee.qual == "plot/direction.py::get_direction":
                return V("basis", B)
            self.unknown_calls.add(callee.qual)
            return V("other", B if all(a.lim == B for a in allv) else UNK)
        if isinstance(f, ast.Attribute):
            recv = self.ev(f.value, env)
            m = f.attr
            if m == "dot":
                lim = B if recv.lim == B and all(a.lim == B for a in allv) else UNK
                return V("arr", lim)
            if m == "to":
                return V(recv.kind, recv.lim, recv.sign if recv.sign else (1 if recv.kind == "qty" else None), const=recv.const)
            if m in ("min", "max", "sum", "mean"):
                return V("arr", recv.lim)
            if m in ("copy", "reshape", "astype"):
                return recv
            if recv.kind in ("other", "unit"):
                return V("other", B if all(a.lim == B for a in allv) else UNK)
            return V(recv.kind, recv.lim if all(a.lim == B for a in allv) else UNK)
        return V("other", B if all(a.lim == B for a in allv) else UNK)

    def ev_ListComp(self, n, env):
        return V("other", B)

    ev_GeneratorExp = ev_DictComp = ev_SetComp = ev_ListComp

    def ev_JoinedStr(self, n, env):
        return V("other", B)

    def ev_Lambda(self, n, env):
        return V("other", B)
