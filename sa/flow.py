"""Structured control-flow walk: ONE forward abstract interpreter skeleton, parameterised by a state.

A state object must provide  copy() -> state  and  join(other) -> state  (least upper bound).
Subclasses override the hooks:
    simple(stmt, state)            transfer of a simple statement (Assign, AugAssign, Expr, Delete, ...)
    test(expr, state) -> (t, f)    states for the true / false outcome of a condition (None = infeasible)
    iter_bind(target, iter, state) binding of a for-loop target
    exit(kind, node, state)        called at every Return / Raise / fall-off-the-end ('return','raise','end')
Path sensitivity comes from `test`: a rule that specialises a mode (e.g. dz is None) returns None for
the branch that is infeasible under its assumption.
"""
from __future__ import annotations

import ast

from .source import AnalysisError


class SetState:
    """Must-facts: a set of established facts; join = intersection."""

    def __init__(self, facts=()):
        self.facts = set(facts)

    def copy(self):
        return SetState(self.facts)

    def join(self, other):
        return SetState(self.facts & other.facts)

    def __contains__(self, x):
        return x in self.facts

    def add(self, x):
        self.facts.add(x)

    def discard(self, x):
        self.facts.discard(x)

    def __repr__(self):
        return "SetState(%s)" % sorted(self.facts)


class MayState(SetState):
    """May-facts: join = union."""

    def copy(self):
        return MayState(self.facts)

    def join(self, other):
        return MayState(self.facts | other.facts)


def join_all(states):
    states = [s for s in states if s is not None]
    if not states:
        return None
    out = states[0].copy()
    for s in states[1:]:
        out = out.join(s)
    return out


class FlowWalker:
    MAX_LOOP_ITER = 4

    def __init__(self):
        self.loop_stack = []

    # ---- hooks -------------------------------------------------------------
    def simple(self, stmt, state):
        return state

    def test(self, expr, state):
        return state.copy(), state.copy()

    def iter_bind(self, target, it, state):
        return state

    def exit(self, kind, node, state):
        pass

    def with_enter(self, item, state):
        return state

    def handler_bind(self, handler, state):
        return state

    # ---- driver ------------------------------------------------------------
    def run(self, fnode, state):
        out = self.block(fnode.body, state)
        if out is not None:
            self.exit("end", fnode, out)
        return out

    def block(self, stmts, state):
        for st in stmts:
            if state is None:
                return None
            state = self.stmt(st, state)
        return state

    def stmt(self, st, state):
        if isinstance(st, ast.If):
            t, f = self.test(st.test, state)
            outs = []
            if t is not None:
                outs.append(self.block(st.body, t))
            if f is not None:
                outs.append(self.block(st.orelse, f) if st.orelse else f)
            return join_all(outs)
        if isinstance(st, (ast.For, ast.AsyncFor, ast.While)):
            return self.loop(st, state)
        if isinstance(st, ast.Try):
            return self.try_(st, state)
        if isinstance(st, (ast.With, ast.AsyncWith)):
            for item in st.items:
                state = self.with_enter(item, state)
            return self.block(st.body, state)
        if isinstance(st, ast.Return):
            state = self.simple(st, state)
            if state is not None:
                self.exit("return", st, state)
            return None
        if isinstance(st, ast.Raise):
            state = self.simple(st, state)
            if state is not None:
                self.exit("raise", st, state)
            return None
        if isinstance(st, ast.Break):
            if self.loop_stack:
                self.loop_stack[-1]["break"].append(state)
            return None
        if isinstance(st, ast.Continue):
            if self.loop_stack:
                self.loop_stack[-1]["continue"].append(state)
            return None
        if isinstance(st, (ast.FunctionDef, ast.AsyncFunctionDef, ast.ClassDef)):
            return self.simple(st, state)
        if isinstance(st, ast.Match):
            raise AnalysisError("match statement not supported (line %d)" % st.lineno)
        return self.simple(st, state)

    def loop(self, st, state):
        ctx = {"break": [], "continue": []}
        self.loop_stack.append(ctx)
        head = state
        exits = []
        try:
            for _ in range(self.MAX_LOOP_ITER):
                if isinstance(st, ast.While):
                    t, f = self.test(st.test, head)
                    body_in = t
                    zero = f
                else:
                    body_in = self.iter_bind(st.target, st.iter, head.copy())
                    zero = head.copy()
                exits.append(zero)
                if body_in is None:
                    break
                ctx["continue"] = []
                out = self.block(st.body, body_in)
                back = join_all([out] + ctx["continue"])
                if back is None:
                    break
                new_head = head.join(back)
                if self.same(new_head, head):
                    head = new_head
                    break
                head = new_head
            else:
                pass
            # final exit state = join(zero-iteration state, state at head after iterations)
            if isinstance(st, ast.While):
                _, f = self.test(st.test, head)
                exits.append(f)
            else:
                exits.append(head)
        finally:
            self.loop_stack.pop()
        normal = join_all(exits)
        if st.orelse and normal is not None:
            normal = self.block(st.orelse, normal)
        return join_all([normal] + ctx["break"])

    def same(self, a, b):
        try:
            return a == b or repr(a) == repr(b)
        except Exception:
            return False

    def try_(self, st, state):
        # states at every statement boundary of the body may reach a handler
        boundary = [state.copy()]
        cur = state
        for s in st.body:
            if cur is None:
                break
            cur = self.stmt(s, cur)
            if cur is not None:
                boundary.append(cur.copy())
        outs = []
        if cur is not None:
            outs.append(self.block(st.orelse, cur) if st.orelse else cur)
        hstate = join_all(boundary)
        for h in st.handlers:
            hs = self.handler_bind(h, hstate.copy())
            outs.append(self.block(h.body, hs))
        out = join_all(outs)
        if st.finalbody:
            if out is not None:
                out = self.block(st.finalbody, out)
        return out


# -------------------------------------------------------------------------- helpers on statements
def assigned_names(target):
    """Names bound by an assignment target (Name / Tuple / List / Starred)."""
    if isinstance(target, ast.Name):
        return [target.id]
    if isinstance(target, (ast.Tuple, ast.List)):
        out = []
        for e in target.elts:
            out.extend(assigned_names(e))
        return out
    if isinstance(target, ast.Starred):
        return assigned_names(target.value)
    return []


def stmt_targets(st):
    if isinstance(st, ast.Assign):
        return list(st.targets)
    if isinstance(st, (ast.AugAssign, ast.AnnAssign)):
        return [st.target]
    return []


def iter_stmts(body):
    """All statements in a body, recursively (not entering nested defs)."""
    for st in body:
        yield st
        for field in ("body", "orelse", "finalbody"):
            sub = getattr(st, field, None)
            if isinstance(sub, list) and sub and isinstance(sub[0], ast.stmt):
                if isinstance(st, (ast.FunctionDef, ast.AsyncFunctionDef, ast.ClassDef)):
                    continue
                yield from iter_stmts(sub)
        if isinstance(st, ast.Try):
            for h in st.handlers:
                yield from iter_stmts(h.body)


def guards_of(fnode, target_stmt):
    """The chain of (test expr, polarity) conditions under which target_stmt executes (If/While nesting)."""
    result = []

    def rec(body, chain):
        for st in body:
            if st is target_stmt:
                result.append(list(chain))
                return True
            if isinstance(st, ast.If):
                if rec(st.body, chain + [(st.test, True)]):
                    return True
                if rec(st.orelse, chain + [(st.test, False)]):
                    return True
            elif isinstance(st, (ast.For, ast.While, ast.With, ast.AsyncFor, ast.AsyncWith)):
                extra = [(st.test, True)] if isinstance(st, ast.While) else []
                if rec(st.body, chain + extra):
                    return True
                if getattr(st, "orelse", None) and rec(st.orelse, chain):
                    return True
            elif isinstance(st, ast.Try):
                if rec(st.body, chain) or rec(st.orelse, chain) or rec(st.finalbody, chain):
                    return True
                for h in st.handlers:
                    if rec(h.body, chain):
                        return True
        return False

    rec(fnode.body, [])
    return result[0] if result else None


# -------------------------------------------------------------------------- explicit path enumeration
class PathLimit(AnalysisError):
    pass


def enumerate_paths(body, max_paths=4096, loop_unroll=(0, 1), exc_paths=True):
    """All control-flow paths through a structured statement list (small functions only).

    A path is a list of items:
        ('stmt', node)                simple statement executed
        ('test', expr, bool)          branch condition with its outcome
        ('iter', for_node, k)         entering iteration k (0-based) of a for loop / ('iter-end', for_node, n)
        ('raise-in', try_node, stmt)  an exception raised by `stmt` inside try_node's body (handler follows)
        ('handler', handler_node)
    and ends with ('exit', kind, node) where kind in {'return','raise','end'}.
    Loops are unrolled for the iteration counts in loop_unroll.
    """
    results = []

    def emit(path):
        if len(results) >= max_paths:
            raise PathLimit("more than %d paths" % max_paths)
        results.append(path)

    # continuation-passing enumeration
    def run_block(stmts, i, path, k):
        if i == len(stmts):
            return k(path)
        st = stmts[i]

        def nxt(p):
            return run_block(stmts, i + 1, p, k)

        return run_stmt(st, path, nxt, k_loop=None)

    loop_ctx = []

    def run_stmt(st, path, nxt, k_loop):
        if isinstance(st, ast.If):
            run_block(st.body, 0, path + [("test", st.test, True)], nxt)
            run_block(st.orelse, 0, path + [("test", st.test, False)], nxt)
            return
        if isinstance(st, (ast.For, ast.AsyncFor)):
            for n in loop_unroll:
                def iterate(p, j, n=n):
                    if j == n:
                        p2 = p + [("iter-end", st, n)]
                        if st.orelse:
                            return run_block(st.orelse, 0, p2, nxt)
                        return nxt(p2)
                    loop_ctx.append({"break": lambda pp: nxt(pp + [("break", st)]),
                                     "continue": lambda pp, j=j: iterate(pp, j + 1)})
                    try:
                        run_block(st.body, 0, p + [("iter", st, j)], lambda pp, j=j: iterate(pp, j + 1))
                    finally:
                        loop_ctx.pop()
                iterate(path, 0)
            return
        if isinstance(st, ast.While):
            for n in loop_unroll:
                def iterate(p, j, n=n):
                    if j == n:
                        return nxt(p + [("test", st.test, False)])
                    loop_ctx.append({"break": lambda pp: nxt(pp + [("break", st)]),
                                     "continue": lambda pp, j=j: iterate(pp, j + 1)})
                    try:
                        run_block(st.body, 0, p + [("test", st.test, True)], lambda pp, j=j: iterate(pp, j + 1))
                    finally:
                        loop_ctx.pop()
                iterate(path, 0)
            return
        if isinstance(st, ast.Try):
            def after(p):
                if st.finalbody:
                    return run_block(st.finalbody, 0, p, nxt)
                return nxt(p)

            def after_body(p):
                if st.orelse:
                    return run_block(st.orelse, 0, p, after)
                return after(p)

            run_block(st.body, 0, path, after_body)
            if exc_paths:
                # exception raised by the j-th top-level statement of the body
                for j, s in enumerate(st.body):
                    for h in st.handlers:
                        def to_handler(p, s=s, h=h):
                            return run_block(h.body, 0, p + [("raise-in", st, s), ("handler", h)], after)
                        run_block(st.body[:j], 0, path, to_handler)
            return
        if isinstance(st, (ast.With, ast.AsyncWith)):
            run_block(st.body, 0, path + [("stmt", st)], nxt)
            return
        if isinstance(st, ast.Return):
            emit(path + [("stmt", st), ("exit", "return", st)])
            return
        if isinstance(st, ast.Raise):
            emit(path + [("stmt", st), ("exit", "raise", st)])
            return
        if isinstance(st, ast.Break):
            if loop_ctx:
                return loop_ctx[-1]["break"](path)
            return
        if isinstance(st, ast.Continue):
            if loop_ctx:
                return loop_ctx[-1]["continue"](path)
            return
        return nxt(path + [("stmt", st)])

    run_block(body, 0, [], lambda p: emit(p + [("exit", "end", None)]))
    return results


def path_stmts(path):
    return [it[1] for it in path if it[0] == "stmt"]
