"""SourceTree: parse src/osyris/**, index modules / classes / functions, resolve names and callees."""
from __future__ import annotations

import ast
import hashlib
import os


class AnalysisError(Exception):
    """The code has a shape the analysis does not understand (fail closed, exit 2)."""


class AnchorMissing(AnalysisError):
    pass


PKG = "osyris"


class FuncInfo:
    def __init__(self, module, cls, node):
        self.module = module  # ModuleInfo
        self.cls = cls  # ClassInfo or None
        self.node = node
        self.name = node.name
        self.qual = module.rel + "::" + ((cls.name + ".") if cls else "") + node.name

    @property
    def lineno(self):
        return self.node.lineno

    def where(self, node=None):
        n = node if node is not None else self.node
        return "src/osyris/%s:%d" % (self.module.rel, getattr(n, "lineno", self.node.lineno))

    def __repr__(self):
        return "<Func %s>" % self.qual


class ClassInfo:
    def __init__(self, module, node):
        self.module = module
        self.node = node
        self.name = node.name
        self.qual = module.rel + "::" + node.name
        self.methods = {}
        self.base_exprs = list(node.bases)
        self.bases = []  # resolved ClassInfo (filled by SourceTree)

    def __repr__(self):
        return "<Class %s>" % self.qual


class ModuleInfo:
    def __init__(self, rel, modname, src, is_pkg):
        self.rel = rel
        self.modname = modname
        self.src = src
        self.is_pkg = is_pkg
        self.tree = ast.parse(src, filename=rel)
        try:
            from .normalize import desugar_match
            desugar_match(self.tree)          # `match` statements become the if-chains they abbreviate (all analyses see plain ifs)
        except ImportError:
            pass
        self.functions = {}
        self.classes = {}
        self.assigns = {}  # top-level simple Name assignments -> value node
        self.imports = {}  # local name -> ("module", modname) | ("from", modname, name) | ("ext", dotted)

    @property
    def package(self):
        return self.modname if self.is_pkg else self.modname.rsplit(".", 1)[0]


class SourceTree:
    def __init__(self, repo="/repo", overlay=None):
        self.repo = repo
        self.root = os.path.join(repo, "src", "osyris")
        self.overlay = dict(overlay or {})
        self.modules = {}  # rel -> ModuleInfo
        self.by_modname = {}
        self.consulted = set()
        if not os.path.isdir(self.root):
            raise AnchorMissing("package directory %s does not exist" % self.root)
        for dirpath, dirnames, filenames in os.walk(self.root):
            dirnames[:] = sorted(d for d in dirnames if d != "__pycache__")
            for fn in sorted(filenames):
                if not fn.endswith(".py"):
                    continue
                full = os.path.join(dirpath, fn)
                rel = os.path.relpath(full, self.root).replace(os.sep, "/")
                if rel in self.overlay:
                    src = self.overlay[rel]
                else:
                    with open(full, encoding="utf-8") as f:
                        src = f.read()
                parts = rel[:-3].split("/")
                is_pkg = parts[-1] == "__init__"
                if is_pkg:
                    parts = parts[:-1]
                modname = ".".join([PKG] + parts)
                try:
                    mi = ModuleInfo(rel, modname, src, is_pkg)
                except SyntaxError as e:
                    raise AnalysisError("cannot parse src/osyris/%s: %s" % (rel, e))
                self.modules[rel] = mi
                self.by_modname[modname] = mi
        for rel in self.overlay:
            if rel not in self.modules:
                raise AnalysisError("overlay for unknown module %s" % rel)
        for mi in self.modules.values():
            self._index(mi)
        for mi in self.modules.values():
            for ci in mi.classes.values():
                for b in ci.base_exprs:
                    r = self.resolve_expr(mi, b)
                    if isinstance(r, ClassInfo):
                        ci.bases.append(r)

    # ------------------------------------------------------------------ indexing
    def _index(self, mi):
        for node in mi.tree.body:
            if isinstance(node, (ast.FunctionDef, ast.AsyncFunctionDef)):
                mi.functions[node.name] = FuncInfo(mi, None, node)
            elif isinstance(node, ast.ClassDef):
                ci = ClassInfo(mi, node)
                mi.classes[node.name] = ci
                for sub in node.body:
                    if isinstance(sub, (ast.FunctionDef, ast.AsyncFunctionDef)):
                        fi = FuncInfo(mi, ci, sub)
                        # property setters share the name with the getter: keep the getter under the
                        # plain name and the setter under "name.setter"
                        key = sub.name
                        for d in sub.decorator_list:
                            if isinstance(d, ast.Attribute) and d.attr == "setter":
                                key = sub.name + ".setter"
                        ci.methods[key] = fi
                # methods installed by assignment in the class body: `__lt__ = _make_operator("less")` (a factory returning a closure) or
                # `__radd__ = __add__` (an alias).  They get a synthetic FunctionDef that forwards to the assigned value, so that every
                # consumer of ClassInfo.methods sees them like written-out methods.
                for sub in node.body:
                    if isinstance(sub, ast.Assign) and len(sub.targets) == 1 and isinstance(sub.targets[0], ast.Name) and sub.targets[0].id not in ci.methods:
                        nm, val = sub.targets[0].id, sub.value
                        body = None
                        if isinstance(val, ast.Name) and val.id in ci.methods:
                            body = "return self.%s(*args, **kwargs)" % val.id
                        elif isinstance(val, ast.Call) and isinstance(val.func, ast.Name):
                            factory = next((f for f in mi.tree.body if isinstance(f, ast.FunctionDef) and f.name == val.func.id), None)
                            if factory is not None and any(isinstance(x, (ast.FunctionDef, ast.Lambda)) for st in factory.body for x in ast.walk(st)):
                                body = "return __class_assigned__(self, %r, *args, **kwargs)" % nm
                        if body is not None:
                            fn = ast.parse("def %s(self, *args, **kwargs):\n    %s\n" % (nm, body)).body[0]
                            for x in ast.walk(fn):
                                if hasattr(x, "lineno"):
                                    x.lineno = sub.lineno
                                    x.end_lineno = getattr(sub, "end_lineno", sub.lineno)
                            fi = FuncInfo(mi, ci, fn)
                            fi.synthetic = True
                            ci.methods[nm] = fi
            elif isinstance(node, ast.Assign):
                for t in node.targets:
                    if isinstance(t, ast.Name):
                        mi.assigns[t.id] = node.value
            elif isinstance(node, (ast.Import, ast.ImportFrom)):
                self._index_import(mi, node)
            elif isinstance(node, (ast.Try, ast.If)):
                for sub in ast.walk(node):
                    if isinstance(sub, (ast.Import, ast.ImportFrom)):
                        self._index_import(mi, sub)

    def _index_import(self, mi, node):
        if isinstance(node, ast.Import):
            for a in node.names:
                local = a.asname or a.name.split(".")[0]
                mi.imports[local] = ("ext", a.name if a.asname else a.name.split(".")[0])
            return
        if node.level == 0:
            for a in node.names:
                mi.imports[a.asname or a.name] = ("ext", node.module + "." + a.name)
            return
        base = mi.package.split(".")
        if node.level > 1:
            base = base[: len(base) - (node.level - 1)]
        target = ".".join(base + (node.module.split(".") if node.module else []))
        for a in node.names:
            mi.imports[a.asname or a.name] = ("from", target, a.name)

    # ------------------------------------------------------------------ lookup
    def module(self, rel):
        if rel not in self.modules:
            raise AnchorMissing("module src/osyris/%s not found" % rel)
        self.consulted.add(rel)
        return self.modules[rel]

    def func(self, qual):
        """qual = 'io/amr.py::AmrReader.read_header' or 'plot/map.py::map'."""
        rel, _, name = qual.partition("::")
        mi = self.module(rel)
        if "." in name:
            cname, mname = name.split(".", 1)
            ci = mi.classes.get(cname)
            if ci is None:
                raise AnchorMissing("class %s not found in src/osyris/%s" % (cname, rel))
            fi = ci.methods.get(mname)
            if fi is None:
                raise AnchorMissing("method %s not found in src/osyris/%s" % (name, rel))
            return fi
        fi = mi.functions.get(name)
        if fi is None:
            raise AnchorMissing("function %s not found in src/osyris/%s" % (name, rel))
        return fi

    def has_func(self, qual):
        try:
            self.func(qual)
            return True
        except AnchorMissing:
            return False

    def cls(self, qual):
        rel, _, name = qual.partition("::")
        mi = self.module(rel)
        ci = mi.classes.get(name)
        if ci is None:
            raise AnchorMissing("class %s not found in src/osyris/%s" % (name, rel))
        return ci

    def all_functions(self):
        for mi in self.modules.values():
            for fi in mi.functions.values():
                yield fi
            for ci in mi.classes.values():
                for fi in ci.methods.values():
                    yield fi

    def all_classes(self):
        for mi in self.modules.values():
            for ci in mi.classes.values():
                yield ci

    def mro(self, ci):
        out, seen, todo = [], set(), [ci]
        while todo:
            c = todo.pop(0)
            if c.qual in seen:
                continue
            seen.add(c.qual)
            out.append(c)
            todo.extend(c.bases)
        return out

    def method(self, ci, name, after=None):
        """Resolve a method through the MRO (after=ClassInfo: start after that class, for super())."""
        chain = self.mro(ci)
        if after is not None:
            quals = [c.qual for c in chain]
            chain = chain[quals.index(after.qual) + 1 :]
        for c in chain:
            if name in c.methods:
                self.consulted.add(c.module.rel)
                return c.methods[name]
        return None

    def subclasses(self, ci):
        return [c for c in self.all_classes() if c.qual != ci.qual and ci.qual in [b.qual for b in self.mro(c)]]

    # ------------------------------------------------------------------ name resolution
    def resolve_name(self, mi, name, _depth=0):
        """Resolve a top-level name of module mi to FuncInfo / ClassInfo / ModuleInfo / ('ext', dotted) /
        ('value', ModuleInfo, ast node) / None."""
        if _depth > 8:
            return None
        if name in mi.functions:
            return mi.functions[name]
        if name in mi.classes:
            return mi.classes[name]
        if name in mi.imports:
            imp = mi.imports[name]
            if imp[0] == "ext":
                return imp
            _, target, attr = imp
            tm = self.by_modname.get(target)
            if tm is not None:
                r = self.resolve_name(tm, attr, _depth + 1)
                if r is not None:
                    return r
            sub = self.by_modname.get(target + "." + attr)
            if sub is not None:
                return sub
            return None
        if name in mi.assigns:
            return ("value", mi, mi.assigns[name])
        if mi.is_pkg:
            sub = self.by_modname.get(mi.modname + "." + name)
            if sub is not None:
                return sub
        return None

    def resolve_expr(self, mi, node):
        """Resolve Name / dotted Attribute expressions at module scope."""
        if isinstance(node, ast.Name):
            return self.resolve_name(mi, node.id)
        if isinstance(node, ast.Attribute):
            base = self.resolve_expr(mi, node.value)
            if isinstance(base, ModuleInfo):
                return self.resolve_name(base, node.attr)
            if isinstance(base, tuple) and base[0] == "ext":
                return ("ext", base[1] + "." + node.attr)
            if isinstance(base, ClassInfo):
                return self.method(base, node.attr)
        return None

    def dotted(self, mi, node):
        """External dotted name of an expression ('numpy.sqrt') or None."""
        r = self.resolve_expr(mi, node)
        if isinstance(r, tuple) and r[0] == "ext":
            return r[1]
        return None

    def resolve_call(self, fi, call):
        """Resolve the callee of `call` occurring in function fi.
        Returns FuncInfo | ClassInfo | ('ext', dotted) | None."""
        f = call.func
        mi = fi.module
        if isinstance(f, ast.Name):
            return self.resolve_name(mi, f.id)
        if isinstance(f, ast.Attribute):
            v = f.value
            if isinstance(v, ast.Name) and v.id == "self" and fi.cls is not None:
                return self.method(fi.cls, f.attr)
            if (
                isinstance(v, ast.Call)
                and isinstance(v.func, ast.Name)
                and v.func.id == "super"
                and fi.cls is not None
            ):
                return self.method(fi.cls, f.attr, after=fi.cls)
            return self.resolve_expr(mi, f)
        return None

    # ------------------------------------------------------------------ misc
    def digest(self, rels=None):
        h = hashlib.sha256()
        for rel in sorted(rels if rels is not None else self.modules):
            h.update(rel.encode())
            h.update(self.modules[rel].src.encode())
        return h.hexdigest()[:16]

    def decorators(self, fi):
        """[(dotted name or None, keywords dict)] for each decorator."""
        out = []
        for d in fi.node.decorator_list:
            if isinstance(d, ast.Call):
                name = self.dotted(fi.module, d.func)
                kws = {k.arg: k.value for k in d.keywords}
            else:
                name = self.dotted(fi.module, d)
                kws = {}
            out.append((name, kws))
        return out


def norm(node):
    """Normalised source text of a node (insensitive to formatting)."""
    return ast.unparse(node)


def const_value(node, default=None):
    if isinstance(node, ast.Constant):
        return node.value
    if isinstance(node, ast.UnaryOp) and isinstance(node.op, ast.USub) and isinstance(node.operand, ast.Constant):
        return -node.operand.value
    return default


def walk_no_nested(node):
    """ast.walk that does not descend into nested function/class definitions or lambdas."""
    todo = list(ast.iter_child_nodes(node))
    while todo:
        n = todo.pop()
        yield n
        if isinstance(n, (ast.FunctionDef, ast.AsyncFunctionDef, ast.ClassDef, ast.Lambda)):
            continue
        todo.extend(ast.iter_child_nodes(n))
