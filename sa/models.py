"""ModelEval — folding the repository's own functions and classes over checker-side model values (D7).

A small interpreter for the Python subset osyris uses.  Package functions and methods are interpreted from their
syntax trees (so helper extraction, renamed locals, restructured control flow are followed by construction);
instances of package classes are `PyObj` attribute bags whose methods/properties are interpreted; leaf types
(Array, pint Unit/Quantity, ndarray, files, ...) are native `Model` objects supplied by the rule, which define what
the abstraction observes.  Nothing of osyris, numpy or pint is imported or executed.

Anything outside the subset raises Unsupported (=> the obligation is *unresolved*, never a pass);
an exception raised by the interpreted code is RaisedInModel / ProgramRaised (=> the rule decides).
"""
from __future__ import annotations

import ast
import re as _re
import collections as _collections
import builtins as _builtins

from .peval import Evaluator, Model, Unsupported, RaisedInModel, ProgramRaised, ReturnValue, _Continue, _Break
from .source import ClassInfo, FuncInfo, ModuleInfo, norm, const_value

BUILTIN_FUNCS = {"frozenset", "len", "zip", "enumerate", "dict", "list", "tuple", "range", "all", "any", "min", "max", "abs", "int", "slice", "divmod", "pow",
                 "float", "str", "bool", "sorted", "set", "sum", "round", "reversed", "repr", "iter", "next", "id", "map", "filter"}
BUILTIN_TYPES = {"int": int, "float": float, "str": str, "bool": bool, "dict": dict, "list": list, "tuple": tuple,
                 "set": set, "object": object, "complex": complex, "bytes": bytes, "type": type, "slice": slice}
EXC_PARENTS = {"KeyError": "LookupError", "IndexError": "LookupError", "LookupError": "Exception", "ValueError": "Exception",
               "TypeError": "Exception", "RuntimeError": "Exception", "NotImplementedError": "RuntimeError",
               "AttributeError": "Exception", "IOError": "OSError", "FileNotFoundError": "OSError", "OSError": "Exception",
               "ZeroDivisionError": "ArithmeticError", "ArithmeticError": "Exception", "DimensionalityError": "Exception",
               "NameError": "Exception", "StopIteration": "Exception", "Exception": "BaseException"}


OPERATOR_BIN = {"operator.and_": ast.BitAnd, "operator.or_": ast.BitOr, "operator.xor": ast.BitXor, "operator.add": ast.Add, "operator.sub": ast.Sub,
                "operator.mul": ast.Mult, "operator.truediv": ast.Div, "operator.pow": ast.Pow,
                "operator.iand": ast.BitAnd, "operator.ior": ast.BitOr, "operator.iadd": ast.Add, "operator.imul": ast.Mult}
OPERATOR_CMP = {"operator.lt": ast.Lt, "operator.le": ast.LtE, "operator.gt": ast.Gt, "operator.ge": ast.GtE, "operator.eq": ast.Eq, "operator.ne": ast.NotEq}


def _is_generator(fnode):
    cached = getattr(fnode, "_sa_is_generator", None)
    if cached is not None:
        return cached
    todo = list(fnode.body)
    res = False
    while todo:
        n = todo.pop()
        if isinstance(n, (ast.Yield, ast.YieldFrom)):
            res = True
            break
        if isinstance(n, (ast.FunctionDef, ast.AsyncFunctionDef, ast.Lambda, ast.ClassDef)):
            continue
        todo.extend(ast.iter_child_nodes(n))
    fnode._sa_is_generator = res
    return res


class Raised(RaisedInModel):
    """An exception raised by the interpreted code: class name + node."""

    def __init__(self, name, node=None, msg=""):
        Exception.__init__(self, "%s: %s" % (name, msg))
        self.name, self.node, self.msg = name, node, msg


NDARRAY_ATTRS = frozenset("dtype astype shape ndim size T copy flatten ravel reshape tolist item nbytes itemsize flags strides real imag min max sum mean std var any all "
                          "argmin argmax argsort sort cumsum cumprod prod clip round squeeze transpose swapaxes take repeat fill view tobytes nonzero dot conj conjugate base data".split())


class NeedAssumption(BaseException):
    """a branch tests a value the abstraction does not decide (a python scalar taken out of a symbolic array, ndarray.all() of a
    symbolic mask): the scenario is re-run under both answers by explore()"""

    def __init__(self, key):
        BaseException.__init__(self, "undecided test %r" % (key,))
        self.key = key


_ASSUME = []          # the assumptions of the running exploration(s): {"decided": {key: bool}, "counts": {what: times asked}}


def explore(run, limit=10):
    """run() executes one fold scenario from scratch.  Every test the abstraction cannot decide is resolved both ways: returns
    [(assumptions, result)] for every consistent resolution (depth-first, at most 2**limit runs).  Tests are identified by what is tested
    and by how many times that was tested before on the path, so a re-run meets them in the same order."""
    pending, out = [{}], []
    while pending:
        dec = pending.pop()
        _ASSUME.append({"decided": dec, "counts": {}})
        try:
            out.append((dict(dec), run()))
        except NeedAssumption as n:
            if len(dec) >= limit:
                raise Unsupported("more than %d undecided tests on one path (last: %r)" % (limit, n.key))
            pending.append(dict(dec, **{n.key: False}))
            pending.append(dict(dec, **{n.key: True}))
        finally:
            _ASSUME.pop()
    return out


def decide(what, message, per_occurrence=True):
    """module-level form of ModelEval._decide, for evaluators that are not ModelEval (the kernel folds).  per_occurrence=False: one
    answer for every occurrence of the test on the path (the same test applied to each element of a loop)"""
    a = _ASSUME[-1] if _ASSUME else None
    if a is None:
        raise Unsupported(message)
    n = a["counts"].get(what, 0) if per_occurrence else 0
    a["counts"][what] = n + 1
    key = "%s #%d" % (what, n) if per_occurrence else what
    if key in a["decided"]:
        return a["decided"][key]
    raise NeedAssumption(key)


class Undecided(Model):
    """a python bool the abstraction does not know (np.isnan of a symbolic value): every branch on it is explored both ways"""

    def __init__(self, what, per_occurrence=True):
        self.what, self.per_occurrence = what, per_occurrence

    def truth(self):
        return decide("test %s" % (self.what,), "the test %s is not decided by the abstraction" % (self.what,), self.per_occurrence)

    def any(self, *a, **k):
        return self

    def all(self, *a, **k):
        return self

    def __repr__(self):
        return "Undecided(%s)" % (self.what,)


class WeakRef(Model):
    """weakref.ref(obj): calling it gives the object (the fold keeps every object alive); copy and deepcopy treat it as ATOMIC, as the
    copy module does: a deep copy of the holder still refers to the ORIGINAL referent"""
    kinds = ("ReferenceType", "ref")

    def __init__(self, referent):
        self.referent = referent

    def __call__(self):
        return self.referent

    def __eq__(self, o):
        return isinstance(o, WeakRef) and o.referent is self.referent

    def __hash__(self):
        return id(self.referent)


class _GenCM:
    """the context manager made by @contextlib.contextmanager from a generator function with ONE yield at the top level of its body or
    of a try statement at the top level: __enter__ runs the statements before the yield, __exit__ the ones after it (the handlers /
    finally clause of the enclosing try when the with-body raised)"""

    def __init__(self, ev, callee, args, kwargs, node):
        self.ev, self.callee, self.args, self.kwargs, self.node = ev, callee, args, kwargs, node
        body = list(callee.node.body)
        self.pre, self.try_node, self.try_pre, self.post_in_try, self.post = [], None, [], [], []
        idx = None

        def is_yield(st):
            return isinstance(st, ast.Expr) and isinstance(st.value, ast.Yield)
        for i, st in enumerate(body):
            if is_yield(st):
                idx, self.yield_value = i, st.value.value
                break
            if isinstance(st, ast.Try) and any(is_yield(x) for x in st.body):
                j = next(k for k, x in enumerate(st.body) if is_yield(x))
                idx, self.try_node, self.try_pre, self.post_in_try, self.yield_value = i, st, st.body[:j], st.body[j + 1:], st.body[j].value.value
                break
        if idx is None or any(isinstance(x, (ast.Yield, ast.YieldFrom)) for st in body[idx + 1:] + self.post_in_try for x in ast.walk(st)):
            raise Unsupported("context manager %s: not a single top-level yield" % callee.qual)
        self.pre, self.post = body[:idx], body[idx + 1:]
        self.sub = None

    def enter(self):
        ev, callee = self.ev, self.callee
        # bind the parameters exactly like a call would, then run the part before the yield in that frame
        a = callee.node.args
        names = [x.arg for x in a.posonlyargs + a.args]
        env = {}
        sub = ModelEval(ev.tree, callee, env, ev.hooks, ev.depth + 1, ev.shared)
        if len(self.args) > len(names) and a.vararg is None:
            raise Raised("TypeError", self.node, "%s() takes %d positional arguments" % (callee.name, len(names)))
        for n_, d in zip(names[len(names) - len(a.defaults):], a.defaults):
            env[n_] = sub.ev(d)
        for x, d in zip(a.kwonlyargs, a.kw_defaults):
            if d is not None:
                env[x.arg] = sub.ev(d)
        for n_, v in zip(names, self.args):
            env[n_] = v
        if a.vararg is not None:
            env[a.vararg.arg] = tuple(self.args[len(names):])
        extra = {}
        for k, v in self.kwargs.items():
            if k in names or k in [x.arg for x in a.kwonlyargs]:
                env[k] = v
            elif a.kwarg is not None:
                extra[k] = v
            else:
                raise Raised("TypeError", self.node, "%s() got an unexpected keyword argument %r" % (callee.name, k))
        if a.kwarg is not None:
            env[a.kwarg.arg] = extra
        for n_ in names:
            if n_ not in env:
                raise Raised("TypeError", self.node, "%s() missing argument %s" % (callee.name, n_))
        self.sub = sub
        sub.exec_block(self.pre)
        sub.exec_block(self.try_pre)
        return sub.ev(self.yield_value) if self.yield_value is not None else None

    def exit(self, exc):
        sub = self.sub
        if self.try_node is None:
            if exc is not None:
                return False            # the exception is raised at the yield: nothing after it runs, nothing is swallowed
            sub.exec_block(self.post)
            return False
        t = self.try_node
        if exc is None:
            rest = ast.Try(body=self.post_in_try or [ast.Pass()], handlers=t.handlers, orelse=t.orelse, finalbody=t.finalbody)
            ast.copy_location(rest, t)
            ast.fix_missing_locations(rest)
            sub.exec_stmt(rest)
            sub.exec_block(self.post)
            return False
        sub.env["__cm_exc__"] = Marker("excinst", exc.name, ())
        rz = ast.Raise(exc=ast.Name(id="__cm_exc__", ctx=ast.Load()), cause=None)
        again = ast.Try(body=[rz], handlers=t.handlers, orelse=[], finalbody=t.finalbody)
        ast.copy_location(again, t)
        ast.fix_missing_locations(again)
        sub.exec_stmt(again)            # re-raises when no handler matches (or a handler re-raises): propagates out of the with statement
        sub.exec_block(self.post)
        return True                     # a handler dealt with it: the generator ended normally, so the exception is swallowed


class _Suppress:
    """contextlib.suppress(*classes) / contextlib.nullcontext(value)"""

    def __init__(self, names, enter_result=None):
        self.names, self.enter_result = names, enter_result


class _ExitStack(Model):
    """contextlib.ExitStack: context managers entered through it (and callbacks) are left in reverse order when the stack is"""

    def __init__(self, ev):
        self.ev, self.stack = ev, []

    def enter_context(self, cm):
        r = self.ev._cm_enter(cm, None)
        self.stack.append(("cm", cm))
        return r

    def callback(self, f, *a, **k):
        self.stack.append(("cb", f, a, k))
        return f

    def __enter__(self):
        return self

    def close(self):
        self.__exit__(None, None, None)

    def __exit__(self, name, exc, tb):
        cur = exc
        while self.stack:
            item = self.stack.pop()
            if item[0] == "cm":
                if self.ev._cm_exit(item[1], cur, None):
                    cur = None
            else:
                self.ev.call(None, item[1], list(item[2]), dict(item[3]))
        return exc is not None and cur is None


def exc_matches(name, handler_names):
    n = name
    while n:
        if n in handler_names:
            return True
        n = EXC_PARENTS.get(n)
    return False


class PyObj(Model):
    """Instance of an interpreted package class."""

    def __init__(self, cls):
        object.__setattr__(self, "_cls", cls)
        object.__setattr__(self, "_attrs", {})

    def __repr__(self):
        return "<%s %s>" % (self._cls.name, {k: v for k, v in self._attrs.items() if not k.startswith("__")})


class Marker:
    """A resolved callable/class/module that is not a value: ('pkg', FuncInfo|ClassInfo|ModuleInfo), ('ext', dotted),
    ('bound', FuncInfo, obj), ('type', python type), ('builtin', name)"""

    def __init__(self, kind, *data):
        self.kind, self.data = kind, data

    def __repr__(self):
        return "Marker(%s, %s)" % (self.kind, ", ".join(map(str, self.data)))

    def __eq__(self, o):
        if isinstance(o, Model):
            return NotImplemented
        return isinstance(o, Marker) and self.kind == o.kind and all(
            (a is b) or (a == b) for a, b in zip(self.data, o.data)) and len(self.data) == len(o.data)

    def __hash__(self):
        return hash(self.kind)


class ModelEval(Evaluator):
    MAX_DEPTH = 24

    def __init__(self, tree, fi, env=None, hooks=None, depth=0, shared=None):
        super().__init__(env if env is not None else {})
        self.tree, self.fi = tree, fi
        self.hooks = hooks or {}
        self.depth = depth
        self.shared = shared if shared is not None else {"calls": 0, "functions": set()}

    # ------------------------------------------------------------------ names
    def ev_Name(self, node):
        nid = node.id
        if nid in self.env:
            return self.env[nid]
        if nid in self.hooks.get("builtins", ()):
            return self.hooks["builtins"][nid]
        if nid in ("True", "False", "None"):
            return {"True": True, "False": False, "None": None}[nid]
        if nid in ("isinstance", "hasattr", "getattr", "setattr", "super", "print", "callable", "type", "NotImplemented", "eval", "vars", "__class_assigned__"):
            return Marker("builtin", nid)
        if nid in BUILTIN_TYPES and nid in ("int", "float", "str", "bool", "dict", "list", "tuple", "set", "object", "complex"):
            return Marker("type", BUILTIN_TYPES[nid])
        if nid in BUILTIN_FUNCS:
            return Marker("builtin", nid)
        if nid in EXC_PARENTS or nid.endswith("Error") or nid == "Exception":
            return Marker("exc", nid)
        r = self.tree.resolve_name(self.fi.module, nid)
        return self.wrap_resolved(r, nid)

    def wrap_resolved(self, r, what):
        if isinstance(r, (FuncInfo, ClassInfo, ModuleInfo)):
            return Marker("pkg", r)
        if isinstance(r, tuple) and r[0] == "ext":
            if r[1].split(".")[-1].endswith("Error"):
                return Marker("exc", r[1].split(".")[-1])
            return Marker("ext", r[1])
        if isinstance(r, tuple) and r[0] == "value":
            g = self.hooks.get("globals", {})
            key = "%s::%s" % (r[1].rel, what)
            if key in g:
                return g[key]
            v = r[2]
            state = self.hooks.setdefault("_module_state", {}) if isinstance(self.hooks, dict) else {}
            if key in state:
                return state[key]        # module-level objects keep their identity (and contents) across calls of one fold
            if isinstance(v, ast.expr):
                # module-level constants and tables: evaluated in the defining module's scope (calls such as frozenset(...) included)
                if self.depth > self.MAX_DEPTH:
                    raise Unsupported("module-level value %s: nesting too deep" % key)
                sub = ModelEval(self.tree, _ModuleCtx(r[1]), {}, self.hooks, self.depth + 1, self.shared)
                try:
                    val = sub.ev(v)
                except Unsupported as e:
                    raise Unsupported("module-level value %s: %s" % (key, e))
                state[key] = val         # evaluated ONCE: mutable tables keep their contents, sentinels (`_MISSING = object()`) their identity
                self._module_effects(r[1], state)
                return val
            raise Unsupported("module-level value %s" % key)
        raise Unsupported("unbound name %s" % what)

    def _module_effects(self, mod, state):
        """Import-time effects of a module on its own module-level objects, replayed once per fold in source order: registering decorators
        (`@_register(Vector)` on a top-level function, the decorator being a function of the package) and top-level statements that call a
        method of / store into a module-level object (`_TABLE.append(...)`, `_TABLE["k"] = f`)."""
        flag = "__effects__:" + mod.rel
        if flag in state:
            return
        state[flag] = True
        module_values = set()
        for st in mod.tree.body:
            for t in (st.targets if isinstance(st, ast.Assign) else [st.target] if isinstance(st, ast.AnnAssign) else []):
                if isinstance(t, ast.Name):
                    module_values.add(t.id)

        def root(n):
            while isinstance(n, (ast.Attribute, ast.Subscript)):
                n = n.value
            return n.id if isinstance(n, ast.Name) else None
        sub = ModelEval(self.tree, _ModuleCtx(mod), {}, self.hooks, self.depth + 1, self.shared)
        try:
            for st in mod.tree.body:
                if isinstance(st, (ast.FunctionDef, ast.ClassDef)):
                    for d in reversed(st.decorator_list):
                        f = d.func if isinstance(d, ast.Call) else d
                        if isinstance(f, ast.Name) and isinstance(self.tree.resolve_name(mod, f.id), FuncInfo):
                            sub.call(d, sub.ev(d), [sub.ev(ast.copy_location(ast.Name(id=st.name, ctx=ast.Load()), st))], {})
                elif isinstance(st, ast.Expr) and isinstance(st.value, ast.Call) and isinstance(st.value.func, ast.Attribute) and root(st.value.func) in module_values:
                    sub.ev(st.value)
                elif isinstance(st, ast.Assign) and len(st.targets) == 1 and isinstance(st.targets[0], (ast.Subscript, ast.Attribute)) and root(st.targets[0]) in module_values:
                    sub.exec_stmt(st)
        except Unsupported as e:
            raise Unsupported("import-time effects of %s: %s" % (mod.rel, e))

    # ------------------------------------------------------------------ attributes
    def attr(self, node, base):
        a = node.attr
        if isinstance(base, PyObj):
            return self.obj_getattr(base, a, node)
        if isinstance(base, Marker):
            if base.kind == "pkg" and isinstance(base.data[0], ModuleInfo):
                return self.wrap_resolved(self.tree.resolve_name(base.data[0], a), a)
            if base.kind == "pkg" and isinstance(base.data[0], ClassInfo):
                m = self.tree.method(base.data[0], a)
                if m is not None:
                    if any(isinstance(d, ast.Name) and d.id == "classmethod" for d in m.node.decorator_list):
                        return Marker("bound", m, base)
                    return Marker("pkg", m)
                if a == "__name__":
                    return base.data[0].name
                found, val = self.class_attr(base.data[0], a)
                if found:
                    return val
                if a == "__new__":
                    # object.__new__ (the package defines no __new__ of its own: method() found none): a bare instance
                    return Marker("pyfunc", lambda c, *args, **kw: PyObj(c.data[0]) if isinstance(c, Marker) and c.kind == "pkg" else (_ for _ in ()).throw(Unsupported("__new__ of %r" % (c,))))
            if base.kind == "ext":
                return Marker("ext", base.data[0] + "." + a)
            if base.kind == "super":
                obj, after = base.data
                m = self.tree.method(obj._cls, a, after=after)
                if m is not None:
                    return Marker("bound", m, obj)
                raise Unsupported("super().%s" % a)
            if base.kind == "bound" and a == "__name__":
                return base.data[0].name
            if base.kind == "pkg" and isinstance(base.data[0], FuncInfo) and a == "__name__":
                return base.data[0].name
            if base.kind == "type" and base.data[0] in (dict, str, list, tuple, int, float) and hasattr(base.data[0], a) and not a.startswith("__"):
                # dict.fromkeys, str.join, ... : the builtin's own (pure) class-level function
                return Marker("pyfunc", getattr(base.data[0], a))
            raise Unsupported("attribute %s of %r" % (a, base))
        if isinstance(base, Model):
            try:
                return getattr(base, a)
            except AttributeError:
                if "ndarray" in getattr(base, "kinds", ()) and a in NDARRAY_ATTRS:
                    # a real ndarray HAS this attribute: its absence is a gap of the token model, not an AttributeError of the program
                    if a == "dtype":
                        try:
                            from .rules.array_folds import DT
                            return DT("float64")
                        except ImportError:
                            return "float64"
                    if a == "astype":
                        # same dtype and copy=False: the array itself; anything else allocates
                        def astype(dtype, *args, **kw):
                            same = getattr(dtype, "name", dtype) in ("float64", "float") or dtype is float or (isinstance(dtype, Marker) and dtype.data and getattr(dtype.data[0], "__name__", dtype.data[0]) in ("float", "float64", "numpy.float64"))
                            if same and kw.get("copy") is False:
                                return base
                            if same and hasattr(base, "copy"):
                                return base.copy()
                            raise Unsupported("the model %s of an ndarray does not provide a cast to %r" % (type(base).__name__, dtype))
                        return astype
                    raise Unsupported("the model %s of an ndarray does not provide .%s" % (type(base).__name__, a))
                raise Raised("AttributeError", node, "%s has no attribute %s" % (type(base).__name__, a))
        if isinstance(base, (dict, list, tuple, str, set, frozenset, _collections.deque)):
            if a.startswith("__") and a not in ("__len__", "__iter__", "__getitem__", "__setitem__", "__delitem__", "__contains__"):
                raise Unsupported("attribute %s of a builtin container" % a)
            try:
                return getattr(base, a)
            except AttributeError:
                raise Raised("AttributeError", node, "%s has no attribute %s" % (type(base).__name__, a))
        if base is None:
            raise Raised("AttributeError", node, "NoneType has no attribute %s" % a)
        if isinstance(base, (slice, range)) and a in ("start", "stop", "step", "indices", "index", "count"):
            return getattr(base, a)
        if isinstance(base, (_re.Pattern, _re.Match)) and not a.startswith("_"):
            try:
                return getattr(base, a)
            except AttributeError:
                raise Raised("AttributeError", node, "%s has no attribute %s" % (type(base).__name__, a))
        if isinstance(base, (int, float)):
            if a in ("real", "imag", "is_integer", "bit_length", "conjugate"):
                return getattr(base, a)
            raise Raised("AttributeError", node, "number has no attribute %s" % a)
        raise Unsupported("attribute .%s on %r" % (a, base))

    def obj_getattr(self, obj, a, node=None):
        if a == "__class__":
            return Marker("pkg", obj._cls)
        if "__nt__" in obj._attrs and a in ("_replace", "_asdict", "_fields"):
            names = obj._attrs["__nt__"]
            if a == "_fields":
                return names
            if a == "_asdict":
                return Marker("pyfunc", lambda: {n: obj._attrs[n] for n in names})

            def _replace(**kw):
                new = PyObj(obj._cls)
                new._attrs.update(obj._attrs)
                for k, v in kw.items():
                    if k not in names:
                        raise Raised("ValueError", node, "Got unexpected field names: %r" % [k])
                    new._attrs[k] = v
                return new
            return Marker("pyfunc", _replace)
        if a in obj._attrs:
            return obj._attrs[a]
        m = self.tree.method(obj._cls, a)
        if m is not None:
            decos = {d.id for d in m.node.decorator_list if isinstance(d, ast.Name)}
            if "property" in decos:
                return self.invoke(m, [obj], {}, node)
            if "staticmethod" in decos:
                return Marker("pkg", m)
            if "classmethod" in decos:
                return Marker("bound", m, Marker("pkg", obj._cls))
            return Marker("bound", m, obj)
        if a == "__dict__":
            return obj._attrs
        found, val = self.class_attr(obj._cls, a)
        if found:
            return val
        raise Raised("AttributeError", node, "%s has no attribute %s" % (obj._cls.name, a))

    def class_attr(self, ci, a):
        """a data attribute assigned in a class body (through the MRO): evaluated once per fold and then SHARED by all instances"""
        for c in self.tree.mro(ci):
            for st in c.node.body:
                tgt = None
                if isinstance(st, ast.Assign) and len(st.targets) == 1 and isinstance(st.targets[0], ast.Name):
                    tgt, value = st.targets[0].id, st.value
                elif isinstance(st, ast.AnnAssign) and isinstance(st.target, ast.Name) and st.value is not None:
                    tgt, value = st.target.id, st.value
                if tgt != a:
                    continue
                key = "%s.%s" % (c.qual, a)
                state = self.hooks.setdefault("_module_state", {}) if isinstance(self.hooks, dict) else {}
                if key in state:
                    return True, state[key]
                sub = ModelEval(self.tree, _ModuleCtx(c.module), {}, self.hooks, self.depth + 1, self.shared)
                val = sub.ev(value)
                if isinstance(val, (dict, list, set, PyObj)):
                    state[key] = val
                return True, val
        return False, None

    def obj_setattr(self, obj, a, v, node=None):
        setter = self.tree.method(obj._cls, a + ".setter")
        if setter is not None:
            self.invoke(setter, [obj, v], {}, node)
        else:
            obj._attrs[a] = v

    # ------------------------------------------------------------------ subscripts / operators
    def subscript(self, node, base, index):
        if isinstance(base, PyObj) and "__nt__" in base._attrs and self.tree.method(base._cls, "__getitem__") is None:
            try:
                return tuple(base._attrs[n] for n in base._attrs["__nt__"])[index]
            except (IndexError, TypeError) as e:
                raise Raised(type(e).__name__, node, str(e))
        if isinstance(base, PyObj):
            m = self.tree.method(base._cls, "__getitem__")
            if m is None:
                raise Raised("TypeError", node, "%s is not subscriptable" % base._cls.name)
            return self.invoke(m, [base, index], {}, node)
        return super().subscript(node, base, index)

    def ev_index(self, s):
        if isinstance(s, ast.Slice):
            return slice(self.ev(s.lower) if s.lower else None, self.ev(s.upper) if s.upper else None,
                         self.ev(s.step) if s.step else None)
        return super().ev_index(s)

    DUNDER = {ast.Add: "__add__", ast.Sub: "__sub__", ast.Mult: "__mul__", ast.Div: "__truediv__", ast.Pow: "__pow__",
              ast.BitAnd: "__and__", ast.BitOr: "__or__", ast.BitXor: "__xor__"}
    RDUNDER = {ast.Add: "__radd__", ast.Sub: "__rsub__", ast.Mult: "__rmul__", ast.Div: "__rtruediv__"}
    CMPDUNDER = {ast.Lt: "__lt__", ast.LtE: "__le__", ast.Gt: "__gt__", ast.GtE: "__ge__", ast.Eq: "__eq__", ast.NotEq: "__ne__"}

    @staticmethod
    def _not_implemented(r):
        return isinstance(r, Marker) and r.kind == "builtin" and bool(r.data) and r.data[0] == "NotImplemented"

    def binop(self, node, op, a, b):
        # the binary-operator protocol of the data model: a.__op__(b); when that is missing or answers NotImplemented, b.__rop__(a)
        if isinstance(a, PyObj):
            m = self.tree.method(a._cls, self.DUNDER.get(type(op), "?"))
            if m is not None:
                r = self.invoke(m, [a, b], {}, node)
                if not self._not_implemented(r):
                    return r
            if isinstance(b, PyObj) and b._cls is not a._cls:
                m = self.tree.method(b._cls, self.RDUNDER.get(type(op), "?"))
                if m is not None:
                    r = self.invoke(m, [b, a], {}, node)
                    if not self._not_implemented(r):
                        return r
            raise Raised("TypeError", node, "unsupported operand types")
        if isinstance(b, PyObj) and not isinstance(a, (PyObj, Model)):
            m = self.tree.method(b._cls, self.RDUNDER.get(type(op), "?"))
            if m is not None:
                r = self.invoke(m, [b, a], {}, node)
                if not self._not_implemented(r):
                    return r
        if isinstance(a, PyObj) or isinstance(b, PyObj):
            raise Raised("TypeError", node, "unsupported operand types")
        return super().binop(node, op, a, b)

    def aug_op(self, node, op, cur, v):
        """the value `x` is bound to after `x op= v` (data model: x.__iop__(v), else x op v)"""
        name = self.IDUNDER.get(type(op))
        if name is not None and isinstance(cur, PyObj):
            m = self.tree.method(cur._cls, name)
            if m is not None:
                res = self.invoke(m, [cur, v], {}, node)
                if not self._not_implemented(res):
                    return res
        return self.binop(node, op, cur, v)

    UDUNDER = {ast.USub: "__neg__", ast.UAdd: "__pos__", ast.Invert: "__invert__"}

    def unary_value(self, node, op, v):
        if isinstance(op, ast.Not):
            return not self.truth(v, node)
        if isinstance(v, PyObj):
            m = self.tree.method(v._cls, self.UDUNDER[type(op)])
            if m is None:
                raise Raised("TypeError", node, "bad operand type for unary operator")
            return self.invoke(m, [v], {}, node)
        try:
            return {ast.USub: lambda x: -x, ast.UAdd: lambda x: +x, ast.Invert: lambda x: ~x}[type(op)](v)
        except TypeError as e:
            raise Unsupported("cannot evaluate unary operator: %s" % e)

    def ev_UnaryOp(self, node):
        if type(node.op) in self.UDUNDER:
            v = self.ev(node.operand)
            if isinstance(v, PyObj):
                m = self.tree.method(v._cls, self.UDUNDER[type(node.op)])
                if m is None:
                    raise Raised("TypeError", node, "bad operand type for unary operator")
                return self.invoke(m, [v], {}, node)
            try:
                return {ast.USub: lambda x: -x, ast.UAdd: lambda x: +x, ast.Invert: lambda x: ~x}[type(node.op)](v)
            except TypeError as e:
                raise Unsupported("cannot evaluate %s: %s" % (ast.unparse(node), e))
        return super().ev_UnaryOp(node)

    def compare(self, node, op, a, b):
        if isinstance(op, (ast.Is, ast.IsNot)):
            r = a is b
            if isinstance(a, Marker) and isinstance(b, Marker):
                r = a == b
            return r if isinstance(op, ast.Is) else not r
        if isinstance(op, (ast.In, ast.NotIn)):
            r = self.contains(b, a, node)
            return r if isinstance(op, ast.In) else not r
        if isinstance(a, PyObj):
            m = self.tree.method(a._cls, self.CMPDUNDER.get(type(op), "?"))
            if m is not None:
                return self.invoke(m, [a, b], {}, node)
            if isinstance(op, ast.Eq):
                return a is b
            if isinstance(op, ast.NotEq):
                return a is not b
        if any(isinstance(x, Marker) and x.kind == "pyscalar" for x in (a, b)):
            # a number taken out of a symbolic array compared with anything: another undecided python scalar (a bool)
            return Marker("pyscalar", ("cmp", type(op).__name__, a.data if isinstance(a, Marker) else a, b.data if isinstance(b, Marker) else b))
        if isinstance(a, Marker) or isinstance(b, Marker):
            if isinstance(op, ast.Eq):
                return a == b
            if isinstance(op, ast.NotEq):
                return not (a == b)
        if isinstance(op, (ast.Eq, ast.NotEq)):
            # ndarray == number is ELEMENT-WISE (a boolean array whose truth is the element's), not the identity of two python objects
            for x, y in ((a, b), (b, a)):
                if type(x).__name__ == "RawTok" and isinstance(y, (int, float)) and not isinstance(y, bool):
                    return x._bin("==" if isinstance(op, ast.Eq) else "!=", y)
        return super().compare(node, op, a, b)

    def contains(self, container, item, node=None):
        if isinstance(container, PyObj):
            m = self.tree.method(container._cls, "__contains__")
            if m is not None:
                return self.truth(self.invoke(m, [container, item], {}, node))
            return any(x == item for x in self.iterate(container, node))
        try:
            return item in container
        except TypeError as e:
            raise Unsupported("membership test: %s" % e)

    def truth(self, v, node=None):
        if isinstance(v, PyObj):
            m = self.tree.method(v._cls, "__bool__")
            if m is not None:
                return self.truth(self.invoke(m, [v], {}, node))
            m = self.tree.method(v._cls, "__len__")
            if m is not None:
                return self.invoke(m, [v], {}, node) != 0
            return True
        if isinstance(v, Marker):
            if v.kind == "pyscalar":
                return self._decide("pyscalar %r" % (v.data,), "truth value of the number %r is not decided by the abstraction" % (v,))
            return True          # functions, classes, modules, exception objects
        if isinstance(v, Model):
            t = getattr(v, "truth", None)
            if t is not None:
                return t()
            fk = getattr(v, "fork_key", None)
            if fk is not None:
                return self._decide("token %s" % (fk() if callable(fk) else fk), "truth value of the token %r is not decided by the abstraction" % (v,))
            if not (hasattr(type(v), "__bool__") or hasattr(type(v), "__len__")):
                # python would call any object true: a token that does not say what its truth value is must not decide a branch
                raise Unsupported("truth value of the token %r is not decided by the abstraction%s" % (v, " (line %d)" % node.lineno if node is not None and hasattr(node, "lineno") else ""))
            try:
                return bool(v)
            except Unsupported:
                raise
        return super().truth(v, node)

    def _decide(self, what, message):
        """the answer to a test the abstraction does not decide: taken from the assumptions of the running exploration (explore()),
        which is asked to fork when it has none; without an exploration the fold is unresolved"""
        a = _ASSUME[-1] if _ASSUME else None
        if a is None:
            raise Unsupported(message)
        n = a["counts"].get(what, 0)
        a["counts"][what] = n + 1
        key = "%s #%d" % (what, n)
        if key in a["decided"]:
            return a["decided"][key]
        raise NeedAssumption(key)

    def iterate(self, v, node=None):
        if isinstance(v, PyObj) and "__nt__" in v._attrs:
            return [v._attrs[n] for n in v._attrs["__nt__"]]          # a typing.NamedTuple instance is a tuple of its fields
        if isinstance(v, PyObj):
            m = self.tree.method(v._cls, "__iter__")
            if m is not None:
                return list(self.iterate(self.invoke(m, [v], {}, node), node))
            m = self.tree.method(v._cls, "__getitem__")
            ln = self.tree.method(v._cls, "__len__")
            if m is not None and ln is not None:
                return [self.invoke(m, [v, i], {}, node) for i in range(self.invoke(ln, [v], {}, node))]
            raise Raised("TypeError", node, "%s is not iterable" % v._cls.name)
        try:
            return list(v)
        except TypeError as e:
            raise Raised("TypeError", node, str(e))

    # ------------------------------------------------------------------ calls
    def ev_Call(self, node):
        func = self.ev(node.func)
        args = []
        for a in node.args:
            if isinstance(a, ast.Starred):
                args.extend(self.iterate(self.ev(a.value), a))
            else:
                args.append(self.ev(a))
        kwargs = {}
        for k in node.keywords:
            if k.arg is None:
                d = self.ev(k.value)
                if isinstance(d, PyObj):
                    d = {key: self.subscript(k.value, d, key) for key in self.iterate(d, node)}
                kwargs.update(d)
            else:
                kwargs[k.arg] = self.ev(k.value)
        return self.call(node, func, args, kwargs)

    def call(self, node, func, args, kwargs):
        self.shared["calls"] += 1
        if isinstance(func, Marker):
            k = func.kind
            if k == "builtin":
                return self.call_builtin(node, func.data[0], args, kwargs)
            if k == "type":
                t = func.data[0]
                if t in (dict, list, tuple, set) and args and isinstance(args[0], PyObj):
                    if t is dict:
                        return {key: self.subscript(node, args[0], key) for key in self.iterate(args[0], node)}
                    return t(self.iterate(args[0], node))
                if t in (float, int) and len(args) == 1 and isinstance(args[0], Model) and getattr(args[0], "symbolic_number", False) and (t is float or getattr(args[0], "integral", False)):
                    return args[0]           # float(x) of an exact / symbolic number token: the same number
                try:
                    return t(*args, **kwargs)
                except (TypeError, ValueError) as e:
                    raise Raised(type(e).__name__, node, str(e))
            if k == "pyfunc":
                try:
                    return func.data[0](*args, **kwargs)
                except (TypeError, ValueError, KeyError) as e:
                    raise Raised(type(e).__name__, node, str(e))
            if k == "exc":
                return Marker("excinst", func.data[0], args)
            if k == "ext":
                h = self.hooks.get("ext", {}).get(func.data[0])
                if h is None and func.data[0] in OPERATOR_BIN and len(args) == 2:
                    return self.binop(node, OPERATOR_BIN[func.data[0]](), args[0], args[1])
                if h is None and func.data[0] in OPERATOR_CMP and len(args) == 2:
                    return self.compare(node, OPERATOR_CMP[func.data[0]](), args[0], args[1])
                if h is None and func.data[0] == "functools.reduce" and len(args) >= 2:
                    items = self.iterate(args[1], node)
                    if len(args) > 2:
                        acc = args[2]
                    elif items:
                        acc, items = items[0], items[1:]
                    else:
                        raise Raised("TypeError", node, "reduce() of empty iterable with no initial value")
                    for x in items:
                        acc = self.call(node, args[0], [acc, x], {})
                    return acc
                if h is None and func.data[0] in ("operator.neg", "operator.pos", "operator.invert", "operator.not_") and len(args) == 1:
                    opn = {"operator.neg": ast.USub, "operator.pos": ast.UAdd, "operator.invert": ast.Invert, "operator.not_": ast.Not}[func.data[0]]
                    return self.unary_value(node, opn(), args[0])
                if h is None and func.data[0] == "operator.itemgetter" and args:
                    keys = list(args)
                    return Marker("pyfunc", (lambda o: self.subscript(node, o, keys[0])) if len(keys) == 1 else (lambda o: tuple(self.subscript(node, o, k_) for k_ in keys)))
                if h is None and func.data[0] == "operator.attrgetter" and len(args) == 1 and isinstance(args[0], str):
                    def attrgetter(o, path=args[0]):
                        for part in path.split("."):
                            o = self.call_builtin(node, "getattr", [o, part], {})
                        return o
                    return Marker("pyfunc", attrgetter)
                if h is None and func.data[0] == "operator.methodcaller" and args and isinstance(args[0], str):
                    mname, margs, mkw = args[0], list(args[1:]), dict(kwargs)
                    return Marker("pyfunc", lambda o: self.call(node, self.call_builtin(node, "getattr", [o, mname], {}), list(margs), dict(mkw)))
                if h is None and func.data[0] == "operator.getitem" and len(args) == 2:
                    return self.subscript(node, args[0], args[1])
                if h is None and func.data[0] == "functools.partial" and args:
                    pf, pa, pk = args[0], list(args[1:]), dict(kwargs)
                    return Marker("pyfunc", lambda *b, **kk: self.call(node, pf, pa + list(b), dict(pk, **kk)))
                if h is None and func.data[0] == "collections.namedtuple" and len(args) >= 2:
                    import collections as _collections
                    try:
                        return Marker("type", _collections.namedtuple(args[0], args[1], **{k_: v_ for k_, v_ in kwargs.items() if k_ in ("defaults", "rename")}))
                    except (TypeError, ValueError) as e:
                        raise Raised(type(e).__name__, node, str(e))
                if h is None and func.data[0] in ("collections.defaultdict", "collections.OrderedDict", "collections.Counter", "collections.deque", "collections.ChainMap"):
                    import collections as _c
                    nm = func.data[0].split(".")[1]
                    try:
                        if nm == "defaultdict":
                            fac = args[0] if args else None
                            dd = _c.defaultdict((lambda: self.call(node, fac, [], {})) if fac is not None else None)
                            for extra_ in args[1:]:
                                dd.update(extra_)
                            dd.update(kwargs)
                            return dd
                        if nm == "Counter":
                            return _c.Counter(*[self.iterate(a_, node) if not isinstance(a_, dict) else a_ for a_ in args], **kwargs)
                        if nm == "deque":
                            return _c.deque(*([self.iterate(args[0], node)] + list(args[1:]) if args else []), **kwargs)
                        return getattr(_c, nm)(*args, **kwargs)
                    except TypeError as e:
                        raise Raised("TypeError", node, str(e))
                if h is None and func.data[0].startswith("itertools."):
                    import itertools as _it
                    nm = func.data[0][len("itertools."):]
                    seqs = lambda xs: [self.iterate(x, node) for x in xs]
                    if nm == "chain":
                        return [y for x in seqs(args) for y in x]
                    if nm == "chain.from_iterable" and len(args) == 1:
                        return [y for x in self.iterate(args[0], node) for y in self.iterate(x, node)]
                    if nm == "product":
                        return [tuple(t) for t in _it.product(*seqs(args), repeat=kwargs.get("repeat", 1))]
                    if nm == "islice" and args:
                        return list(_it.islice(self.iterate(args[0], node), *args[1:]))
                    if nm == "starmap" and len(args) == 2:
                        return [self.call(node, args[0], list(self.iterate(t, node)), {}) for t in self.iterate(args[1], node)]
                    if nm == "accumulate" and args:
                        items, out_ = self.iterate(args[0], node), []
                        fn_ = args[1] if len(args) > 1 else kwargs.get("func")
                        acc, started = kwargs.get("initial"), "initial" in kwargs and kwargs["initial"] is not None
                        if started:
                            out_.append(acc)
                        for x in items:
                            if not started:
                                acc, started = x, True
                            else:
                                acc = self.call(node, fn_, [acc, x], {}) if fn_ is not None else self.binop(node, ast.Add(), acc, x)
                            out_.append(acc)
                        return out_
                    if nm == "repeat" and len(args) == 2 and isinstance(args[1], int):
                        return [args[0]] * args[1]
                    if nm == "zip_longest":
                        return [tuple(t) for t in _it.zip_longest(*seqs(args), fillvalue=kwargs.get("fillvalue"))]
                    if nm == "pairwise" and len(args) == 1:
                        it_ = self.iterate(args[0], node)
                        return list(zip(it_, it_[1:]))
                    if nm in ("combinations", "permutations") and args:
                        return [tuple(t) for t in getattr(_it, nm)(self.iterate(args[0], node), *args[1:])]
                    raise Unsupported("library function %s is not modelled" % func.data[0])
                if h is None and func.data[0] == "weakref.ref" and len(args) >= 1:
                    return WeakRef(args[0])
                if h is None and func.data[0] == "contextlib.suppress":
                    names = []
                    for a_ in args:
                        if isinstance(a_, Marker) and a_.kind in ("exc", "ext", "pkg"):
                            names.append(a_.data[0] if a_.kind == "exc" else (a_.data[0].split(".")[-1] if a_.kind == "ext" else getattr(a_.data[0], "name", None)))
                        else:
                            raise Unsupported("contextlib.suppress(%r)" % (a_,))
                    return _Suppress(names)
                if h is None and func.data[0] == "contextlib.ExitStack" and not args and not kwargs:
                    return _ExitStack(self)
                if h is None and func.data[0] == "contextlib.nullcontext":
                    return _Suppress([], args[0] if args else None)
                if h is None and func.data[0] in ("copy.copy", "copy.deepcopy") and len(args) >= 1:
                    return self.py_copy(args[0], deep=func.data[0] == "copy.deepcopy", node=node,
                                        memo=(args[1] if len(args) > 1 and isinstance(args[1], dict) else kwargs.get("memo") if isinstance(kwargs.get("memo"), dict) else None))
                if h is None:
                    d = self.hooks.get("ext_default")
                    if d is not None:
                        return d(func.data[0], args, kwargs)
                    raise Unsupported("library function %s is not modelled" % func.data[0])
                return h(*args, **kwargs)
            if k == "pkg":
                target = func.data[0]
                if isinstance(target, FuncInfo):
                    ov = self.hooks.get("pkgfunc", {}).get(target.qual)
                    if ov is not None:
                        return ov(*args, **kwargs)
                    return self.invoke(target, args, kwargs, node)
                if isinstance(target, ClassInfo):
                    fac = self.hooks.get("class", {}).get(target.qual)
                    if fac is not None:
                        return fac(*args, **kwargs)
                    return self.instantiate(target, args, kwargs, node)
            if k == "bound":
                m, obj = func.data
                ov = self.hooks.get("pkgfunc", {}).get(m.qual)
                if ov is not None:
                    return ov(obj, *args, **kwargs)
                return self.invoke(m, [obj] + list(args), kwargs, node)
            raise Unsupported("call of %r" % func)
        if isinstance(func, Model) and callable(func):
            return func(*args, **kwargs)
        if callable(func):
            try:
                return func(*args, **kwargs)
            except (Unsupported, RaisedInModel, ProgramRaised):
                raise
            except KeyError as e:
                raise Raised("KeyError", node, str(e))
            except (TypeError, ValueError, AttributeError, IndexError) as e:
                raise Raised(type(e).__name__, node, str(e))
        raise Unsupported("call %s (line %d)" % (norm(node.func), node.lineno))

    def call_builtin(self, node, name, args, kwargs):
        if name == "eval":
            # eval(<string>) in the current scope: the string is parsed and interpreted like any other expression
            if len(args) != 1 or not isinstance(args[0], str):
                raise Unsupported("eval of %r" % (args,))
            try:
                expr = ast.parse(args[0].strip(), mode="eval").body
            except SyntaxError as e:
                raise Raised("SyntaxError", node, str(e))
            try:
                return self.ev(expr)
            except Unsupported as e:
                if str(e).startswith("unbound name "):
                    raise Raised("NameError", node, "name %r is not defined" % str(e)[len("unbound name "):])      # the text comes from data: an unknown word is a NameError
                raise
        if name == "vars" and len(args) == 1:
            if isinstance(args[0], PyObj):
                return args[0]._attrs        # the instance dictionary itself (insertion-ordered by first assignment)
            raise Unsupported("vars(%r)" % (args[0],))
        if name == "__class_assigned__":
            # a method installed by assignment in the class body (see sa/source.py): the assigned value, called with the instance first
            obj, attr = args[0], args[1]
            found, val = self.class_attr(obj._cls, attr)
            if not found:
                raise Unsupported("class attribute %s.%s" % (obj._cls.name, attr))
            return self.call(node, val, [obj] + list(args[2:]), kwargs)
        if name == "isinstance":
            return self.isinstance_(args[0], args[1])
        if name == "hasattr":
            obj, a = args
            if isinstance(obj, PyObj):
                return a in obj._attrs or self.tree.method(obj._cls, a) is not None
            if isinstance(obj, Model):
                return hasattr(obj, a)
            return hasattr(obj, a) if isinstance(obj, (dict, list, str, tuple, slice, range, int, float, bool, type(None), set, frozenset, bytes)) else False
        if name == "getattr":
            obj, a = args[0], args[1]
            if isinstance(obj, (slice, range, int, float, bool, type(None), bytes)) and not hasattr(obj, a):
                if len(args) > 2:
                    return args[2]
                raise Raised("AttributeError", node, "%s has no attribute %s" % (type(obj).__name__, a))
            try:
                fake = ast.Attribute(value=ast.Constant(value=None), attr=a, ctx=ast.Load(), lineno=getattr(node, "lineno", 0), col_offset=0)
                return self.attr(fake, obj)
            except Raised as e:
                if len(args) > 2 and e.name == "AttributeError":
                    return args[2]
                raise
        if name == "setattr":
            obj, a, v = args
            if isinstance(obj, PyObj):
                self.obj_setattr(obj, a, v, node)
            elif isinstance(obj, Model):
                setattr(obj, a, v)
            else:
                raise Unsupported("setattr on %r" % (obj,))
            return None
        if name == "super":
            selfv = self.env.get(self.fi.node.args.args[0].arg) if self.fi.node.args.args else None
            return Marker("super", selfv, self.fi.cls)
        if name == "print":
            return None
        if name == "callable":
            return isinstance(args[0], Marker) or callable(args[0])
        if name == "type":
            v = args[0]
            if isinstance(v, PyObj):
                return Marker("pkg", v._cls)
            return Marker("type", type(v))
        if name == "len":
            v = args[0]
            if isinstance(v, PyObj) and "__nt__" in v._attrs and self.tree.method(v._cls, "__len__") is None:
                return len(v._attrs["__nt__"])
            if isinstance(v, PyObj):
                m = self.tree.method(v._cls, "__len__")
                if m is None:
                    raise Raised("TypeError", node, "object has no len()")
                return self.invoke(m, [v], {}, node)
            try:
                return len(v)
            except TypeError as e:
                raise Raised("TypeError", node, str(e))
        if name == "map" and len(args) >= 2 and not kwargs:
            # (eager: the elements are produced in order, as a consumer that drains the iterator sees them)
            cols = [self.iterate(a, node) for a in args[1:]]
            return [self.call(node, args[0], list(row), {}) for row in zip(*cols)]
        if name == "filter" and len(args) == 2 and not kwargs:
            items = self.iterate(args[1], node)
            if args[0] is None:
                return [x for x in items if self.truth(x, node)]
            return [x for x in items if self.truth(self.call(node, args[0], [x], {}), node)]
        if name in ("list", "tuple", "set", "sorted", "enumerate", "zip", "all", "any", "sum", "min", "max", "reversed", "dict"):
            conv = [self.iterate(a, node) if isinstance(a, PyObj) else a for a in args]
            if name == "dict" and conv and isinstance(args[0], PyObj):
                return {key: self.subscript(node, args[0], key) for key in conv[0]}
            if name in ("all", "any"):
                vals = [self.truth(x, node) for x in self.iterate(conv[0], node)]
                return all(vals) if name == "all" else any(vals)
            f = getattr(_builtins, name)
            try:
                r = f(*conv, **kwargs)
                return list(r) if name in ("enumerate", "zip", "reversed") else r
            except (TypeError, ValueError) as e:
                raise Raised(type(e).__name__, node, str(e))
        if name in ("float", "int") and len(args) == 1 and isinstance(args[0], Model) and getattr(args[0], "symbolic_number", False) and (name == "float" or getattr(args[0], "integral", False)):
            return args[0]           # float(x) of an exact / symbolic number token: the same number
        if name == "next" and args and isinstance(args[0], list):
            # generator expressions are evaluated eagerly into lists: next(gen, default) takes the first element
            if args[0]:
                return args[0][0]
            if len(args) > 1:
                return args[1]
            raise Raised("StopIteration", node, "")
        f = getattr(_builtins, name)
        try:
            return f(*args, **kwargs)
        except (TypeError, ValueError) as e:
            raise Raised(type(e).__name__, node, str(e))
        except StopIteration:
            raise Raised("StopIteration", node, "")

    def py_copy(self, v, deep, node=None, memo=None):
        """copy.copy / copy.deepcopy on interpreted objects and containers (model tokens are immutable values)"""
        memo = {} if memo is None else memo
        if id(v) in memo:
            return memo[id(v)]
        if isinstance(v, PyObj):
            m = self.tree.method(v._cls, "__deepcopy__" if deep else "__copy__")
            if m is not None:
                # the running memo is handed to __deepcopy__ (it may register itself and pass it on), and the result is remembered as copy.deepcopy does
                res = self.invoke(m, [v] + ([memo] if deep else []), {}, node)
                memo.setdefault(id(v), res)
                return res
            out = PyObj(v._cls)
            memo[id(v)] = out
            out._attrs.update({k: (self.py_copy(x, True, node, memo) if deep else x) for k, x in v._attrs.items()})
            return out
        if isinstance(v, dict):
            out = {}
            memo[id(v)] = out
            out.update({k: (self.py_copy(x, True, node, memo) if deep else x) for k, x in v.items()})
            return out
        if isinstance(v, list):
            out = []
            memo[id(v)] = out
            out.extend((self.py_copy(x, True, node, memo) if deep else x) for x in v)
            return out
        if isinstance(v, tuple):
            return tuple((self.py_copy(x, True, node, memo) if deep else x) for x in v)
        if isinstance(v, Model) and hasattr(v, "copy") and deep:
            try:
                return v.copy()
            except TypeError:
                return v
        return v

    BUILTIN_TYPES = {"slice": slice, "frozenset": frozenset, "range": range, "bytes": bytes, "complex": complex}

    def isinstance_(self, obj, cls):
        if isinstance(cls, tuple):
            return any(self.isinstance_(obj, c) for c in cls)
        if not isinstance(cls, Marker):
            raise Unsupported("isinstance against %r" % (cls,))
        if cls.kind == "builtin" and cls.data and cls.data[0] in self.BUILTIN_TYPES:
            cls = Marker("type", self.BUILTIN_TYPES[cls.data[0]])
        if cls.kind == "type":
            t = cls.data[0]
            if isinstance(obj, (PyObj, Model, Marker)):
                return t is object
            if t is int and isinstance(obj, bool):
                return True
            return isinstance(obj, t)
        if cls.kind == "pkg" and isinstance(cls.data[0], ClassInfo):
            c = cls.data[0]
            if isinstance(obj, PyObj):
                return c.qual in [x.qual for x in self.tree.mro(obj._cls)]
            if isinstance(obj, Model):
                return c.name in getattr(obj, "kinds", ())
            return False
        if cls.kind == "ext":
            nm = cls.data[0].split(".")[-1]
            if isinstance(obj, Model):
                return nm in getattr(obj, "kinds", ())
            if nm in ("Number", "Real") and isinstance(obj, (int, float)):
                return True
            if nm == "Iterable":
                return isinstance(obj, (list, tuple, dict, str, set))
            return False
        raise Unsupported("isinstance against %r" % (cls,))

    def record_fields(self, cls):
        """[(field, default expr or None)] of a typing.NamedTuple subclass or a @dataclass, else None"""
        cached = getattr(cls, "_sa_record_fields", False)
        if cached is not False:
            return cached
        kind = None
        for b in cls.base_exprs:
            if self.tree.dotted(cls.module, b) in ("typing.NamedTuple",):
                kind = "namedtuple"
        for d in cls.node.decorator_list:
            f = d.func if isinstance(d, ast.Call) else d
            if self.tree.dotted(cls.module, f) in ("dataclasses.dataclass",):
                kind = "dataclass"
        fields = None
        if kind is not None:
            fields = [(st.target.id, st.value) for st in cls.node.body if isinstance(st, ast.AnnAssign) and isinstance(st.target, ast.Name)]
            fields = (kind, fields)
        cls._sa_record_fields = fields
        return fields

    def instantiate(self, cls, args, kwargs, node):
        obj = PyObj(cls)
        init = self.tree.method(cls, "__init__")
        if init is not None:
            self.invoke(init, [obj] + list(args), kwargs, node)
            return obj
        rec = self.record_fields(cls)
        if rec is not None:
            # the generated constructor of a typing.NamedTuple / dataclass: fields in declaration order, defaults from the class body
            kind, fields = rec
            names = [n for n, _ in fields]
            if len(args) > len(names):
                raise Raised("TypeError", node, "%s() takes %d positional arguments but %d were given" % (cls.name, len(names), len(args)))
            vals = dict(zip(names, args))
            for k, v in kwargs.items():
                if k not in names or k in vals:
                    raise Raised("TypeError", node, "%s() got an unexpected or repeated keyword argument %r" % (cls.name, k))
                vals[k] = v
            for n, dflt in fields:
                if n not in vals:
                    sub = ModelEval(self.tree, _ModuleCtx(cls.module), {}, self.hooks, self.depth + 1, self.shared)
                    if isinstance(dflt, ast.Call) and self.tree.dotted(cls.module, dflt.func) == "dataclasses.field":
                        # field(default=...) / field(default_factory=...): the factory is called afresh for every instance
                        kws = {k.arg: k.value for k in dflt.keywords}
                        if "default_factory" in kws:
                            vals[n] = sub.call(dflt, sub.ev(kws["default_factory"]), [], {})
                            continue
                        dflt = kws.get("default")
                    if dflt is None:
                        raise Raised("TypeError", node, "%s() missing required argument %r" % (cls.name, n))
                    vals[n] = sub.ev(dflt)
            for n in names:
                obj._attrs[n] = vals[n]
            if kind == "namedtuple":
                obj._attrs["__nt__"] = tuple(names)
            post = self.tree.method(cls, "__post_init__")
            if post is not None and kind == "dataclass":
                self.invoke(post, [obj], {}, node)
        return obj

    MEMO_DECORATORS = ("functools.lru_cache", "functools.cache")
    TRANSPARENT_DECORATORS = ("property", "staticmethod", "classmethod", "setter", "numba.njit", "numba.jit", "functools.wraps", "numba.prange")

    def memo_key(self, callee, args, kwargs):
        """functools.lru_cache / functools.cache on a package function: results are remembered per argument values for the life of the process
        (= of the fold: the memo lives with the module-level state) -> key, or None when the function is not memoised"""
        for d in callee.node.decorator_list:
            f = d.func if isinstance(d, ast.Call) else d
            if self.tree.dotted(callee.module, f) in self.MEMO_DECORATORS:
                def k(x):
                    if isinstance(x, (str, int, float, bool, type(None), bytes)):
                        return (type(x).__name__, x)
                    if isinstance(x, tuple):
                        return tuple(k(y) for y in x)
                    return ("object", id(x))
                return (callee.qual, tuple(k(x) for x in args), tuple(sorted((n_, k(v)) for n_, v in kwargs.items())))
        return None

    def _singledispatch_target(self, callee, first, node):
        """functools.singledispatch: the implementation registered for the class of the first argument (module-level functions decorated
        with `<generic>.register(<class>)` or `<generic>.register` plus an annotation), the generic function itself otherwise"""
        if not any(self.tree.dotted(callee.module, d.func if isinstance(d, ast.Call) else d) == "functools.singledispatch" for d in callee.node.decorator_list):
            return None
        table = getattr(callee, "_sa_dispatch", None)
        if table is None:
            table = []
            for st in callee.module.tree.body:
                if not isinstance(st, ast.FunctionDef):
                    continue
                for d in st.decorator_list:
                    reg = d.func if isinstance(d, ast.Call) else d
                    if isinstance(reg, ast.Attribute) and reg.attr == "register" and isinstance(reg.value, ast.Name) and reg.value.id == callee.name:
                        if isinstance(d, ast.Call) and d.args:
                            cls_expr = d.args[0]
                        elif st.args.args and st.args.args[0].annotation is not None:
                            cls_expr = st.args.args[0].annotation
                        else:
                            raise Unsupported("singledispatch registration of %s without a class" % callee.qual)
                        table.append((cls_expr, FuncInfo(callee.module, None, st)))
            callee._sa_dispatch = table
        ctx = ModelEval(self.tree, _ModuleCtx(callee.module), {}, self.hooks, self.depth + 1, self.shared)
        hits = [fi for cls_expr, fi in table if self.isinstance_(first, ctx.ev(cls_expr))]
        if len(hits) > 1:
            raise Unsupported("singledispatch %s: several registered classes match %r" % (callee.qual, first))
        return hits[0] if hits else callee

    def _is_contextmanager(self, callee):
        for d in callee.node.decorator_list:
            f = d.func if isinstance(d, ast.Call) else d
            if self.tree.dotted(callee.module, f) in ("contextlib.contextmanager",):
                return True
        return False

    def invoke(self, callee, args, kwargs, node):
        if self.depth >= self.MAX_DEPTH:
            raise Unsupported("interpretation depth exceeded at %s" % callee.qual)
        if callee.node.decorator_list and self._is_contextmanager(callee) and not getattr(self, "_raw_generator", False):
            return _GenCM(self, callee, list(args), dict(kwargs), node)
        if callee.node.decorator_list and callee.cls is None and args:
            impl = self._singledispatch_target(callee, args[0], node)
            if impl is not None and impl is not callee:
                return self.invoke(impl, args, kwargs, node)
        self.shared["functions"].add(callee.qual)
        mk = self.memo_key(callee, args, kwargs) if callee.node.decorator_list else None
        if mk is not None:
            memo = (self.hooks.setdefault("_module_state", {}) if isinstance(self.hooks, dict) else {}).setdefault("__memo__", {})
            if mk in memo:
                return memo[mk]
            res = self._invoke(callee, args, kwargs, node)
            memo[mk] = res
            return res
        return self._invoke(callee, args, kwargs, node)

    def _invoke(self, callee, args, kwargs, node):
        a = callee.node.args
        names = [x.arg for x in a.posonlyargs + a.args]
        env = {}
        pos = list(args)
        for n_, v in zip(names, pos):
            env[n_] = v
        extra_pos = pos[len(names):]
        if extra_pos and a.vararg is None:
            raise Raised("TypeError", node, "%s() takes %d positional arguments" % (callee.name, len(names)))
        if a.vararg is not None:
            env[a.vararg.arg] = tuple(extra_pos)
        kwonly = [x.arg for x in a.kwonlyargs]
        extra_kw = {}
        for k, v in kwargs.items():
            if k in names or k in kwonly:
                env[k] = v
            else:
                extra_kw[k] = v
        if extra_kw and a.kwarg is None:
            raise Raised("TypeError", node, "%s() got an unexpected keyword argument %s" % (callee.name, sorted(extra_kw)))
        if a.kwarg is not None:
            env[a.kwarg.arg] = extra_kw
        sub = ModelEval(self.tree, callee, env, self.hooks, self.depth + 1, self.shared)
        defaults = a.defaults
        dn = names[len(names) - len(defaults):] if defaults else []
        for n_, d in zip(dn, defaults):
            if n_ not in env:
                env[n_] = sub.ev(d)
        for x, d in zip(a.kwonlyargs, a.kw_defaults):
            if x.arg not in env:
                if d is None:
                    raise Raised("TypeError", node, "missing keyword-only argument %s" % x.arg)
                env[x.arg] = sub.ev(d)
        for n_ in names:
            if n_ not in env:
                raise Raised("TypeError", node, "%s() missing argument %s" % (callee.name, n_))
        if _is_generator(callee.node):
            # a generator function: run eagerly, the values it yields form the (list) result.  Effects of the body happen before the
            # consumer's; the yielded sequence is the same.
            sub.yielded = []
            sub.run_body(callee.node.body)
            return sub.yielded
        return sub.run_body(callee.node.body)

    def ev_Yield(self, node):
        if not hasattr(self, "yielded"):
            raise Unsupported("yield outside a generator function")
        self.yielded.append(self.ev(node.value) if node.value is not None else None)
        return None

    def ev_YieldFrom(self, node):
        if not hasattr(self, "yielded"):
            raise Unsupported("yield from outside a generator function")
        self.yielded.extend(self.iterate(self.ev(node.value), node))
        return None

    # ------------------------------------------------------------------ statements
    IDUNDER = {ast.Add: "__iadd__", ast.Sub: "__isub__", ast.Mult: "__imul__", ast.Div: "__itruediv__", ast.Pow: "__ipow__",
               ast.BitAnd: "__iand__", ast.BitOr: "__ior__", ast.BitXor: "__ixor__", ast.FloorDiv: "__ifloordiv__", ast.Mod: "__imod__"}

    def exec_stmt(self, st):
        if isinstance(st, ast.AugAssign):
            # x op= y: the in-place method of x when it has one (the object is UPDATED and stays shared), x = x op y otherwise
            cur = self.ev(st.target)
            name = self.IDUNDER.get(type(st.op))
            if name is not None:
                if isinstance(cur, PyObj):
                    m = self.tree.method(cur._cls, name)
                    if m is not None:
                        v = self.ev(st.value)
                        res = self.invoke(m, [cur, v], {}, st)
                        if not (isinstance(res, Marker) and res.kind == "builtin" and res.data and res.data[0] == "NotImplemented"):
                            self.assign(st.target, res)
                            return
                        self.assign(st.target, self.binop(st, st.op, cur, v))
                        return
                elif isinstance(cur, (list, set, dict)) or (isinstance(cur, Model) and hasattr(type(cur), name)):
                    v = self.ev(st.value)
                    import operator as _op
                    res = getattr(_op, name)(cur, v)
                    self.assign(st.target, res)
                    return
            return super().exec_stmt(st)
        if isinstance(st, ast.Try):
            try:
                self.exec_block(st.body)
            except (Raised, ProgramRaised) as e:
                name = e.name if isinstance(e, Raised) else type(e.exc).__name__
                for h in st.handlers:
                    hn = self.handler_names(h)
                    if hn is None or exc_matches(name, hn):
                        if h.name:
                            self.env[h.name] = Marker("excinst", name, ())
                        handling = self.shared.setdefault("handling", [])
                        handling.append(e)
                        try:
                            self.exec_block(h.body)
                        finally:
                            handling.pop()
                        break
                else:
                    self.exec_block(st.finalbody)
                    raise
            else:
                self.exec_block(st.orelse)
            self.exec_block(st.finalbody)
            return
        if isinstance(st, ast.Raise):
            if st.exc is None:
                handling = self.shared.get("handling") or []
                if handling:
                    raise handling[-1]          # bare `raise` inside a handler: the exception being handled
                raise Raised("RuntimeError", st, "No active exception to reraise")
            v = self.ev(st.exc)
            if isinstance(v, Marker) and v.kind in ("exc", "excinst"):
                raise Raised(v.data[0], st, " ".join(str(a) for a in (v.data[1] if len(v.data) > 1 else ()))[:120])
            raise Raised("Exception", st, norm(st.exc)[:80])
        if isinstance(st, ast.For):
            broke = False
            for item in self.iterate(self.ev(st.iter), st):
                self.bind(st.target, item)
                try:
                    self.exec_block(st.body)
                except _Continue:
                    continue
                except _Break:
                    broke = True
                    break
            if not broke:
                self.exec_block(st.orelse)
            return
        if isinstance(st, ast.While):
            n = 0
            while self.truth(self.ev(st.test), st.test):
                n += 1
                if n > 10000:
                    raise Unsupported("loop bound exceeded")
                try:
                    self.exec_block(st.body)
                except _Continue:
                    continue
                except _Break:
                    break
            return
        if isinstance(st, ast.With):
            cms = []
            for item in st.items:
                cm = self.ev(item.context_expr)
                entered = self._cm_enter(cm, st)
                cms.append(cm)
                if item.optional_vars is not None:
                    self.assign(item.optional_vars, entered)
            try:
                self.exec_block(st.body)
            except (Raised, ProgramRaised) as e:
                e_ = e if isinstance(e, Raised) else Raised(type(e.exc).__name__, st, str(e.exc))
                for cm in reversed(cms):
                    if self._cm_exit(cm, e_, st):
                        return          # the context manager swallowed the exception
                raise
            except (ReturnValue, _Continue, _Break):
                for cm in reversed(cms):
                    self._cm_exit(cm, None, st)
                raise
            for cm in reversed(cms):
                self._cm_exit(cm, None, st)
            return
        if isinstance(st, (ast.Import, ast.ImportFrom, ast.Global, ast.Nonlocal)):
            return
        if isinstance(st, ast.Assert):
            if not self.truth(self.ev(st.test), st.test):
                raise Raised("AssertionError", st)
            return
        if isinstance(st, ast.FunctionDef):
            # a nested function: a closure over THIS environment (by reference, as in python); no decorators.  A nested generator
            # function is run eagerly when called (like module-level generators): the values it yields form the list it returns.
            if st.decorator_list:
                raise Unsupported("nested definition with decorators")
            outer, fnode = self, st

            def closure(*args, **kwargs):
                a = fnode.args
                names = [x.arg for x in a.posonlyargs + a.args]
                if len(args) > len(names) and a.vararg is None:
                    raise Raised("TypeError", fnode, "%s() takes %d positional arguments" % (fnode.name, len(names)))
                env = _ChainEnv(outer.env)
                for n_, d in zip(names[len(names) - len(a.defaults):], a.defaults):
                    env[n_] = outer.ev(d)
                for x, d in zip(a.kwonlyargs, a.kw_defaults):
                    if d is not None:
                        env[x.arg] = outer.ev(d)
                for n_, v in zip(names, args):
                    env[n_] = v
                if a.vararg is not None:
                    env[a.vararg.arg] = tuple(args[len(names):])
                extra = {}
                for k, v in kwargs.items():
                    if k in names or k in [x.arg for x in a.kwonlyargs]:
                        env[k] = v
                    elif a.kwarg is not None:
                        extra[k] = v
                    else:
                        raise Raised("TypeError", fnode, "%s() got an unexpected keyword argument %r" % (fnode.name, k))
                if a.kwarg is not None:
                    env[a.kwarg.arg] = extra
                missing = [n_ for n_ in names if n_ not in env.local]
                if missing:
                    raise Raised("TypeError", fnode, "%s() missing argument %s" % (fnode.name, missing[0]))
                sub = ModelEval(outer.tree, outer.fi, env, outer.hooks, outer.depth + 1, outer.shared)
                if _is_generator(fnode):
                    sub.yielded = []
                    sub.run_body(fnode.body)
                    return sub.yielded
                return sub.run_body(fnode.body)
            closure.__name__ = st.name
            self.env[st.name] = closure
            return
        if isinstance(st, ast.ClassDef):
            raise Unsupported("nested class definition")
        return super().exec_stmt(st)

    def _cm_enter(self, cm, node):
        if isinstance(cm, _GenCM):
            return cm.enter()
        if isinstance(cm, _Suppress):
            return cm.enter_result
        if isinstance(cm, PyObj):
            m = self.tree.method(cm._cls, "__enter__")
            if m is None:
                raise Raised("AttributeError", node, "__enter__")
            return self.invoke(m, [cm], {}, node)
        if isinstance(cm, Model) and hasattr(cm, "__enter__"):
            return cm.__enter__()
        return cm

    def _cm_exit(self, cm, exc, node):
        if isinstance(cm, _GenCM):
            return cm.exit(exc)
        if isinstance(cm, _Suppress):
            return exc is not None and exc_matches(exc.name, cm.names)
        if isinstance(cm, PyObj):
            m = self.tree.method(cm._cls, "__exit__")
            if m is None:
                raise Raised("AttributeError", node, "__exit__")
            a = [None, None, None] if exc is None else [Marker("exc", (exc.name,)), exc, None]
            r = self.invoke(m, [cm] + a, {}, node)
            return exc is not None and r is not None and self.truth(r, node)
        if isinstance(cm, Model) and hasattr(cm, "__exit__"):
            r = cm.__exit__(None, None, None) if exc is None else cm.__exit__(exc.name, exc, None)
            return exc is not None and bool(r)
        return False

    def handler_names(self, h):
        if h.type is None:
            return None
        out = []

        def add(v, e):
            if isinstance(v, (tuple, list)):
                # `except <expression>` where the expression evaluates to a tuple of classes (possibly empty: catches nothing)
                for x in v:
                    add(x, None)
            elif isinstance(v, Marker) and v.kind == "exc":
                out.append(v.data[0])
            elif isinstance(v, Marker) and v.kind == "ext":
                out.append(v.data[0].split(".")[-1])
            elif isinstance(v, Marker) and v.kind == "pkg" and hasattr(v.data[0], "name"):
                out.append(v.data[0].name)
            elif e is not None:
                out.append(norm(e).split(".")[-1])
            else:
                raise Unsupported("exception class %r in an except clause" % (v,))
        for e in (h.type.elts if isinstance(h.type, ast.Tuple) else [h.type]):
            add(self.ev(e), e)
        return out

    def assign(self, t, v):
        if isinstance(t, ast.Attribute):
            base = self.ev(t.value)
            if isinstance(base, PyObj):
                self.obj_setattr(base, t.attr, v, t)
                return
        if isinstance(t, ast.Subscript):
            base = self.ev(t.value)
            if isinstance(base, PyObj):
                m = self.tree.method(base._cls, "__setitem__")
                if m is None:
                    raise Raised("TypeError", t, "%s does not support item assignment" % base._cls.name)
                self.invoke(m, [base, self.ev_index(t.slice), v], {}, t)
                return
        if isinstance(t, ast.Starred):
            return self.assign(t.value, v)
        return super().assign(t, v)

    def bind(self, target, value):
        if isinstance(target, (ast.Tuple, ast.List)):
            vals = self.iterate(value, target)
            from .peval import _split_starred
            pairs = _split_starred(target.elts, vals)
            if pairs is None:
                raise Raised("ValueError", target, "cannot unpack %d values into %d targets" % (len(vals), len(target.elts)))
            for t, v in pairs:
                self.bind(t, v)
            return
        if isinstance(target, ast.Name):
            self.env[target.id] = value
            return
        self.assign(target, value)

    def ev_ListComp(self, node):
        out = []
        saved = dict(self.env)
        self._comp(node.generators, lambda: out.append(self.ev(node.elt)))
        self.env.clear()
        self.env.update(saved)
        return out

    def _comp(self, generators, emit):
        def rec(i):
            if i == len(generators):
                emit()
                return
            g = generators[i]
            for item in self.iterate(self.ev(g.iter), g.iter):
                self.bind(g.target, item)
                if all(self.truth(self.ev(c), c) for c in g.ifs):
                    rec(i + 1)
        rec(0)

    def ev_Lambda(self, node):
        outer = self

        def fn(*args, **kwargs):
            env = dict(outer.env)
            names = [a.arg for a in node.args.args]
            for n_, v in zip(names, args):
                env[n_] = v
            env.update(kwargs)
            sub = ModelEval(outer.tree, outer.fi, env, outer.hooks, outer.depth + 1, outer.shared)
            return sub.ev(node.body)
        return fn

    def ev_JoinedStr(self, node):
        parts = []
        for v in node.values:
            if isinstance(v, ast.Constant):
                parts.append(str(v.value))
            else:
                val = self.ev(v.value)
                spec = self.ev(v.format_spec) if v.format_spec else ""
                if v.conversion == 114:
                    val = repr(val)
                elif v.conversion == 115:
                    val = str(val)
                if isinstance(val, (str, int, float)) or (isinstance(val, Model) and type(val).__format__ is not object.__format__):
                    try:
                        parts.append(format(val, spec))
                    except (TypeError, ValueError) as e:
                        raise Raised(type(e).__name__, node, str(e))
                else:
                    parts.append("<%s>" % type(val).__name__)
        return "".join(parts)

    def ev_Starred(self, node):
        raise Unsupported("starred expression outside a call")


class _ChainEnv(dict):
    """the local names of a nested function on top of the enclosing function's environment (read through, written locally)"""

    def __init__(self, parent):
        super().__init__()
        self.parent = parent
        self.local = self

    def __missing__(self, k):
        return self.parent[k]

    def __contains__(self, k):
        return dict.__contains__(self, k) or k in self.parent

    def get(self, k, default=None):
        if dict.__contains__(self, k):
            return dict.__getitem__(self, k)
        return self.parent.get(k, default)


class _ModuleCtx:
    """Minimal stand-in for a FuncInfo when evaluating module-level constants."""

    def __init__(self, module):
        self.module = module
        self.cls = None
        self.node = ast.parse("def _(): pass").body[0]
        self.qual = module.rel + "::<module>"


def fold(tree, qual, args, kwargs=None, hooks=None, self_obj=None):
    """Interpret the package function / method `qual` on model arguments; returns (result, evaluator)."""
    fi = tree.func(qual)
    ev = ModelEval(tree, fi, {}, hooks or {})
    a = list(args)
    if self_obj is not None:
        a = [self_obj] + a
    return ev.invoke(fi, a, kwargs or {}, None), ev
