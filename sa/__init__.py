"""sa — static analysis of haugboel/osyris for the properties in /verif/properties.jsonl.

Nothing in this package imports or executes osyris, numpy, numba or pint: every
verdict is derived from the syntax trees of /repo's current source.
"""
