"""Run: obligation bookkeeping, VIOLATION / KNOWN-FINDING / ANALYSIS-ERROR lines, evidence and replay files."""
from __future__ import annotations

import json
import os
import sys
import time
import traceback

from .source import AnalysisError

VERIF = os.path.dirname(os.path.dirname(os.path.abspath(__file__)))
EVIDENCE_DIR = os.path.join(VERIF, "evidence")
REPLAY_DIR = os.path.join(EVIDENCE_DIR, "replay")
KNOWN_FILE = os.path.join(VERIF, "known_findings.json")

HOLDS, VIOLATED, UNRESOLVED = "holds", "violated", "unresolved"


class Ob:
    __slots__ = ("rule", "construct", "where", "status", "detail", "family", "nontrivial")

    def __init__(self, rule, construct, where, status, detail, family, nontrivial):
        self.rule, self.construct, self.where = rule, construct, where
        self.status, self.detail, self.family, self.nontrivial = status, detail, family, nontrivial

    def as_dict(self):
        d = {"rule": self.rule, "construct": self.construct, "where": self.where, "verdict": self.status}
        if self.detail:
            d["detail"] = self.detail
        if self.family and self.status != HOLDS:
            d["counterexample_family"] = self.family
        return d


class Run:
    def __init__(self, prop_id, tier="quick", seed=0, tree=None, quiet=False):
        self.prop_id = prop_id
        self.tier = tier
        self.seed = seed
        self.tree = tree
        self.quiet = quiet
        self.obs = []
        self.rules = {}  # rule id -> meta
        self.cur_rule = None
        self.t0 = time.time()
        self.functions = set()
        self.call_sites = 0
        self.assumptions = []
        self.extra = {}
        self.fatal = []

    # ------------------------------------------------------------ recording
    def rule(self, rid, title, domain="", oracle="", floor=0, undecided=""):
        self.rules[rid] = {"id": rid, "title": title, "domain": domain, "oracle": oracle, "floor": floor,
                           "instances": 0}
        self.cur_rule = rid

    def _add(self, ob):
        self.obs.append(ob)
        if ob.rule in self.rules:
            self.rules[ob.rule]["instances"] += 1

    def ob(self, construct, ok, where="", detail="", family="", nontrivial=True, rule=None):
        st = HOLDS if ok else VIOLATED
        self._add(Ob(rule or self.cur_rule, construct, where, st, detail, family, nontrivial))
        return bool(ok)

    def holds(self, construct, where="", detail="", nontrivial=True, rule=None):
        return self.ob(construct, True, where, detail, "", nontrivial, rule)

    def violated(self, construct, where="", detail="", family="", rule=None):
        return self.ob(construct, False, where, detail, family, True, rule)

    def unresolved(self, construct, where="", detail="", rule=None):
        self._add(Ob(rule or self.cur_rule, construct, where, UNRESOLVED, detail, "", True))

    def analysed(self, *fis):
        for fi in fis:
            self.functions.add(fi.qual if hasattr(fi, "qual") else str(fi))

    def assume(self, text):
        if text not in self.assumptions:
            self.assumptions.append(text)

    def check_floors(self):
        for rid, meta in self.rules.items():
            if meta["floor"] and meta["instances"] < meta["floor"]:
                self._add(Ob(rid, "instance-floor", "", UNRESOLVED,
                             "rule matched %d instances, fewer than the %d confirmed by hand: the rule would pass "
                             "vacuously" % (meta["instances"], meta["floor"]), "", True))

    def run_rule(self, fn, *args):
        """Run one rule function; an AnalysisError makes the rule unresolved, never a silent pass."""
        before = len(self.obs)
        try:
            fn(self, *args)
        except AnalysisError as e:
            self.unresolved("rule-aborted:%s" % fn.__name__, "", "%s: %s" % (type(e).__name__, e))
        except Exception as e:  # a bug in the checker: fail closed
            tb = traceback.format_exc()
            self.fatal.append("%s in %s: %s\n%s" % (type(e).__name__, fn.__name__, e, tb))
        return len(self.obs) - before

    # ------------------------------------------------------------ finishing
    def finish(self, explanation, undecided, trusted_base=(), write=True):
        self.check_floors()
        known = load_known()
        viol = [o for o in self.obs if o.status == VIOLATED]
        unres = [o for o in self.obs if o.status == UNRESOLVED]
        lines = []
        new_viol, known_hit = [], []
        seen_v = set()
        for o in viol:
            k = match_known(known, self.prop_id, o)
            if k is not None:
                known_hit.append((o, k))
            elif (o.rule, o.construct) not in seen_v:
                seen_v.add((o.rule, o.construct))
                new_viol.append(o)
        if write:
            os.makedirs(REPLAY_DIR, exist_ok=True)
            # remove stale replay files of this property
            for fn in os.listdir(REPLAY_DIR):
                if fn.startswith(self.prop_id + "-"):
                    os.remove(os.path.join(REPLAY_DIR, fn))
        seen_known = set()
        for o, k in known_hit:
            key = (o.rule, o.construct)
            if key in seen_known:
                continue
            seen_known.add(key)
            lines.append("KNOWN-FINDING: property=%s rule=%s %s at %s — %s" % (
                self.prop_id, o.rule, o.construct, o.where, k.get("what", o.detail)))
        for i, o in enumerate(new_viol):
            path = os.path.join(REPLAY_DIR, "%s-%d.json" % (self.prop_id, i))
            if write:
                with open(path, "w") as f:
                    json.dump({"property": self.prop_id, "tier": self.tier, **o.as_dict()}, f, indent=1)
            lines.append("VIOLATION property=%s replay=%s" % (self.prop_id, path))
            lines.append("  rule %s at %s: %s" % (o.rule, o.where, o.construct))
            if o.detail:
                lines.append("  %s" % o.detail)
            if o.family:
                lines.append("  counter-example family: %s" % o.family)
        for o in unres:
            lines.append("ANALYSIS-ERROR property=%s rule=%s %s at %s: %s" % (
                self.prop_id, o.rule, o.construct, o.where, o.detail))
        for msg in self.fatal:
            lines.append("ANALYSIS-ERROR property=%s checker-exception: %s" % (self.prop_id, msg.splitlines()[0]))
            sys.stderr.write(msg + "\n")
        if new_viol:
            code = 1
        elif unres or self.fatal:
            code = 2
        else:
            code = 0
        wall = time.time() - self.t0
        n_obs = len(self.obs)
        n_ok = sum(1 for o in self.obs if o.status == HOLDS)
        distinct = len({(o.rule, o.construct) for o in self.obs if o.nontrivial})
        samples = []
        per_rule = {}
        for o in self.obs:
            per_rule.setdefault(o.rule, []).append(o)
        for rid, obs in per_rule.items():
            bad = [o for o in obs if o.status != HOLDS]
            for o in (bad[:3] + [x for x in obs if x.status == HOLDS][:2]):
                samples.append(o.as_dict())
        ev = {
            "property_id": self.prop_id,
            "tier": self.tier,
            "seed": int(self.seed),
            "level": "other",
            "coverage": {
                "explanation": explanation,
                "not_decided": undecided,
                "obligations": n_obs,
                "discharged": n_ok,
                "unresolved": len(unres),
                "known_findings_reported": len(seen_known),
                "evaluations": n_obs,
                "distinct_nontrivial": distinct,
                "rule": "one evaluation = one obligation instance (rule x construct) examined on /repo's current "
                        "source; distinct_nontrivial counts distinct (rule, construct) pairs whose verdict required a "
                        "domain computation or path analysis rather than an anchor lookup",
                "rules": list(self.rules.values()),
                "functions_analysed": sorted(self.functions),
                "call_sites": self.call_sites,
                "samples": samples[:60],
                "exhaustive": False,
                "trusted_base": list(trusted_base),
                "checker_cmd": "./vcheck %s --tier %s" % (self.prop_id, self.tier),
                "source_digest": self.tree.digest(sorted(self.tree.consulted)) if self.tree else "",
                "modules_consulted": sorted(self.tree.consulted) if self.tree else [],
                **self.extra,
            },
            "assumptions": list(self.assumptions),
            "wall_s": round(wall, 3),
            "violations": len(new_viol),
        }
        if write:
            os.makedirs(EVIDENCE_DIR, exist_ok=True)
            with open(os.path.join(EVIDENCE_DIR, self.prop_id + ".json"), "w") as f:
                json.dump(ev, f, indent=1, default=str)
        if not self.quiet:
            print("%s [%s] %d obligations, %d discharged, %d violated (%d known), %d unresolved, %d rules, %.2fs" % (
                self.prop_id, self.tier, n_obs, n_ok, len(viol), len(known_hit), len(unres), len(self.rules), wall))
            for ln in lines:
                print(ln)
        self.exit_code = code
        self.lines = lines
        self.evidence = ev
        return code


def load_known():
    if not os.path.exists(KNOWN_FILE):
        return []
    with open(KNOWN_FILE) as f:
        data = json.load(f)
    return [e for e in data.get("findings", []) if e.get("status") == "known"]


def match_known(known, prop_id, ob):
    for k in known:
        props = k.get("properties") or [k.get("property")]
        if prop_id in props and k.get("rule") == ob.rule and k.get("construct") == ob.construct:
            return k
    return None
