"""D1 on reader state: symbolic interpretation of the byte-offset bookkeeping of the RAMSES readers.

self.offsets is modelled as a dict of polynomials (counts per type character + records seen 'n'); the byte position
and the counter effects of utils.read_binary_data / skip_binary_line are DERIVED by interpreting their bodies, not
hard-coded.  Loops with a symbolic trip count are summarised (the body effect must not depend on the iteration);
loops with a literal trip count are unrolled.
"""
from __future__ import annotations

import ast

from .peval import Evaluator, Model, Unsupported, ReturnValue, RaisedInModel
from .poly import Poly, Rat, S, C
from .source import norm, const_value, FuncInfo, ClassInfo, ModuleInfo, AnalysisError


class SymKey:
    """A dict key that is not a literal: the type character of a generic variable."""

    def __init__(self, name):
        self.name = name

    def __eq__(self, o):
        return isinstance(o, SymKey) and o.name == self.name

    def __hash__(self):
        return hash(("SymKey", self.name))

    def __repr__(self):
        return "<%s>" % self.name


class Fmt:
    """struct format string: mult items of type tchar; single = the string has length 1."""

    def __init__(self, mult, tchar, single):
        self.mult, self.tchar, self.single = mult, tchar, single

    def __repr__(self):
        return "Fmt(%r x %r)" % (self.mult, self.tchar)


class Opaque:
    def __init__(self, tag="?"):
        self.tag = tag

    def __repr__(self):
        return "Opaque(%s)" % self.tag


class Unpacked(Opaque):
    """Result of struct.unpack: destructuring binds fresh symbols named after the targets."""

    def __init__(self, event):
        super().__init__("unpacked")
        self.event = event


class SymDict(Model):
    """info/meta style dict of symbolic integers: d['ncpu'] -> symbol ncpu; stores are remembered."""

    def __init__(self, name, known=None):
        self.name = name
        self.store = dict(known or {})

    def __getitem__(self, k):
        if k in self.store:
            return self.store[k]
        if isinstance(k, str):
            return S(k)
        raise Unsupported("key %r of %s" % (k, self.name))

    def __setitem__(self, k, v):
        self.store[k] = v

    def get(self, k, default=None):
        return self[k]

    def __contains__(self, k):
        return True


class Obj(Model):
    """generic attribute bag (self of a reader)"""

    def __init__(self, cls=None, **kw):
        self._cls = cls
        for k, v in kw.items():
            setattr(self, k, v)


class Item(Model):
    """a generic entry of self.variables"""

    def __init__(self, read, tkey):
        self.d = {"read": read, "type": tkey, "buffer": Opaque("buffer"), "pieces": Opaque("pieces"), "unit": Opaque("unit")}

    def __getitem__(self, k):
        return self.d[k]

    def __setitem__(self, k, v):
        self.d[k] = v


class Variables(Model):
    """self.variables: nvar generic items (all read / all skipped according to the mode) + named AMR entries"""

    def __init__(self, read, tkey, named=()):
        self.read, self.tkey = read, tkey
        self.named = {k: Item(read, tkey) for k in named}
        self.generic = Item(read, tkey)

    def values(self):
        return SymIter(self.generic, S("nvar"), "ivar")

    def items(self):
        return SymIter((SymKey("varname"), self.generic), S("nvar"), "ivar")

    def __getitem__(self, k):
        if k in self.named:
            return self.named[k]
        return self.generic

    def __len__(self):
        raise Unsupported("len of symbolic variables")

    def __contains__(self, k):
        return True


class SymIter:
    """An iterable with a symbolic number of (identical, generic) elements."""

    def __init__(self, elem, count, index_name):
        self.elem, self.count, self.index_name = elem, count, index_name


class Event:
    def __init__(self, kind, pos, size, fmt, node, fi, skip_head, loops):
        self.kind, self.pos, self.size, self.fmt, self.node, self.fi = kind, pos, size, fmt, node, fi
        self.skip_head = skip_head
        self.site = None       # (FuncInfo, call node) of the outermost call site outside io/utils.py
        self.targets = []
        self.loops = list(loops)   # [(index symbol name, count)] enclosing summarised loops

    def __repr__(self):
        return "Event(%s pos=%r fmt=%r -> %s)" % (self.kind, self.pos, self.fmt, self.targets)


class OffsetEval(Evaluator):
    MAX_DEPTH = 6

    def __init__(self, tree, fi, env, shared):
        super().__init__(env)
        self.tree, self.fi = tree, fi
        self.sh = shared   # dict: events(list), decide(callable), loops(list), depth(int), fresh(counter)

    # ---------------------------------------------------------------- names / attributes
    def ev_Name(self, node):
        if node.id in self.env:
            return self.env[node.id]
        if node.id in ("len", "int", "float", "range", "str", "bool", "list", "enumerate", "zip", "print", "isinstance", "open", "super"):
            return ("builtin", node.id)
        if node.id in ("True", "False", "None"):
            return {"True": True, "False": False, "None": None}[node.id]
        r = self.tree.resolve_name(self.fi.module, node.id)
        if isinstance(r, (FuncInfo, ClassInfo, ModuleInfo)):
            return ("pkg", r)
        if isinstance(r, tuple) and r[0] == "ext":
            return ("ext", r[1])
        if isinstance(r, tuple) and r[0] == "value":
            return Opaque("global:" + node.id)
        raise Unsupported("name %s (line %d)" % (node.id, node.lineno))

    def constant(self, node):
        v = node.value
        if isinstance(v, bool) or v is None or isinstance(v, str):
            return v
        if isinstance(v, (int, float)):
            return C(v)
        return v

    def attr(self, node, base):
        a = node.attr
        if isinstance(base, tuple) and base[0] == "pkg" and isinstance(base[1], ModuleInfo):
            r = self.tree.resolve_name(base[1], a)
            if isinstance(r, (FuncInfo, ClassInfo, ModuleInfo)):
                return ("pkg", r)
            raise Unsupported("attribute %s of module %s" % (a, base[1].rel))
        if isinstance(base, tuple) and base[0] == "ext":
            return ("ext", base[1] + "." + a)
        if isinstance(base, Obj):
            if hasattr(base, a):
                return getattr(base, a)
            if base._cls is not None:
                m = self.tree.method(base._cls, a)
                if m is not None:
                    return ("bound", m, base)
            return Opaque("attr:" + a)
        if isinstance(base, str) and a == "format":
            return ("str.format", base)
        if isinstance(base, (dict,)) and a in ("items", "values", "keys", "update", "get"):
            return getattr(base, a)
        if isinstance(base, Unpacked):
            return base
        if isinstance(base, Opaque):
            return Opaque(base.tag + "." + a)
        if isinstance(base, tuple) and base[0] == "super":
            m = self.tree.method(base[1]._cls, a, after=base[2])
            if m is not None:
                return ("bound", m, base[1])
            raise Unsupported("super().%s" % a)
        if isinstance(base, Model):
            return super().attr(node, base)
        if isinstance(base, Poly):
            return Opaque("polyattr")
        raise Unsupported("attribute .%s on %r (line %d)" % (a, base, node.lineno))

    def subscript(self, node, base, index):
        if isinstance(base, Fmt):
            if isinstance(index, slice):
                return ("fmt-prefix", base)
            if isinstance(index, Poly) and index == C(-1):
                return base.tchar
            raise Unsupported("format index")
        if isinstance(base, dict):
            if isinstance(index, Poly) and index.is_const():
                index = int(index.const_value())
            if index in base:
                return base[index]
            if isinstance(index, SymKey):
                return S("bs[%s]" % index.name) if all(isinstance(v, Poly) for v in base.values()) and "i" in base and "d" in base else Opaque("?")
            raise Unsupported("key %r not in dict (line %d)" % (index, node.lineno))
        if isinstance(base, Unpacked):
            return base
        if isinstance(base, Opaque):
            return Opaque(base.tag + "[]")
        if isinstance(base, (SymDict, Item, Variables, OffDict)):
            return base[index]
        if isinstance(base, str):
            if isinstance(index, slice):
                lo = int(index.start.const_value()) if isinstance(index.start, Poly) else index.start
                hi = index.stop
                if isinstance(hi, Poly):
                    if hi.is_const():
                        hi = int(hi.const_value())
                    else:
                        return Opaque("strslice")
                return base[lo:hi]
            if isinstance(index, Poly) and index.is_const():
                return base[int(index.const_value())]
            return Opaque("strindex")
        if isinstance(base, (list, tuple)):
            if isinstance(index, Poly) and index.is_const():
                return base[int(index.const_value())]
        if isinstance(base, Poly):
            return Opaque("polyindex")
        raise Unsupported("subscript on %r (line %d)" % (base, node.lineno))

    def ev_index(self, s):
        if isinstance(s, ast.Slice):
            return slice(self.ev(s.lower) if s.lower else None, self.ev(s.upper) if s.upper else None, None)
        if isinstance(s, ast.Tuple):
            return tuple(self.ev_index(e) for e in s.elts)
        return self.ev(s)

    # ---------------------------------------------------------------- operators
    def binop(self, node, op, a, b):
        for x in (a, b):
            if isinstance(x, Unpacked):
                return x
        if isinstance(a, Opaque) or isinstance(b, Opaque):
            return Opaque("arith")
        if isinstance(a, str) or isinstance(b, str):
            if isinstance(op, ast.Add) and isinstance(a, str) and isinstance(b, str):
                return a + b
            return Opaque("strop")
        if isinstance(op, ast.Div) and isinstance(a, Poly) and isinstance(b, Poly) and not b.is_const():
            return Opaque("div")
        if isinstance(op, ast.Pow) and isinstance(a, Poly) and isinstance(b, Poly) and not b.is_const():
            if a.is_const() and a.const_value() == 2:
                return S("2**(%r)" % b)
            return Opaque("pow")
        if isinstance(op, (ast.FloorDiv, ast.Mod)):
            return Opaque("intdiv")
        return super().binop(node, op, a, b)

    def compare(self, node, op, a, b):
        if isinstance(op, (ast.Is, ast.IsNot)):
            r = a is b if not (a is None or b is None) else (a is None and b is None)
            return r if isinstance(op, ast.Is) else not r
        if isinstance(a, Poly) and isinstance(b, Poly):
            if a.is_const() and b.is_const():
                return super().compare(node, op, a.const_value(), b.const_value())
            if isinstance(op, (ast.Eq, ast.NotEq)) and a == b:
                return isinstance(op, ast.Eq)
            d = self.sh["decide"](norm(node), node)
            if d is None:
                return Opaque("cmp:" + norm(node))
            return d
        if isinstance(op, (ast.In, ast.NotIn)):
            try:
                r = a in b
            except Exception:
                raise Unsupported("membership %s" % norm(node))
            return r if isinstance(op, ast.In) else not r
        if isinstance(a, (str, bool, type(None))) and isinstance(b, (str, bool, type(None))):
            return super().compare(node, op, a, b)
        d = self.sh["decide"](norm(node), node)
        if d is None:
            return Opaque("cmp:" + norm(node))
        return d

    def truth(self, v, node=None):
        if isinstance(v, bool) or v is None:
            return bool(v)
        if isinstance(v, Poly) and v.is_const():
            return v.const_value() != 0
        if node is not None:
            d = self.sh["decide"](norm(node), node)
            if d is not None:
                return d
        raise Unsupported("undecided truth of %r%s" % (v, " at `%s`" % norm(node) if node is not None else ""))

    # ---------------------------------------------------------------- calls
    def ev_Call(self, node):
        func = self.ev(node.func)
        args = self.ev_seq(node.args)
        kwargs = {}
        for k in node.keywords:
            if k.arg is None:
                v = self.ev(k.value)
                if isinstance(v, dict):
                    kwargs.update(v)
            else:
                kwargs[k.arg] = self.ev(k.value)
        return self.call(node, func, args, kwargs)

    def call(self, node, func, args, kwargs):
        if isinstance(func, tuple):
            k = func[0]
            if k == "builtin":
                n = func[1]
                if n == "len":
                    a = args[0]
                    if isinstance(a, Fmt):
                        return C(1) if a.single else C(2)  # "at least 2": only ever compared with 1
                    if isinstance(a, str):
                        return C(len(a))
                    if isinstance(a, Variables):
                        return S("nvar")
                    if isinstance(a, (list, tuple, dict)):
                        return C(len(a))
                    return Opaque("len")
                if n == "int":
                    a = args[0]
                    if isinstance(a, tuple) and a[0] == "fmt-prefix":
                        return a[1].mult
                    if isinstance(a, Poly):
                        return a
                    if isinstance(a, str) and a.isdigit():
                        return C(int(a))
                    return Opaque("int")
                if n == "float":
                    return args[0] if isinstance(args[0], Poly) else Opaque("float")
                if n == "range":
                    if len(args) == 1:
                        return ("range", C(0), args[0])
                    return ("range", args[0], args[1])
                if n == "super":
                    selfv = self.env.get("self")
                    return ("super", selfv, self.fi.cls)
                if n in ("print", "open", "isinstance", "str", "bool", "list", "enumerate", "zip"):
                    if n == "isinstance":
                        d = self.sh["decide"](norm(node), node)
                        if d is None:
                            raise Unsupported("undecided isinstance")
                        return d
                    return Opaque(n)
            if k == "str.format":
                tmpl = func[1]
                if tmpl == "{}{}" and len(args) == 2:
                    return Fmt(args[0], args[1], False)
                if len(tmpl) == 3 and tmpl.startswith("{}") and len(args) == 1:
                    return Fmt(args[0], tmpl[-1], False)
                return Opaque("formatted")
            if k == "ext":
                name = func[1]
                if name == "struct.unpack":
                    return self.unpack(node, args)
                for x in list(args) + list(kwargs.values()):
                    if isinstance(x, Unpacked):
                        return x
                return Opaque(name)
            if k == "pkg":
                target = func[1]
                if isinstance(target, FuncInfo):
                    return self.invoke(target, None, args, kwargs, node)
                return Opaque("ctor:" + getattr(target, "name", "?"))
            if k == "bound":
                return self.invoke(func[1], func[2], args, kwargs, node)
        if isinstance(func, Unpacked):
            return func
        if isinstance(func, Opaque):
            return Opaque(func.tag + "()")
        if callable(func):
            try:
                return func(*args, **kwargs)
            except TypeError as e:
                raise Unsupported(str(e))
        raise Unsupported("call %s (line %d)" % (norm(node.func), node.lineno))

    def invoke(self, callee, selfv, args, kwargs, node):
        if self.sh["depth"] >= self.MAX_DEPTH:
            raise Unsupported("call depth")
        a = callee.node.args
        names = [x.arg for x in a.posonlyargs + a.args]
        env = {}
        if selfv is not None and names:
            env[names[0]] = selfv
            names = names[1:]
        for n_, v in zip(names, args):
            env[n_] = v
        for k, v in kwargs.items():
            env[k] = v
        sub = OffsetEval(self.tree, callee, env, self.sh)
        defaults = a.defaults
        dn = names[len(names) - len(defaults):] if defaults else []
        for n_, d in zip(dn, defaults):
            if n_ not in env:
                env[n_] = sub.ev(d)
        self.sh["depth"] += 1
        self.sh["functions"].add(callee.qual)
        self.sh["stack"].append((self.fi, node))
        try:
            return sub.run_body(callee.node.body)
        finally:
            self.sh["depth"] -= 1
            self.sh["stack"].pop()

    def unpack(self, node, args):
        fmt, content = args[0], args[1]
        if not isinstance(fmt, Fmt):
            if isinstance(fmt, str) and fmt:
                fmt = Fmt(C(int(fmt[:-1])) if len(fmt) > 1 else C(1), fmt[-1], len(fmt) == 1)
            else:
                raise Unsupported("struct.unpack format %r" % (fmt,))
        if not (isinstance(content, tuple) and content[0] == "slice"):
            raise Unsupported("struct.unpack does not read a slice of the content")
        ev = Event("read", content[1], content[2] - content[1], fmt, node, self.fi, None, self.sh["loops"])
        for cf, cn in self.sh["stack"]:
            if cn is not None and cf is not None and cf.module.rel != "io/utils.py":
                ev.site = (cf, cn)
        self.sh["events"].append(ev)
        return Unpacked(ev)

    # content[offset : offset + size]
    def ev_Subscript(self, node):
        base = self.ev(node.value)
        if isinstance(base, Opaque) and base.tag == "bytes" and isinstance(node.slice, ast.Slice):
            lo = self.ev(node.slice.lower)
            hi = self.ev(node.slice.upper)
            return ("slice", lo, hi)
        return self.subscript(node, base, self.ev_index(node.slice))

    # ---------------------------------------------------------------- statements
    def ev_Constant(self, node):
        return self.constant(node)

    def exec_stmt(self, st):
        if isinstance(st, ast.For):
            it = self.ev(st.iter)
            if isinstance(it, tuple) and it[0] == "range":
                lo, hi = it[1], it[2]
                n = hi - lo if isinstance(hi, Poly) and isinstance(lo, Poly) else None
                if n is not None and n.is_const() and int(n.const_value()) <= 16:
                    for k in range(int(n.const_value())):
                        self.bind(st.target, lo + k)
                        self.sh["unroll"].append(k)
                        try:
                            self.exec_block(st.body)
                        finally:
                            self.sh["unroll"].pop()
                    return
                if n is None:
                    raise Unsupported("loop bounds %r" % (it,))
                name = st.target.id if isinstance(st.target, ast.Name) else "it"
                return self.summarise_loop(st, S(name), n, lambda: self.bind(st.target, S(name) + lo))
            if isinstance(it, SymIter):
                return self.summarise_loop(st, S(it.index_name), it.count, lambda: self.bind(st.target, it.elem))
            if isinstance(it, (list, tuple)) and not (isinstance(it, tuple) and it and it[0] in ("range",)):
                for x in it:
                    self.bind(st.target, x)
                    self.exec_block(st.body)
                return
            if isinstance(it, dict):
                for x in list(it):
                    self.bind(st.target, x)
                    self.exec_block(st.body)
                return
            if isinstance(it, str):
                for ch in it:
                    self.bind(st.target, ch)
                    self.exec_block(st.body)
                return
            if isinstance(it, OffDict):
                it = it.keys()
            if isinstance(it, OffDictKeys):
                for x in it.keys:
                    self.bind(st.target, x)
                    self.exec_block(st.body)
                return
            raise Unsupported("loop over %r (line %d)" % (it, st.lineno))
        if isinstance(st, ast.With):
            self.exec_block(st.body)
            return
        if isinstance(st, ast.Try):
            self.exec_block(st.body)
            return
        return super().exec_stmt(st)

    def offsets_state(self):
        return self.sh["offsets"]

    def summarise_loop(self, st, idx, count, bind):
        """Body effect must be iteration independent: state after = state before + count * delta."""
        off = self.sh["offsets"]
        before = off.snapshot()
        bind()
        self.sh["loops"].append((next(iter(idx.symbols())), count))
        n_ev = len(self.sh["events"])
        try:
            self.exec_block(st.body)
        finally:
            self.sh["loops"].pop()
        delta = off.diff(before)
        name = next(iter(idx.symbols()))
        for k, d in delta.items():
            if name in d.symbols():
                raise Unsupported("loop body effect depends on the iteration (line %d)" % st.lineno)
        # events recorded in the body were positioned for iteration 0: shift by idx * (byte delta)
        byte_delta = off.bytes_of(delta)
        for e in self.sh["events"][n_ev:]:
            e.pos = e.pos + idx * byte_delta
        off.restore(before)
        for k, d in delta.items():
            off.add(k, count * d)

    def assign(self, t, v):
        if isinstance(v, Unpacked):
            names = [norm(e) for e in t.elts] if isinstance(t, (ast.List, ast.Tuple)) else [norm(t)]
            if not v.event.targets:
                v.event.targets = names
            if isinstance(t, (ast.List, ast.Tuple)):
                for e in t.elts:
                    self.assign(e, self.fresh_symbol(norm(e)))
                return
        if isinstance(t, ast.Subscript):
            base = self.ev(t.value)
            if isinstance(base, OffDict):
                key = self.ev_index(t.slice)
                base.set(key, v)
                return
            if isinstance(base, (SymDict, Item)):
                base[self.ev_index(t.slice)] = v
                return
            if isinstance(base, dict):
                base[self.ev_index(t.slice)] = v
                return
            if isinstance(base, Opaque) or isinstance(base, Poly):
                self.ev_index(t.slice)
                return
            raise Unsupported("subscript store on %r" % (base,))
        if isinstance(t, ast.Attribute):
            base = self.ev(t.value)
            if isinstance(base, Obj):
                setattr(base, t.attr, v)
                return
            if isinstance(base, Opaque):
                return
        return super().assign(t, v)

    def fresh_symbol(self, text):
        name = text
        for a, b in (("self.meta['", ""), ("info['", ""), ("']", ""), ("self.", "")):
            name = name.replace(a, b)
        if self.sh["unroll"]:
            name = "%s#%s" % (name, ".".join(map(str, self.sh["unroll"])))
        return S(name)

    def exec_aug(self, st):
        pass

    def ev_UnaryOp(self, node):
        v = self.ev(node.operand)
        if isinstance(v, Opaque):
            return Opaque("unary")
        return super().ev_UnaryOp(node)

    def bind(self, target, value):
        if isinstance(target, (ast.Tuple, ast.List)) and not isinstance(value, (tuple, list)):
            for e in target.elts:
                self.bind(e, Opaque("unpacked-elem"))
            return
        return super().bind(target, value)


class OffDictKeys:
    def __init__(self, keys):
        self.keys = keys


class OffDict(Model):
    """self.offsets: literal type characters -> polynomial counts, plus symbolic keys."""

    def __init__(self, keys="bidnsql"):
        self.d = {k: Poly() for k in keys}

    def __getitem__(self, k):
        k = self.norm_key(k)
        if k not in self.d:
            if isinstance(k, SymKey):
                self.d[k] = Poly()
            else:
                raise Unsupported("offsets has no key %r" % (k,))
        return self.d[k]

    def norm_key(self, k):
        return k

    def set(self, k, v):
        if not isinstance(v, Poly):
            raise Unsupported("offsets[%r] assigned a non-numeric value %r" % (k, v))
        k = self.norm_key(k)
        if not isinstance(k, (str, SymKey)):
            raise Unsupported("offsets key %r" % (k,))
        self.d[k] = v

    def add(self, k, v):
        self.d[k] = self.d.get(k, Poly()) + v

    def __iter__(self):
        return iter(list(self.d))

    def keys(self):
        return OffDictKeys(list(self.d))

    def update(self, other):
        if isinstance(other, dict):
            for k, v in other.items():
                self.d[k] = v if isinstance(v, Poly) else C(v)
        elif isinstance(other, OffDict):
            self.d.update(other.d)
        else:
            raise Unsupported("offsets.update(%r)" % (other,))

    def snapshot(self):
        return dict(self.d)

    def restore(self, snap):
        self.d = dict(snap)

    def diff(self, before):
        out = {}
        for k in set(self.d) | set(before):
            dlt = self.d.get(k, Poly()) - before.get(k, Poly())
            if dlt.t:
                out[k] = dlt
        return out

    def bytes_of(self, delta, sizes=None):
        from .specs.ramses_layout import SIZE
        tot = Poly()
        for k, v in delta.items():
            if isinstance(k, SymKey):
                tot = tot + v * S("bs[%s]" % k.name)
            elif k == "n":
                tot = tot + v * 8
            else:
                tot = tot + v * SIZE[k]
        return tot

    def position(self):
        return self.bytes_of(self.d)


def new_shared(decide=None):
    return {"events": [], "decide": decide or (lambda text, node: None), "loops": [], "depth": 0, "unroll": [],
            "offsets": None, "functions": set(), "stack": []}


def make_reader(tree, cls_qual, read_mode, decide=None, named_vars=("level", "cpu", "dx", "position_x", "position_y", "position_z")):
    ci = tree.cls(cls_qual)
    sh = new_shared(decide)
    off = OffDict()
    sh["offsets"] = off
    selfv = Obj(ci, offsets=off, meta=SymDict("meta"), bytes=Opaque("bytes"), initialized=True,
                variables=Variables(read_mode, SymKey("T"), named_vars), kind="mesh")
    for a in ("xg", "son", "ref", "xcent"):
        setattr(selfv, a, Opaque(a))
    return ci, selfv, sh


def run_method(tree, ci, selfv, sh, mname, args):
    m = tree.method(ci, mname)
    if m is None:
        raise AnalysisError("method %s not found on %s" % (mname, ci.qual))
    ev = OffsetEval(tree, m, {}, sh)
    sh["functions"].add(m.qual)
    return m, ev.invoke(m, selfv, args, {}, None)
