"""D1 x D6: symbolic execution of small osyris methods over *physical quantities*.

Abstract values
  NumV(r)                raw numbers (ndarray / float) with value r (Rat over symbols)
  UnitV(scale, dim)      a pint Unit: scale (Rat, relative to the base unit of its dimension) and dimension exponent dict
  ArrayV(vals, unit)     osyris Array; its physical value is vals*unit.scale (in base units of unit.dim)
  VectorV(comps)         osyris Vector: ordered dict of component ArrayV
osyris semantics modelled (from core/array.py as verified by C02.R1-R3): a*b and a/b convert b to a's unit when the
dimensions agree, otherwise multiply the units; a+b, a-b convert b to a's unit and raise if the dimensions differ;
a.to(u) rescales; .values is the raw number in the Array's own unit.
"""
from __future__ import annotations

import ast

from .peval import Evaluator, Unsupported
from .poly import Poly, Rat, S, Fn
from .source import norm, const_value


def R(x):
    if isinstance(x, Rat):
        return x
    if isinstance(x, Poly):
        return Rat(x)
    return Rat(Poly.const(x))


class NumV:
    def __init__(self, r, fn=None):
        self.r = R(r)
        self.fn = fn  # uninterpreted function applied (e.g. sqrt) -> Fn

    def __repr__(self):
        return "Num(%r)" % (self.fn if self.fn is not None else self.r)


class UnitV:
    def __init__(self, scale, dim):
        self.scale = R(scale)
        self.dim = {k: v for k, v in dim.items() if v != 0}

    def __mul__(self, o):
        d = dict(self.dim)
        for k, v in o.dim.items():
            d[k] = d.get(k, 0) + v
        return UnitV(self.scale * o.scale, d)

    def __truediv__(self, o):
        d = dict(self.dim)
        for k, v in o.dim.items():
            d[k] = d.get(k, 0) - v
        return UnitV(self.scale / o.scale, d)

    def __pow__(self, n):
        return UnitV(self.scale ** n, {k: v * n for k, v in self.dim.items()})

    def __eq__(self, o):
        return isinstance(o, UnitV) and self.same(o)

    def __ne__(self, o):
        return not self.__eq__(o)

    def __hash__(self):
        return 0

    def same(self, o):
        return self.dim == o.dim and self.scale == o.scale

    def __repr__(self):
        return "Unit(%r,%r)" % (self.scale, self.dim)


DIMLESS = UnitV(1, {})


class ArrayV:
    def __init__(self, vals, unit, fn=None):
        self.vals = R(vals)
        self.unit = unit
        self.fn = fn

    def phys(self):
        return self.vals * self.unit.scale

    def __repr__(self):
        return "Array(%r %r)" % (self.fn if self.fn is not None else self.vals, self.unit)


class VectorV:
    def __init__(self, comps, name=None):
        self.comps = comps  # dict name -> ArrayV (ordered)
        self.name = name

    def __repr__(self):
        return "Vector(%r)" % self.comps


class QError(Unsupported):
    pass


class DimError(Exception):
    """models pint.DimensionalityError"""


def arr_mul(a, b, div=False):
    if a.unit.dim == b.unit.dim and a.unit.dim:
        bv = b.vals * b.unit.scale / a.unit.scale
        bu = a.unit
    elif a.unit.dim == b.unit.dim:  # both dimensionless: conversion between scales
        bv = b.vals * b.unit.scale / a.unit.scale
        bu = a.unit
    else:
        bv, bu = b.vals, b.unit
    if div:
        return ArrayV(a.vals / bv, a.unit / bu)
    return ArrayV(a.vals * bv, a.unit * bu)


def arr_add(a, b, sign=1):
    if a.unit.dim != b.unit.dim:
        raise DimError()
    bv = b.vals * b.unit.scale / a.unit.scale
    return ArrayV(a.vals + sign * bv, a.unit)


def as_array(x):
    if isinstance(x, ArrayV):
        return x
    if isinstance(x, NumV):
        return ArrayV(x.r, DIMLESS)
    if isinstance(x, (int, float)):
        return ArrayV(R(x), DIMLESS)
    raise QError("cannot coerce %r to an Array" % (x,))


class QEval(Evaluator):
    def __init__(self, tree, fi, env):
        super().__init__(env)
        self.tree, self.fi = tree, fi
        self.notes = []

    # ------------------------------------------------------------------ names
    def ev_Name(self, node):
        if node.id in self.env:
            return self.env[node.id]
        if node.id == "None":
            return None
        if node.id in ("zip", "len", "float", "abs", "sum", "range", "isinstance", "getattr"):
            return ("builtin", node.id)
        r = self.tree.resolve_name(self.fi.module, node.id)
        if hasattr(r, "qual"):
            return ("obj", r.qual)
        if isinstance(r, tuple) and r[0] == "value":
            return ("units-factory",)
        if isinstance(r, tuple) and r[0] == "ext":
            return ("ext", r[1])
        raise Unsupported("name %s" % node.id)

    # ------------------------------------------------------------------ attributes
    def attr(self, node, base):
        a = node.attr
        if isinstance(base, VectorV):
            if a in ("x", "y", "z"):
                return base.comps.get(a)
            if a == "_xyz":
                return dict(base.comps)
            if a == "unit":
                return base.comps["x"].unit
            if a == "__class__":
                return ("obj", "core/vector.py::Vector")
            if a == "nvec":
                return len(base.comps)
            if a in ("name", "_name"):
                return ("name", base.name)
            if a == "shape":
                return ("shape",)
            if a == "norm":
                return self.vector_norm(base)
            if a in ("dot", "cross"):
                return ("vmethod", a, base)
            if a == "values":
                raise QError("Vector has no .values")
        if isinstance(base, ArrayV):
            if a in ("values", "_array", "magnitude"):
                return NumV(base.vals, base.fn)
            if a in ("unit", "_unit", "units"):
                return base.unit
            if a == "shape":
                return ("shape",)
            if a == "name":
                return ("name", None)
            if a == "to":
                return ("a.to", base)
            if a == "__class__":
                return ("obj", "core/array.py::Array")
            if a == "norm":
                return base
            if a == "copy":
                return ("id", base)
        if isinstance(base, dict):
            if a == "values":
                return ("d.values", base)
            if a == "items":
                return ("d.items", base)
            if a == "keys":
                return ("d.keys", base)
        if isinstance(base, NumV) and a == "copy":
            return ("id", base)
        if isinstance(base, NumV) and a == "shape":
            return ("shape",)
        if isinstance(base, tuple) and base[0] == "ext":
            return ("ext", base[1] + "." + a)
        if isinstance(base, tuple) and base[0] == "name":
            raise Unsupported("attribute of a name")
        raise Unsupported("attribute .%s on %r" % (a, base))

    def vector_norm(self, v):
        comps = list(v.comps.values())
        if len(comps) == 1:
            return comps[0]
        tot = R(0)
        for c in comps:
            tot = tot + c.vals * c.vals
        return ArrayV(R(0), comps[0].unit, fn=Fn("sqrt", tot))

    # ------------------------------------------------------------------ operators
    def binop(self, node, op, a, b):
        num = (int, float)
        if isinstance(a, num) and isinstance(b, num):
            return super().binop(node, op, a, b)
        # unit algebra
        if isinstance(a, UnitV) and isinstance(b, UnitV):
            if isinstance(op, ast.Mult):
                return a * b
            if isinstance(op, ast.Div):
                return a / b
        if isinstance(a, UnitV) and isinstance(b, num) and isinstance(op, ast.Pow):
            return a ** b
        if isinstance(a, num) and isinstance(b, UnitV) and isinstance(op, ast.Mult):
            return ArrayV(R(a), b)  # a Quantity, modelled like an Array
        # raw numbers
        if isinstance(a, (NumV,) + num) and isinstance(b, (NumV,) + num):
            ar = a.r if isinstance(a, NumV) else R(a)
            br = b.r if isinstance(b, NumV) else R(b)
            if (isinstance(a, NumV) and a.fn is not None) or (isinstance(b, NumV) and b.fn is not None):
                raise QError("arithmetic on an uninterpreted function value")
            if isinstance(op, ast.Add):
                return NumV(ar + br)
            if isinstance(op, ast.Sub):
                return NumV(ar - br)
            if isinstance(op, ast.Mult):
                return NumV(ar * br)
            if isinstance(op, ast.Div):
                return NumV(ar / br)
            if isinstance(op, ast.Pow) and isinstance(b, num):
                return NumV(ar ** b)
        # Array / Vector arithmetic (osyris semantics)
        if isinstance(a, VectorV) or isinstance(b, VectorV):
            return self.vec_binop(node, op, a, b)
        if isinstance(a, ArrayV) or isinstance(b, ArrayV):
            try:
                A, B = as_array(a), as_array(b)
            except QError:
                raise
            if A.fn is not None or B.fn is not None:
                raise QError("arithmetic on an uninterpreted function value")
            if isinstance(op, ast.Mult):
                if isinstance(a, ArrayV):
                    return arr_mul(A, B)
                return arr_mul(B, A)  # __rmul__: self * other
            if isinstance(op, ast.Div):
                if isinstance(a, ArrayV):
                    return arr_mul(A, B, div=True)
                q = arr_mul(B, A, div=True)  # reciprocal(self / other)
                return ArrayV(1 / q.vals, DIMLESS / q.unit)
            if isinstance(op, (ast.Add, ast.Sub)):
                sign = 1 if isinstance(op, ast.Add) else -1
                if isinstance(a, ArrayV):
                    return arr_add(A, B, sign)
                raise QError("number %s Array has no reflected operator" % type(op).__name__)
            if isinstance(op, ast.Pow) and isinstance(b, num):
                return ArrayV(A.vals ** b, A.unit ** b)
        raise Unsupported("operator in %s with %r, %r" % (norm(node), a, b))

    def vec_binop(self, node, op, a, b):
        if isinstance(a, VectorV):
            if isinstance(b, VectorV):
                if len(a.comps) != len(b.comps):
                    raise QError("component count mismatch")
                return VectorV({k: self.binop(node, op, a.comps[k], b.comps[k]) for k in a.comps})
            return VectorV({k: self.binop(node, op, a.comps[k], b) for k in a.comps})
        # number/Array (op) Vector: reflected forms
        if isinstance(op, ast.Mult):
            return VectorV({k: self.binop(node, op, b.comps[k], a) for k in b.comps})
        if isinstance(op, ast.Add):
            return VectorV({k: self.binop(node, op, b.comps[k], a) for k in b.comps})
        raise Unsupported("reflected operator on Vector")

    def ev_UnaryOp(self, node):
        v = self.ev(node.operand)
        if isinstance(node.op, ast.USub):
            if isinstance(v, NumV):
                return NumV(-v.r)
            if isinstance(v, ArrayV):
                return ArrayV(-v.vals, v.unit)
            if isinstance(v, VectorV):
                return VectorV({k: ArrayV(-c.vals, c.unit) for k, c in v.comps.items()})
        return super().ev_UnaryOp(node)

    def compare(self, node, op, a, b):
        if isinstance(op, (ast.Is, ast.IsNot)):
            r = (a is None and b is None) if (a is None or b is None) else (a is b)
            return r if isinstance(op, ast.Is) else not r
        if isinstance(a, NumV) and isinstance(b, (int, float)) and isinstance(op, (ast.Eq, ast.NotEq)):
            # value == 0 : decided by the mode table of the caller
            key = ("zero?", repr(a.r))
            if key in self.env:
                z = self.env[key]
                return z if isinstance(op, ast.Eq) else not z
            raise QError("undecided test %s" % norm(node))
        return super().compare(node, op, a, b)

    # ------------------------------------------------------------------ calls
    def ev_func(self, node):
        return self.ev(node)

    def call(self, node, func, args, kwargs):
        if isinstance(func, tuple):
            k = func[0]
            if k == "builtin":
                n = func[1]
                if n == "zip":
                    return list(zip(*[list(a) for a in args]))
                if n == "len":
                    return len(args[0])
                if n == "float":
                    return args[0]
                if n == "range":
                    return list(range(*args))
                if n == "getattr" and isinstance(args[0], VectorV):
                    return args[0].comps.get(args[1])
                if n == "sum":
                    tot = None
                    for x in args[0]:
                        tot = x if tot is None else self.binop(node, ast.Add(), tot, x)
                    return tot
            if k == "d.values":
                return list(func[1].values())
            if k == "d.items":
                return list(func[1].items())
            if k == "d.keys":
                return list(func[1].keys())
            if k == "id":
                return func[1]
            if k == "a.to":
                a = func[1]
                u = args[0]
                if isinstance(u, UnitV):
                    if u.dim != a.unit.dim:
                        raise DimError()
                    return ArrayV(a.vals * a.unit.scale / u.scale, u)
                raise QError("to(%r)" % (u,))
            if k == "units-factory":
                if isinstance(args[0], UnitV):
                    return args[0]
                raise QError("units(%r)" % (args[0],))
            if k == "obj":
                q = func[1]
                if q.endswith("::Array"):
                    vals = kwargs.get("values", args[0] if args else None)
                    unit = kwargs.get("unit", args[1] if len(args) > 1 else None)
                    if unit is None:
                        unit = DIMLESS
                    if isinstance(vals, NumV) and isinstance(unit, UnitV):
                        return ArrayV(vals.r, unit, fn=vals.fn)
                    if isinstance(vals, (int, float)) and isinstance(unit, UnitV):
                        return ArrayV(R(vals), unit)
                    raise QError("Array(%r, %r)" % (vals, unit))
                if q.endswith("::Vector"):
                    return self.make_vector(args, kwargs)
                callee = self.tree.func(q) if "::" in q and not q.split("::")[1][0].isupper() else None
                if callee is not None:
                    return self.call_function(callee, args, kwargs)
            if k == "vmethod":
                m, recv = func[1], func[2]
                callee = self.tree.func("core/vector.py::Vector." + m)
                return self.call_function(callee, [recv] + list(args), kwargs)
            if k == "ext":
                name = func[1]
                if name in ("numpy.sqrt", "math.sqrt"):
                    x = args[0]
                    if isinstance(x, NumV):
                        return NumV(R(0), fn=Fn("sqrt", x.r))
                if name in ("numpy.zeros", "numpy.zeros_like"):
                    return NumV(R(0))
                if name in ("numpy.asarray", "numpy.array", "numpy.float64"):
                    return args[0]
                if name in ("numpy.abs", "numpy.absolute"):
                    self.notes.append("abs")
                    return args[0]
        raise Unsupported("call %s" % norm(node.func))

    def make_vector(self, args, kwargs):
        names = ["x", "y", "z"]
        vals = dict(zip(names, args))
        unit = kwargs.get("unit")
        for k in names:
            if k in kwargs:
                vals[k] = kwargs[k]
        comps = {}
        for k in names:
            v = vals.get(k)
            if v is None:
                continue
            if isinstance(v, ArrayV):
                if unit is not None:
                    raise QError("unit given with Array components")
                comps[k] = v
            elif isinstance(v, NumV):
                comps[k] = ArrayV(v.r, unit if isinstance(unit, UnitV) else DIMLESS, fn=v.fn)
            elif isinstance(v, (int, float)):
                comps[k] = ArrayV(R(v), unit if isinstance(unit, UnitV) else DIMLESS)
            else:
                raise QError("Vector component %r" % (v,))
        # constructor validation: all Array components must share the unit of x
        us = [c.unit for c in comps.values()]
        if any(not u.same(us[0]) for u in us[1:]):
            raise QError("Vector built from components with different units")
        return VectorV(comps, kwargs.get("name"))

    # ------------------------------------------------------------------ statements
    def call_function(self, callee, args, kwargs, depth=0):
        a = callee.node.args
        names = [x.arg for x in a.args]
        env = {}
        for n_, v in zip(names, args):
            env[n_] = v
        for k, v in kwargs.items():
            env[k] = v
        defaults = a.defaults
        for n_, d in zip(names[len(names) - len(defaults):], defaults):
            if n_ not in env:
                env[n_] = const_value(d)
        for key, val in self.env.items():
            if isinstance(key, tuple):
                env[key] = val
        sub = QEval(self.tree, callee, env)
        out = sub.run_body(callee.node.body)
        self.notes.extend(sub.notes)
        return out

    def exec_stmt(self, st):
        if isinstance(st, ast.Raise):
            raise QError("raise reached: %s" % norm(st)[:60])
        return super().exec_stmt(st)

    def assign(self, t, v):
        if isinstance(t, ast.Name):
            self.env[t.id] = v
        elif isinstance(t, (ast.Tuple, ast.List)):
            self.bind(t, v)
        elif isinstance(t, ast.Attribute):
            base = self.ev(t.value)
            if isinstance(base, VectorV) and t.attr in ("x", "y", "z"):
                base.comps[t.attr] = v
            elif t.attr in ("name", "_name"):
                pass
            elif isinstance(base, ArrayV) and t.attr == "unit" and isinstance(v, UnitV):
                base.unit = v
            else:
                raise Unsupported("store to attribute %s" % norm(t))
        else:
            raise Unsupported("store to %s" % norm(t))

    def truth(self, v, node=None):
        if isinstance(v, (ArrayV, VectorV, NumV, UnitV)):
            raise QError("truth value of %r" % (v,))
        if isinstance(v, dict):
            return bool(v)
        return super().truth(v, node)
