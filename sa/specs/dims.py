"""S2 / S3 — dimension tables and the constants catalogue (textbook values; part of the trusted base).

CGS-Gaussian dimension vectors are (M, L, T, Theta) exponents; SCALE is the value of the atom in CGS base units.
"""
from fractions import Fraction as F

H = F(1, 2)
ATOMS = {
    # name: (scale in CGS, (M, L, T, Theta))
    "g": (1.0, (1, 0, 0, 0)), "gram": (1.0, (1, 0, 0, 0)), "kg": (1e3, (1, 0, 0, 0)), "kilogram": (1e3, (1, 0, 0, 0)),
    "cm": (1.0, (0, 1, 0, 0)), "centimeter": (1.0, (0, 1, 0, 0)), "m": (1e2, (0, 1, 0, 0)), "meter": (1e2, (0, 1, 0, 0)),
    "km": (1e5, (0, 1, 0, 0)), "kilometer": (1e5, (0, 1, 0, 0)),
    "s": (1.0, (0, 0, 1, 0)), "second": (1.0, (0, 0, 1, 0)),
    "K": (1.0, (0, 0, 0, 1)), "kelvin": (1.0, (0, 0, 0, 1)),
    "erg": (1.0, (1, 2, -2, 0)), "J": (1e7, (1, 2, -2, 0)), "joule": (1e7, (1, 2, -2, 0)),
    "W": (1e7, (1, 2, -3, 0)), "watt": (1e7, (1, 2, -3, 0)),
    "dyn": (1.0, (1, 1, -2, 0)), "dyne": (1.0, (1, 1, -2, 0)), "N": (1e5, (1, 1, -2, 0)),
    "G": (1.0, (H, -H, -1, 0)), "gauss": (1.0, (H, -H, -1, 0)), "Gauss": (1.0, (H, -H, -1, 0)),
    "Ba": (1.0, (1, -1, -2, 0)), "barye": (1.0, (1, -1, -2, 0)), "Pa": (10.0, (1, -1, -2, 0)),
    "dimensionless": (1.0, (0, 0, 0, 0)), "": (1.0, (0, 0, 0, 0)),
}

# variable name (library key, wild-cards included by prefix) -> dimension the property states
D = {
    "density": (1, -3, 0, 0),
    "velocity": (0, 1, -1, 0),
    "momentum": (1, -2, -1, 0),
    "magnetic": (H, -H, -1, 0),
    "acceleration": (0, 1, -2, 0),
    "potential": (0, 2, -2, 0),
    "energy_density": (1, -1, -2, 0),
    "time": (0, 0, 1, 0),
    "length": (0, 1, 0, 0),
    "mass": (1, 0, 0, 0),
    "temperature": (0, 0, 0, 1),
}
NAME_DIM = [
    # (predicate on the library key, dimension key) — first match wins
    (lambda k: k in ("unit_d", "unit_l", "unit_t"), None),
    (lambda k: k == "density", "density"),
    (lambda k: k == "velocity" or k.startswith("velocity_"), "velocity"),
    (lambda k: k == "momentum" or k.startswith("momentum_"), "momentum"),
    (lambda k: k == "magnetic_field" or k.startswith("B_"), "magnetic"),
    (lambda k: k in ("acceleration", "grav_acceleration") or k.startswith("grav_acceleration_"), "acceleration"),
    (lambda k: k == "grav_potential", "potential"),
    (lambda k: k in ("energy", "internal_energy", "thermal_pressure", "pressure", "radiative_energy") or
     k.startswith("radiative_energy_"), "energy_density"),
    (lambda k: k == "time", "time"),
    (lambda k: k in ("length", "x", "y", "z", "position", "dx") or k.startswith("position_"), "length"),
    (lambda k: k == "mass", "mass"),
    (lambda k: k == "temperature", "temperature"),
]
# variables every RAMSES hydro/grav/amr output can contain: each must have a library entry
REQUIRED_KEYS = ["density", "velocity_*", "pressure", "position_*", "dx", "mass", "temperature", "time", "length",
                 "grav_potential", "grav_acceleration_*", "B_*_left", "B_*_right", "x", "y", "z"]

# S3 — constants catalogue: name -> (value in CGS, dimension), IAU 2015 nominal values / CODATA
CONSTANTS = {
    "bolometric_luminosity": (3.0128e35, (1, 2, -3, 0)),
    "solar_luminosity": (3.828e33, (1, 2, -3, 0)),
    "earth_mass": (5.9722e27, (1, 0, 0, 0)),
    "jupiter_mass": (1.89813e30, (1, 0, 0, 0)),
    "solar_mass": (1.98841e33, (1, 0, 0, 0)),
    "earth_radius": (6.3781e8, (0, 1, 0, 0)),
    "jupiter_radius": (7.1492e9, (0, 1, 0, 0)),
    "solar_radius": (6.957e10, (0, 1, 0, 0)),
    "radiation_constant": (7.565733e-15, (1, -1, -2, -4)),
}
CONSTANT_TOLERANCE = 1e-3
# aliases used inside the package or named by the property ("solar, earth and jupiter mass and radius, solar and
# bolometric luminosity, radiation constant")
REQUIRED_ALIASES = {"solar_mass": ["M_sun"]}
