"""Model of numpy dtype semantics used by the dtype-gate truth table (D7).  Oracle: numpy documentation
(scalar type hierarchy; `dtype == <python type>` compares with np.dtype(<python type>))."""

# name -> kind character
DTYPES = {
    "bool": "b",
    "int8": "i", "int16": "i", "int32": "i", "int64": "i",
    "uint8": "u", "uint16": "u", "uint32": "u", "uint64": "u",
    "float16": "f", "float32": "f", "float64": "f",
    "complex64": "c", "complex128": "c",
    "object": "O", "str": "U",
}
NUMERIC_KINDS = "iufc"

PYTYPE_TO_DTYPE = {"int": "int64", "float": "float64", "bool": "bool", "complex": "complex128", "object": "object",
                   "str": "str"}

# abstract scalar-type hierarchy: abstract type -> set of kinds
HIERARCHY = {
    "generic": set("biufcOU"),
    "number": set("iufc"),
    "integer": set("iu"),
    "signedinteger": set("i"),
    "unsignedinteger": set("u"),
    "inexact": set("fc"),
    "floating": set("f"),
    "complexfloating": set("c"),
    "bool_": set("b"),
    "bool": set("b"),
    "object_": set("O"),
    "str_": set("U"),
    "flexible": set("U"),
    "character": set("U"),
}
# issubdtype(d, <python type>) : python types are mapped to abstract categories by numpy
PYTYPE_TO_ABSTRACT = {"int": "signedinteger", "float": "floating", "complex": "complexfloating", "bool": "bool_",
                      "object": "object_", "str": "str_"}


class DType:
    def __init__(self, name):
        self.name = name
        self.kind = DTYPES[name]

    def __eq__(self, other):
        if isinstance(other, DType):
            return self.name == other.name
        if isinstance(other, PyType):
            return PYTYPE_TO_DTYPE.get(other.name) == self.name
        if isinstance(other, NpType):
            return other.name == self.name or (other.name in ("bool_",) and self.name == "bool") or (
                other.name == "float_" and self.name == "float64") or (other.name == "int_" and self.name == "int64")
        if isinstance(other, str):
            return other == self.name or other == {"float64": "d", "float32": "f", "int32": "i", "int64": "l"}.get(
                self.name)
        return False

    def __ne__(self, other):
        return not self.__eq__(other)

    def __hash__(self):
        return hash(self.name)

    def __repr__(self):
        return "dtype(%s)" % self.name


class PyType:
    """A Python builtin type used as a dtype (int, float, bool, complex)."""

    def __init__(self, name):
        self.name = name

    def __eq__(self, other):
        if isinstance(other, DType):
            return other == self
        return isinstance(other, PyType) and other.name == self.name

    def __hash__(self):
        return hash(self.name)

    def __repr__(self):
        return self.name


class NpType:
    """np.<name>: concrete scalar type (np.float32) or abstract category (np.number)."""

    def __init__(self, name):
        self.name = name

    def __eq__(self, other):
        if isinstance(other, DType):
            return other == self
        return isinstance(other, NpType) and other.name == self.name

    def __hash__(self):
        return hash(self.name)

    def __repr__(self):
        return "np." + self.name


def issubdtype(d, t):
    if isinstance(d, (PyType, NpType)):
        raise ValueError("first argument must be a dtype")
    if isinstance(t, PyType):
        cat = PYTYPE_TO_ABSTRACT.get(t.name)
        if cat is None:
            raise ValueError(t.name)
        return d.kind in HIERARCHY[cat]
    if isinstance(t, NpType):
        if t.name in HIERARCHY:
            return d.kind in HIERARCHY[t.name]
        if t.name in DTYPES:
            return d.name == t.name
        raise ValueError(t.name)
    if isinstance(t, DType):
        return d.name == t.name
    raise ValueError(repr(t))
