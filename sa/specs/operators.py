"""S4 — Python data-model operator table for osyris.Array (oracle: the language reference + numpy ufunc names).

(dunder) -> (accepted numpy ufunc __name__s, strict conversion required?, in-place?)
"""
ARITH = {
    "__add__": (("add",), True, False),
    "__iadd__": (("add",), True, True),
    "__sub__": (("subtract",), True, False),
    "__isub__": (("subtract",), True, True),
    "__mul__": (("multiply",), False, False),
    "__imul__": (("multiply",), False, True),
    "__truediv__": (("divide", "true_divide"), False, False),
    "__itruediv__": (("divide", "true_divide"), False, True),
}
COMPARE = {
    "__lt__": (("less",), True, False),
    "__le__": (("less_equal",), True, False),
    "__gt__": (("greater",), True, False),
    "__ge__": (("greater_equal",), True, False),
    "__eq__": (("equal",), True, False),
    "__ne__": (("not_equal",), True, False),
}
LOGICAL = {
    "__and__": (("logical_and",), True, False),
    "__or__": (("logical_or",), True, False),
    "__xor__": (("logical_xor",), True, False),
}
INPLACE_OF = {"__iadd__": "__add__", "__isub__": "__sub__", "__imul__": "__mul__", "__itruediv__": "__truediv__"}

# functions whose result unit is a non-trivial function of the operand units (property text of C10)
UNIT_TRANSFORMING = ("multiply", "divide", "true_divide", "sqrt", "square", "cbrt", "power", "reciprocal")
# functions whose result unit must NOT be recomputed by applying the function to the units
UNIT_PRESERVING = ("add", "subtract", "negative", "absolute", "sum", "mean", "amin", "amax", "median", "std",
                   "cumsum", "sort", "diff", "concatenate", "maximum", "minimum")
PREDICATES = ("less", "less_equal", "greater", "greater_equal", "equal", "not_equal", "logical_and",
              "logical_or", "logical_xor", "logical_not", "isfinite", "isnan", "isinf")
