"""S1 — RAMSES Fortran-unformatted layouts (oracle; source: RAMSES amr/output_amr.f90 (backup_amr),
hydro/output_hydro.f90, poisson/output_poisson.f90, rt/rt_output_hydro.f90, pm/output_part.f90).

A record is  int32 length | payload | int32 length.  A spec is a list of groups
    (name, type char, count polynomial, repeat polynomial)
meaning `repeat` consecutive records of `count` items of that type.
Assumption A2: key-based domain decomposition (hilbert/planar/angular): ONE bound_key record.
"""
from ..poly import Poly, S, C

SIZE = {"b": 1, "h": 2, "i": 4, "q": 8, "f": 4, "d": 8, "e": 8, "l": 8, "s": 1}

ncpu, L, nb, nout, nco, ks = S("ncpu"), S("levelmax"), S("nboundary"), S("noutput"), S("ncoarse"), S("key_size")
ncache, ndim, ttd, nvar = S("ncache"), S("ndim"), S("twotondim"), S("nvar")
one = C(1)


def amr_header(nboundary_positive):
    R = [("ncpu", "i", one, one), ("ndim", "i", one, one), ("nx,ny,nz", "i", C(3), one), ("nlevelmax", "i", one, one),
         ("ngridmax", "i", one, one), ("nboundary", "i", one, one), ("ngrid_current", "i", one, one),
         ("boxlen", "d", one, one), ("noutput,iout,ifout", "i", C(3), one), ("tout", "d", nout, one),
         ("aout", "d", nout, one), ("t", "d", one, one), ("dtold", "d", L, one), ("dtnew", "d", L, one),
         ("nstep,nstep_coarse", "i", C(2), one), ("einit,mass_tot_0,rho_tot", "d", C(3), one),
         ("omega_m..boxlen_ini", "d", C(7), one), ("aexp..epot_tot_old", "d", C(5), one), ("mass_sph", "d", one, one),
         ("headl", "i", ncpu * L, one), ("taill", "i", ncpu * L, one), ("numbl", "i", ncpu * L, one),
         ("numbtot", "i", C(10) * L, one)]
    if nboundary_positive:
        R += [("headb", "i", nb * L, one), ("tailb", "i", nb * L, one), ("numbb", "i", nb * L, one)]
    R += [("headf..used_mem_tot", "i", C(5), one), ("ordering", "s", C(128), one), ("bound_key", "s", ks, one),
          ("son_coarse", "i", nco, one), ("flag1_coarse", "i", nco, one), ("cpu_map_coarse", "i", nco, one)]
    return R


# which record each decoded name must come from: target text fragment -> (record name, decoded count)
AMR_HEADER_BINDINGS = {
    "nx": ("nx,ny,nz", 3), "nboundary": ("nboundary", 1), "noutput": ("noutput,iout,ifout", 1), "dtold": ("dtold", "levelmax"),
    "dtnew": ("dtnew", "levelmax"), "ngridlevel-cpu": ("numbl", "ncpu*levelmax"), "ngridlevel-boundary": ("numbb", "nboundary*levelmax"),
    "key_size": ("bound_key", "marker"),
}

AMR_BODY = [("ind_grid", "i", ncache, one), ("next", "i", ncache, one), ("prev", "i", ncache, one),
            ("xg", "d", ncache, ndim), ("father", "i", ncache, one), ("nbor", "i", ncache, C(2) * ndim),
            ("son", "i", ncache, ttd), ("cpu_map", "i", ncache, ttd), ("flag1", "i", ncache, ttd)]

HYDRO_HEADER = [("ncpu", "i", one, one), ("nvar", "i", one, one), ("ndim", "i", one, one), ("nlevelmax", "i", one, one),
                ("nboundary", "i", one, one), ("gamma", "d", one, one)]
GRAV_HEADER = [("ncpu", "i", one, one), ("ndim+1", "i", one, one), ("nlevelmax", "i", one, one), ("nboundary", "i", one, one)]
RT_HEADER = [("ncpu", "i", one, one), ("nrtvar", "i", one, one), ("ndim", "i", one, one), ("nlevelmax", "i", one, one),
             ("nboundary", "i", one, one), ("gamma", "d", one, one)]
DOMAIN_HEADER = [("ilevel", "i", one, one), ("ncache", "i", one, one)]
# per (level, domain) with ncache > 0: twotondim * nvar records of ncache doubles, child index slowest
VAR_BODY = [("var", "d", ncache, ttd * nvar)]

PART_HEADER_FIXED = [("ncpu", "i", one, one), ("ndim", "i", one, one), ("npart", "i", one, one)]
PART_OPAQUE = ["localseed", "nstar_tot", "mstar_tot", "mstar_lost", "nsink"]  # skipped by their own record length


def record_bytes(ty, count):
    return count * SIZE[ty] + 8


def group_start(spec, name):
    """Byte offset of the first record of group `name` and the stride between its records."""
    pos = Poly()
    for nm, ty, cnt, rep in spec:
        if nm == name:
            return pos, record_bytes(ty, cnt), ty, cnt, rep
        pos = pos + rep * record_bytes(ty, cnt)
    raise KeyError(name)


def total_bytes(spec):
    pos = Poly()
    for nm, ty, cnt, rep in spec:
        pos = pos + rep * record_bytes(ty, cnt)
    return pos
