"""Generic side-effect-free expression evaluator over abstract values (used by D1, D5, D7, ...).

The *values* decide the domain: Poly/Rat (D1), Fraction/int/bool (D7 fincase), Lim (D5) ...; this module
only maps syntax to Python operator dispatch on those values, plus hooks for names, attributes,
subscripts and calls.  Anything outside the supported subset raises Unsupported (=> unresolved).
"""
from __future__ import annotations

import ast
import re as _re
import operator

from .source import AnalysisError


class Unsupported(AnalysisError):
    pass


BINOPS = {
    ast.Add: operator.add, ast.Sub: operator.sub, ast.Mult: operator.mul, ast.Div: operator.truediv,
    ast.FloorDiv: operator.floordiv, ast.Mod: operator.mod, ast.Pow: operator.pow,
    ast.BitAnd: operator.and_, ast.BitOr: operator.or_, ast.BitXor: operator.xor,
    ast.LShift: operator.lshift, ast.RShift: operator.rshift,
}
CMPOPS = {
    ast.Lt: operator.lt, ast.LtE: operator.le, ast.Gt: operator.gt, ast.GtE: operator.ge,
    ast.Eq: operator.eq, ast.NotEq: operator.ne,
}


class Model:
    """Base class of checker-side model objects: attribute access and calls on them are delegated to Python."""



def _split_starred(elts, vals, where=None):
    """pairs (target, value) for an unpacking assignment with at most one starred target (python semantics); None if the counts do not fit"""
    star = [i for i, e in enumerate(elts) if isinstance(e, ast.Starred)]
    if not star:
        return list(zip(elts, vals)) if len(vals) == len(elts) else None
    if len(star) > 1:
        return None
    i = star[0]
    after = len(elts) - i - 1
    if len(vals) < len(elts) - 1:
        return None
    mid = list(vals[i:len(vals) - after])
    return list(zip(elts[:i], vals[:i])) + [(elts[i].value, mid)] + list(zip(elts[i + 1:], vals[len(vals) - after:]))


class ReturnValue(Exception):
    def __init__(self, value):
        self.value = value


class _Continue(Exception):
    pass


class _Break(Exception):
    pass


class ProgramRaised(Exception):
    """The interpreted repository code itself raised (KeyError/IndexError on a container, ...) on this abstract input."""

    def __init__(self, exc, node=None):
        super().__init__("%s: %s" % (type(exc).__name__, exc))
        self.exc, self.node = exc, node


class RaisedInModel(Exception):
    """The interpreted code executed a `raise` statement."""

    def __init__(self, node):
        self.node = node


def _has_yield(fnode):
    todo = list(fnode.body)
    while todo:
        n = todo.pop()
        if isinstance(n, (ast.Yield, ast.YieldFrom)):
            return True
        if isinstance(n, (ast.FunctionDef, ast.AsyncFunctionDef, ast.Lambda, ast.ClassDef)):
            continue
        todo.extend(ast.iter_child_nodes(n))
    return False


class Evaluator:
    """Subclass and override name/attr/subscript/call as needed."""

    def __init__(self, env=None):
        self.env = env if env is not None else {}

    # ---- hooks
    def name(self, node):
        if node.id in self.env:
            return self.env[node.id]
        raise Unsupported("unbound name %s (line %d)" % (node.id, node.lineno))

    def attr(self, node, base):
        if isinstance(base, Model):
            try:
                return getattr(base, node.attr)
            except AttributeError:
                raise Unsupported("model %s has no attribute %s" % (type(base).__name__, node.attr))
        if isinstance(base, (dict, list, tuple, str, set, frozenset)) and not node.attr.startswith("_"):
            try:
                return getattr(base, node.attr)
            except AttributeError:
                pass
        raise Unsupported("attribute .%s on %r (line %d)" % (node.attr, base, node.lineno))

    def subscript(self, node, base, index):
        try:
            return base[index]
        except (KeyError, IndexError) as e:
            if isinstance(base, (dict, list, tuple, str)) or isinstance(base, Model):
                raise ProgramRaised(e, node)
            raise Unsupported("subscript %s: %s" % (ast.unparse(node), e))
        except (Unsupported, ProgramRaised):
            raise
        except Exception as e:
            if type(e).__name__ == "Raised" and hasattr(e, "name"):
                raise               # a model raising what the library would raise (models.Raised): the program's exception, not an analysis gap
            raise Unsupported("subscript %s: %s" % (ast.unparse(node), e))

    def call(self, node, func, args, kwargs):
        if callable(func):
            return func(*args, **kwargs)
        raise Unsupported("call %s (line %d)" % (ast.unparse(node.func), node.lineno))

    def constant(self, node):
        return node.value

    def binop(self, node, op, a, b):
        try:
            return BINOPS[type(op)](a, b)
        except KeyError:
            raise Unsupported("operator %s" % type(op).__name__)
        except (TypeError, ValueError, ZeroDivisionError) as e:
            raise Unsupported("cannot evaluate %s: %s" % (ast.unparse(node), e))

    def compare(self, node, op, a, b):
        if isinstance(op, ast.Is):
            return a is b
        if isinstance(op, ast.IsNot):
            return a is not b
        if isinstance(op, ast.In):
            return a in b
        if isinstance(op, ast.NotIn):
            return a not in b
        try:
            return CMPOPS[type(op)](a, b)
        except (TypeError, ValueError) as e:
            raise Unsupported("cannot compare in %s: %s" % (ast.unparse(node), e))

    def truth(self, v, node=None):
        if isinstance(v, bool):
            return v
        if v is None:
            return False
        if isinstance(v, (int, float, str, tuple, list, dict, set, frozenset, bytes, range)) or type(v).__name__ in ("dict_keys", "dict_values", "dict_items", "deque"):
            return bool(v)
        if isinstance(v, _re.Match):
            return True
        t = getattr(v, "truth", None)
        if t is not None:
            return t()
        raise Unsupported("truth value of %r is not known%s" % (v, " (line %d)" % node.lineno if node else ""))

    # ---- evaluation
    def ev(self, node):
        m = getattr(self, "ev_" + type(node).__name__, None)
        if m is None:
            raise Unsupported("expression kind %s (line %d)" % (type(node).__name__, getattr(node, "lineno", 0)))
        return m(node)

    def ev_Constant(self, node):
        return self.constant(node)

    def ev_Name(self, node):
        return self.name(node)

    def ev_Attribute(self, node):
        return self.attr(node, self.ev(node.value))

    def ev_Subscript(self, node):
        return self.subscript(node, self.ev(node.value), self.ev_index(node.slice))

    def ev_index(self, s):
        if isinstance(s, ast.Slice):
            return slice(self.ev(s.lower) if s.lower else None, self.ev(s.upper) if s.upper else None,
                         self.ev(s.step) if s.step else None)
        if isinstance(s, ast.Tuple):
            return tuple(self.ev_index(e) for e in s.elts)
        return self.ev(s)

    def ev_Slice(self, node):
        return self.ev_index(node)

    def ev_BinOp(self, node):
        return self.binop(node, node.op, self.ev(node.left), self.ev(node.right))

    def ev_UnaryOp(self, node):
        v = self.ev(node.operand)
        try:
            if isinstance(node.op, ast.USub):
                return -v
            if isinstance(node.op, ast.UAdd):
                return +v
            if isinstance(node.op, ast.Not):
                return not self.truth(v, node)
            if isinstance(node.op, ast.Invert):
                return ~v
        except TypeError as e:
            raise Unsupported("cannot evaluate %s: %s" % (ast.unparse(node), e))
        raise Unsupported("unary operator")

    def ev_BoolOp(self, node):
        if isinstance(node.op, ast.And):
            v = True
            for e in node.values:
                v = self.ev(e)
                if not self.truth(v, e):
                    return v
            return v
        v = False
        for e in node.values:
            v = self.ev(e)
            if self.truth(v, e):
                return v
        return v

    def ev_Compare(self, node):
        left = self.ev(node.left)
        result = True
        for op, comp in zip(node.ops, node.comparators):
            right = self.ev(comp)
            r = self.compare(node, op, left, right)
            if len(node.ops) == 1:
                return r
            if not self.truth(r, node):
                return r
            result = r
            left = right
        return result

    def ev_IfExp(self, node):
        return self.ev(node.body) if self.truth(self.ev(node.test), node.test) else self.ev(node.orelse)

    def ev_NamedExpr(self, node):
        v = self.ev(node.value)
        self.assign(node.target, v)
        return v

    def ev_Tuple(self, node):
        return tuple(self.ev_seq(node.elts))

    def ev_List(self, node):
        return list(self.ev_seq(node.elts))

    def ev_Set(self, node):
        return set(self.ev_seq(node.elts))

    def ev_seq(self, elts):
        out = []
        for e in elts:
            if isinstance(e, ast.Starred):
                out.extend(self.ev(e.value))
            else:
                out.append(self.ev(e))
        return out

    def ev_Dict(self, node):
        out = {}
        for k, v in zip(node.keys, node.values):
            if k is None:
                out.update(self.ev(v))
            else:
                out[self.ev(k)] = self.ev(v)
        return out

    def ev_JoinedStr(self, node):
        parts = []
        for v in node.values:
            if isinstance(v, ast.Constant):
                parts.append(str(v.value))
            else:
                parts.append(str(self.ev(v.value)))
        return "".join(parts)

    def ev_Call(self, node):
        func = self.ev_func(node.func)
        args = self.ev_seq(node.args)
        kwargs = {}
        for k in node.keywords:
            if k.arg is None:
                kwargs.update(self.ev(k.value))
            else:
                kwargs[k.arg] = self.ev(k.value)
        return self.call(node, func, args, kwargs)

    def ev_func(self, node):
        return self.ev(node)

    def _comp(self, generators, emit):
        def rec(i):
            if i == len(generators):
                emit()
                return
            g = generators[i]
            for item in self.ev(g.iter):
                self.bind(g.target, item)
                if all(self.truth(self.ev(c), c) for c in g.ifs):
                    rec(i + 1)
        rec(0)

    def bind(self, target, value):
        if isinstance(target, ast.Name):
            self.env[target.id] = value
        elif isinstance(target, (ast.Tuple, ast.List)):
            vals = list(value)
            pairs = _split_starred(target.elts, vals)
            if pairs is None:
                raise Unsupported("cannot unpack")
            for t, v in pairs:
                self.bind(t, v)
        else:
            raise Unsupported("binding target %s" % ast.unparse(target))

    def ev_ListComp(self, node):
        out = []
        saved = dict(self.env)
        self._comp(node.generators, lambda: out.append(self.ev(node.elt)))
        self.env.clear(); self.env.update(saved)
        return out

    def ev_GeneratorExp(self, node):
        return self.ev_ListComp(node)

    def ev_SetComp(self, node):
        return set(self.ev_ListComp(node))

    def ev_DictComp(self, node):
        out = {}
        saved = dict(self.env)

        def emit():
            out[self.ev(node.key)] = self.ev(node.value)
        self._comp(node.generators, emit)
        self.env.clear(); self.env.update(saved)
        return out


    # ------------------------------------------------------------------ statements (straight-line + decidable control)
    def run_function(self, fnode, args, kwargs=None):
        """Bind arguments to the parameters of fnode and execute its body; returns the returned value."""
        a = fnode.args
        names = [x.arg for x in a.posonlyargs + a.args]
        for n_, v in zip(names, args):
            self.env[n_] = v
        for k, v in (kwargs or {}).items():
            self.env[k] = v
        defaults = a.defaults
        for n_, d in zip(names[len(names) - len(defaults):], defaults):
            if n_ not in self.env:
                self.env[n_] = self.ev(d)
        if _has_yield(fnode) and not hasattr(self, "yielded"):
            # a generator function: what it yields, in order (eager - as a consumer that drains it sees it)
            self.yielded = []
            self.run_body(fnode.body)
            return self.yielded
        return self.run_body(fnode.body)

    def ev_Yield(self, node):
        if not hasattr(self, "yielded"):
            raise Unsupported("yield outside a generator function")
        self.yielded.append(self.ev(node.value) if node.value is not None else None)
        return None

    def ev_YieldFrom(self, node):
        if not hasattr(self, "yielded"):
            raise Unsupported("yield from outside a generator function")
        v = self.ev(node.value)
        try:
            self.yielded.extend(list(v))
        except TypeError:
            raise Unsupported("yield from %r" % (v,))
        return None

    def run_body(self, body):
        try:
            self.exec_block(body)
        except ReturnValue as r:
            return r.value
        return None

    def exec_block(self, body):
        for st in body:
            self.exec_stmt(st)

    def exec_stmt(self, st):
        if isinstance(st, ast.Expr):
            if not isinstance(st.value, ast.Constant):
                self.ev(st.value)
        elif isinstance(st, ast.Assign):
            v = self.ev(st.value)
            for t in st.targets:
                self.assign(t, v)
        elif isinstance(st, ast.AugAssign):
            cur = self.ev(st.target)
            v = self.ev(st.value)
            self.assign(st.target, self.binop(st, st.op, cur, v))
        elif isinstance(st, ast.Return):
            raise ReturnValue(self.ev(st.value) if st.value is not None else None)
        elif isinstance(st, ast.If):
            self.exec_block(st.body if self.truth(self.ev(st.test), st.test) else st.orelse)
        elif isinstance(st, ast.For):
            broke = False
            for item in self.ev(st.iter):
                self.bind(st.target, item)
                try:
                    self.exec_block(st.body)
                except _Continue:
                    continue
                except _Break:
                    broke = True
                    break
            if not broke:
                self.exec_block(st.orelse)
        elif isinstance(st, ast.Continue):
            raise _Continue()
        elif isinstance(st, ast.Break):
            raise _Break()
        elif isinstance(st, ast.Raise):
            raise RaisedInModel(st)
        elif isinstance(st, ast.Delete):
            for t in st.targets:
                if isinstance(t, ast.Subscript):
                    base = self.ev(t.value)
                    try:
                        del base[self.ev_index(t.slice)]
                    except Exception as e:
                        raise Unsupported("del %s: %s" % (ast.unparse(t), e))
                elif isinstance(t, ast.Name):
                    self.env.pop(t.id, None)
                else:
                    raise Unsupported("del %s" % ast.unparse(t))
        elif isinstance(st, ast.Pass):
            pass
        else:
            raise Unsupported("statement %s (line %d)" % (type(st).__name__, st.lineno))

    def assign(self, t, v):
        if isinstance(t, ast.Name):
            self.env[t.id] = v
        elif isinstance(t, (ast.Tuple, ast.List)):
            self.bind(t, v)
        elif isinstance(t, ast.Subscript):
            base = self.ev(t.value)
            try:
                base[self.ev_index(t.slice)] = v
            except Exception as e:
                raise Unsupported("subscript store %s: %s" % (ast.unparse(t), e))
        elif isinstance(t, ast.Attribute):
            base = self.ev(t.value)
            if isinstance(base, Model):
                setattr(base, t.attr, v)
            elif callable(base) and type(base).__name__ == "function":
                # function objects accept attributes (method.__name__ = ..., f.cache = {}): kept on the interpreter's closure object
                try:
                    setattr(base, t.attr, v)
                except (AttributeError, TypeError) as e:
                    raise Unsupported("attribute store %s: %s" % (ast.unparse(t), e))
            else:
                raise Unsupported("attribute store %s" % ast.unparse(t))
        else:
            raise Unsupported("store to %s" % ast.unparse(t))
