"""Self-test battery: in-memory source overlays.

MUTANTS  : each must be reported (exit 1) by at least one of the named properties.
BENIGN   : behaviour-preserving edits; every property must stay silent (exit 0 — neither VIOLATION nor ANALYSIS-ERROR).
`./vcheck selftest` exits non-zero on a surviving mutant, a noisy benign edit or a stale overlay.
"""
from __future__ import annotations

import os
import sys
from concurrent.futures import ProcessPoolExecutor

from .source import SourceTree

M = []  # (id, rel, old, new, [props expected to fire])


def mut(mid, rel, old, new, props):
    M.append((mid, rel, old, new, props))


# ---- core/array.py
mut("isub-uses-add", "core/array.py", "return _binary_op(np.subtract, self, other, out=self)", "return _binary_op(np.add, self, other, out=self)", ["C02", "C17"])
mut("add-nonstrict", "core/array.py", "return _binary_op(np.add, self, other)\n", "return _binary_op(np.add, self, other, strict=False)\n", ["C02"])
mut("imul-no-out", "core/array.py", "return _binary_op(np.multiply, self, other, strict=False, out=self)", "return _binary_op(np.multiply, self, other, strict=False)", ["C02", "C17"])
mut("lt-is-le", "core/array.py", "return _binary_op(np.less, self, other)", "return _binary_op(np.less_equal, self, other)", ["C07"])
mut("and-is-or", "core/array.py", "return _binary_op(np.logical_and, self, other)", "return _binary_op(np.logical_or, self, other)", ["C07"])
mut("power-not-in-apply", "core/array.py", '    "power",\n', "", ["C02", "C10"])
mut("strict-no-conversion", "core/array.py", "    if strict:\n        rhs = rhs.to(lhs.unit)\n", "    if strict:\n        pass\n", ["C02", "C07"])
# (removed) swallow-all-errors: `except Exception` around the non-strict conversion changes behaviour only for an error other than
# DimensionalityError raised by pint, which no operand in the property's quantifier produces: not decided, not a mutant.
mut("strict-swallows", "core/array.py", "    if strict:\n        rhs = rhs.to(lhs.unit)\n    else:", "    if strict:\n        try:\n            rhs = rhs.to(lhs.unit)\n        except DimensionalityError:\n            pass\n    else:", ["C02", "C07"])
mut("op-operands-swapped", "core/array.py", "    return op(lhs, rhs, **kwargs)", "    return op(rhs, lhs, **kwargs)", ["C02", "C07"])
mut("to-inverse-ratio", "core/array.py", "ratio = (1.0 * self.unit).to(new_unit) / (1.0 * new_unit)", "ratio = (1.0 * new_unit).to(self.unit) / (1.0 * self.unit)", ["C02", "C08"])
mut("to-inplace", "core/array.py", "        return self.__class__(values=self._array * ratio.magnitude, unit=new_unit)", "        self._array = self._array * ratio.magnitude\n        self._unit = new_unit\n        return self", ["C08"])
mut("gate-bool-included", "core/array.py", "if np.issubdtype(result.dtype, np.number):", "if np.issubdtype(result.dtype, np.number) or result.dtype == bool:", ["C07", "C10"])
mut("gate-float-only", "core/array.py", "if np.issubdtype(result.dtype, np.number):", "if np.issubdtype(result.dtype, np.floating):", ["C02", "C10"])
mut("out-unit-not-set", "core/array.py", "            kwargs[\"out\"][0].unit = unit\n", "", ["C10", "C17"])
mut("out-returns-new", "core/array.py", "            return kwargs[\"out\"][0]\n", "            return self.__class__(values=result, unit=unit)\n", ["C10", "C17"])
mut("copy-shares-buffer", "core/array.py", "values=self._array.copy(), unit=units(self.unit)", "values=self._array, unit=units(self.unit)", ["C17"])
mut("getitem-copies", "core/array.py", "values=self._array[slice_], unit=self.unit, name=self.name", "values=self._array[slice_].copy(), unit=self.unit, name=self.name", ["C17"])
mut("getitem-drops-unit", "core/array.py", "values=self._array[slice_], unit=self.unit, name=self.name", "values=self._array[slice_], name=self.name", ["C06", "C17"])
mut("maybe-array-quantity", "core/array.py", "            return arg.magnitude\n        return arg", "            return arg\n        return arg", ["C02", "C10"])
mut("ufunc-refuses-reduce-only", "core/base.py", "        if method != \"__call__\":", "        if method == \"reduce\":", ["C10"])
mut("array-function-drops-kwargs", "core/base.py", "return self._wrap_numpy(func, *args, **kwargs)", "return self._wrap_numpy(func, *args)", ["C10"])
# ---- end-to-end folds (quantity stack, histories over shared state, constructor and slice semantics)
mut("array-init-casts-to-float", "core/array.py", "            self._array = np.asarray(self._array)", "            self._array = np.asarray(self._array, dtype=float)", ["C07"])
mut("to-shortcut-on-ratio-one", "core/array.py", "        if self.unit == new_unit:\n            return self", "        if (1.0 * self.unit).to(new_unit).magnitude == 1.0:\n            return self", ["C08"])
mut("ufunc-forwards-reduce", "core/base.py", "        if method != \"__call__\":", "        if method in (\"reduce\", \"accumulate\"):\n            return self._wrap_numpy(getattr(ufunc, method), *inputs, **kwargs)\n        if method != \"__call__\":", ["C10"])
mut("binary-op-out-by-truth", "core/array.py", "    return op(lhs, rhs, **kwargs)", "    if kwargs.get(\"out\"):\n        return op(lhs, rhs, **kwargs)\n    return op(lhs, rhs)", ["C17"])
mut("datagroup-keys-list", "core/datagroup.py", "        return self._container.keys()", "        return list(self._container)", ["C20"])
mut("datagroup-init-bypasses-gate", "core/datagroup.py", "            self[key] = array", "            self._container[key] = array\n            array.name = key", ["C06", "C20"])
mut("vector-getitem-resolves-slice", "core/vector.py", "    def __getitem__(self, slice_):\n        return self.__class__(", "    def __getitem__(self, slice_):\n        if isinstance(slice_, slice):\n            slice_ = slice(*slice_.indices(len(self)))\n        return self.__class__(", ["C06"])
mut("registry-gaussian-context", "units/units.py", 'self._ureg = UnitRegistry(system="cgs")', 'self._ureg = UnitRegistry(system="cgs")\n        self._ureg.enable_contexts("Gaussian")', ["C07", "C08"])
mut("map-direction-gets-depth", "plot/map.py", "            dy=dy,\n            origin=origin,", "            dy=dz,\n            origin=origin,", ["C18"])
mut("unitslibrary-shared-memo", "units/library.py", "    def __getitem__(self, key):\n        if key in self._library:\n            return self._library[key]", "    _memo = {}\n\n    def __getitem__(self, key):\n        if key in self._memo:\n            return self._memo[key]\n        self._memo[key] = self._lookup(key)\n        return self._memo[key]\n\n    def _lookup(self, key):\n        if key in self._library:\n            return self._library[key]", ["C01"])
mut("bound-keys-memoised", "io/hilbert.py", "def _read_bound_key(infofile, ncpu):", "import functools\n\n\n@functools.lru_cache(maxsize=None)\ndef _read_bound_key(infofile, ncpu):", ["C04"])
mut("predicate-on-raw-values", "io/reader.py", "conditions[key] = func(self.variables[key][\"buffer\"])", "conditions[key] = func(self.variables[key][\"buffer\"].values)", ["C04"])
mut("conditions-single-key", "io/reader.py", "                    conditions[key] = func(self.variables[key][\"buffer\"])", "                    conditions[\"select\"] = func(self.variables[key][\"buffer\"]) & conditions.get(\"select\", True)", ["C12", "C04"])
# ---- core/vector.py
mut("cross-sign", "core/vector.py", "        y = self.z * other.x\n        y -= self.x * other.z", "        y = self.x * other.z\n        y -= self.z * other.x", ["C09"])
mut("cross-index", "core/vector.py", "        z = self.x * other.y\n        z -= self.y * other.x", "        z = self.x * other.y\n        z -= self.y * other.z", ["C09"])
mut("norm-misses-z", "core/vector.py", "        if self.z is not None:\n            out += self.z.values * self.z.values\n", "", ["C09"])
mut("to-only-x", "core/vector.py", "return self.__class__(**{c: xyz.to(unit) for c, xyz in self._xyz.items()})", "return self.__class__(**{c: (xyz.to(unit) if c == \"x\" else xyz) for c, xyz in self._xyz.items()})", ["C08", "C09"])
mut("binop-no-nvec-check", "core/vector.py", "    if lhs.nvec != rhs.nvec:\n        raise ValueError(\"Operands do not have the same number of components.\")\n", "", ["C09"])
mut("vector-sub-forwards-add", "core/vector.py", 'return _binary_op("__sub__", self, other)', 'return _binary_op("__add__", self, other)', ["C09"])
mut("vector-copy-shallow", "core/vector.py", "**{c: xyz.copy() for c, xyz in self._xyz.items()}, name=str(self._name)", "**{c: xyz for c, xyz in self._xyz.items()}, name=str(self._name)", ["C17"])
mut("basis-v-from-u-cross-n", "core/vector.py", "self.v = self.n.cross(self.u) if v is None else v", "self.v = self.u.cross(self.n) if v is None else v", ["C18"])
mut("basis-u-not-normalised", "core/vector.py", "        self.u = normalize(self.u)\n", "", ["C18"])
mut("perp-wrong-branch", "core/vector.py", "return Vector(-v.y.values, v.x.values, 0, unit=v.unit)", "return Vector(v.y.values, v.x.values, 0, unit=v.unit)", ["C18", "C03"])
mut("roll-wrong", "core/vector.py", "return VectorBasis(n=self.u, u=self.v, v=self.n)", "return VectorBasis(n=self.u, u=self.n, v=self.v)", ["C18"])
mut("validate-no-unit-check", "core/vector.py", "        if array.unit != unit:", "        if False and array.unit != unit:", ["C09"])
# ---- datagroup / dataset
mut("dg-no-gate", "core/datagroup.py", "        if self.shape and (self.shape != value.shape):", "        if False:", ["C06", "C20"])
mut("dg-sortby-skips-vectors", "core/datagroup.py", "            for var in self.keys():\n                self[var] = self[var][key]", "            for var in self.keys():\n                if hasattr(self[var], \"values\"):\n                    self[var] = self[var][key]", ["C06"])
mut("dg-sortby-own-order", "core/datagroup.py", "                self[var] = self[var][key]", "                key = np.argsort(self[var]).values\n                self[var] = self[var][key]", ["C06"])
mut("dg-getitem-filter", "core/datagroup.py", "            for name, val in self.items():\n                d[name] = val[key]", "            for name, val in self.items():\n                if name != \"level\":\n                    d[name] = val[key]", ["C06"])
mut("dg-eq-all", "core/datagroup.py", "if np.any((value != other[key]).norm.values):", "if np.all((value != other[key]).norm.values):", ["C20"])
mut("dg-eq-keys-ignored", "core/datagroup.py", "        if self.keys() != other.keys():\n            return False\n", "", ["C20"])
mut("dg-get-no-default", "core/datagroup.py", "return self._container.get(key, default)", "return self._container.get(key)", ["C20"])
mut("dg-copy-deep", "core/datagroup.py", "**{key: array for key, array in self.items()}", "**{key: array.copy() for key, array in self.items()}", ["C17"])
mut("ds-no-type-gate", "core/dataset.py", "        if not isinstance(value, Datagroup):", "        if False:", ["C20"])
mut("ds-no-parent", "core/dataset.py", "        value.parent = self\n", "", ["C20"])
mut("ds-clear-keeps-meta", "core/dataset.py", "        self.meta.clear()\n", "", ["C20"])
mut("ds-pop-returns-none", "core/dataset.py", "        return self.groups.pop(key)", "        self.groups.pop(key)", ["C20"])
# ---- config / units
mut("energy-missing-density", "config/defaults.py", 'energy = unit_d * ((unit_l / unit_t) ** 2) * units("erg / cm**3")', 'energy = ((unit_l / unit_t) ** 2) * units("erg / cm**3")', ["C01"])
mut("bfield-no-4pi", "config/defaults.py", "sqrt(4.0 * pi * unit_d * (unit_l / unit_t) ** 2)", "sqrt(unit_d * (unit_l / unit_t) ** 2)", ["C01"])
mut("accel-wrong-exp", "config/defaults.py", '(unit_l / unit_t**2) * units("cm / s**2")', '(unit_l / unit_t) * units("cm / s**2")', ["C01"])
mut("mass-wrong-power", "config/defaults.py", "mass = density * length**3", "mass = density * length**2", ["C01"])
mut("pressure-is-density", "config/defaults.py", '"pressure": energy,', '"pressure": density,', ["C01"])
mut("msun-wrong", "config/defaults.py", "solar_mass = 1.9889e+33 * g", "solar_mass = 1.9889e+30 * g", ["C08"])
mut("rjup-wrong-unit", "config/defaults.py", "jupiter_radius = 7.1492e+09 * cm", "jupiter_radius = 7.1492e+09 * m", ["C08"])
mut("second-registry", "units/units.py", "        return self._ureg(arg).units", "        return UnitRegistry(system=\"cgs\")(arg).units", ["C08"])
mut("units-accepts-quantity", "units/units.py", "        if isinstance(arg, Quantity):\n            raise TypeError(\"Cannot create unit from a Quantity. Use `.units` instead.\")\n", "", ["C08"])
# ---- io
mut("amr-header-n", "io/amr.py", 'self.offsets["n"] += 7', 'self.offsets["n"] += 6', ["C01"])
mut("amr-nboundary-n", "io/amr.py", '            self.offsets["n"] += 2\n\n        # Determine', '            self.offsets["n"] += 3\n\n        # Determine', ["C01"])
mut("amr-stepover", "io/amr.py", "ncache * (4 + 3 * twotondim + 2 * ndim)", "ncache * (4 + 3 * twotondim + 3 * ndim)", ["C01", "C13"])
mut("amr-footer", "io/amr.py", 'self.offsets["i"] += ncache * 2 * twotondim', 'self.offsets["i"] += ncache * twotondim', ["C01", "C13"])
mut("reader-skip-no-record", "io/reader.py", '                self.offsets[item["type"]] += ncache\n                self.offsets["n"] += 1', '                self.offsets[item["type"]] += ncache', ["C01", "C13"])
mut("reader-stepover", "io/reader.py", 'self.offsets["n"] += twotondim * len(self.variables)', 'self.offsets["n"] += len(self.variables)', ["C01", "C13"])
mut("hydro-domain-header", "io/hydro.py", '        self.offsets["n"] += 2\n        self.offsets["i"] += 2', '        self.offsets["n"] += 2\n        self.offsets["i"] += 1', ["C01"])
mut("owner-guard", "io/loader.py", "if domain == cpu_num - 1:", "if domain == cpu_num:", ["C01"])
mut("locator-head", "io/utils.py", "        offset += 4  # + correction", "        offset += 8  # + correction", ["C01", "C14"])
mut("part-skip-type", "io/part.py", 'self.offsets[item["type"]] += nparticles', 'self.offsets["d"] += nparticles', ["C13", "C14"])
mut("leaf-le", "io/amr.py", 'ilevel < info["lmax"] - 1', 'ilevel <= info["lmax"] - 1', ["C01", "C12"])
mut("leaf-levelmax", "io/amr.py", 'ilevel < info["lmax"] - 1', 'ilevel < info["levelmax"] - 1', ["C12"])
mut("no-magnitude", "io/reader.py", '                    * item["unit"].magnitude\n', "", ["C01"])
mut("xcent-swapped", "io/amr.py", "            self.xcent[ind, 0] = (float(ix) - 0.5) * self.dxcell\n            self.xcent[ind, 1] = (float(iy) - 0.5) * self.dxcell", "            self.xcent[ind, 0] = (float(iy) - 0.5) * self.dxcell\n            self.xcent[ind, 1] = (float(ix) - 0.5) * self.dxcell", ["C01"])
mut("dxcell-level", "io/amr.py", "self.dxcell = 0.5 ** (ilevel + 1)", "self.dxcell = 0.5 ** ilevel", ["C01"])
mut("sel-is-any", "io/loader.py", "sel = np.prod(", "sel = np.sum(", ["C01", "C04"])
mut("ncells-not-reset", "io/loader.py", '            meta["ncells"] = 0\n', "", ["C15"])
mut("amr-key-again", "io/loader.py", 'if isinstance(_select["mesh"], dict):\n            if "level" in _select["mesh"]:', 'if isinstance(_select.get("amr"), dict):\n            if "level" in _select["mesh"]:', ["C12"])
mut("cpu-list-not-reset", "io/amr.py", "        self.cpu_list = None\n        if select is False:", "        if select is False:", ["C15"])
mut("hilbert-table-entry", "io/hilbert.py", "            1,\n            2,\n            3,\n", "            1,\n            3,\n            2,\n", ["C04"])
mut("cube-corner-missing", "io/hilbert.py", "jdom = [jmin, jmin, jmax, jmax] * 2", "jdom = [jmin, jmin, jmax, jmin] * 2", ["C04"])
mut("interval-open", "io/hilbert.py", "if (bound_key[impi] <= bounding_min[i]) and (", "if (bound_key[impi] < bounding_min[i]) and (", ["C04"])
mut("bbox-no-half-cell", "io/hilbert.py", "end = xyz_centers[inds.max()] + (padding * scaling.units)", "end = xyz_centers[inds.max()]", ["C04"])
mut("sink-skiprows", "io/sink.py", "skiprows=2", "skiprows=1", ["C14"])
mut("sink-no-2d", "io/sink.py", "np.atleast_2d(np.loadtxt(sink_file, delimiter=\",\", skiprows=2))", "np.loadtxt(sink_file, delimiter=\",\", skiprows=2)", ["C14"])
mut("sink-m-is-length", "io/sink.py", 'm = units["mass"]', 'm = units["length"]', ["C14"])
mut("sortby-before-vectors", "io/loader.py", "        # Apply sorting if any requested from args\n        if sortby is not None:\n            for group, key in sortby.items():\n                if group in out:\n                    out[group].sortby(key)\n", "", ["C14"])
mut("vector-needs-any", "io/utils.py", "if all([item in data for item in comp_list]):", "if any([item in data for item in comp_list]):", ["C13", "C01"])
mut("mass-dx2", "config/defaults.py", 'data["mesh"]["dx"] ** 3', 'data["mesh"]["dx"] ** 2', ["C01", "C13"])
# ---- plot
mut("kernel-no-z", "plot/utils.py", "if ok_x and ok_y and ok_z:", "if ok_x and ok_y:", ["C03"])
mut("kernel-strict", "plot/utils.py", "                        <= cell_sizes[n]\n                    )\n                    ok_y = True", "                        < cell_sizes[n]\n                    )\n                    ok_y = True", ["C03"])
mut("kernel-accumulate", "plot/utils.py", "out[:, k, j, i] = cell_values[:, n]", "out[:, k, j, i] += cell_values[:, n]", ["C03"])
mut("hist-race-again", "plot/utils.py", [("@njit\ndef hist2d", "@njit(parallel=True)\ndef hist2d"), ("    for i in range(len(x)):\n        indx", "    for i in prange(len(x)):\n        indx")], None, ["C05"])
mut("hist-xy-swapped", "plot/utils.py", "counts[indy, indx] += 1", "counts[indx, indy] += 1", ["C05"])
mut("hist-upper-inclusive", "plot/utils.py", "(indx < nx)", "(indx <= nx)", ["C05"])
mut("hist-mean-by-sum", "plot/histogram2d.py", "binned[ind, ...] /= counts", "binned[ind, ...] /= counts.sum()", ["C05"])
mut("hist-mask-lt1", "plot/histogram2d.py", "mask = counts == 0", "mask = counts <= 1", ["C05"])
mut("hist-upper-pad-negative", "plot/histogram2d.py", "xmax = xmax + 0.05 * dx", "xmax = xmax - 0.05 * dx", ["C05"])
mut("map-axis0", "plot/map.py", "binned[counter : counter + nslots], axis=1", "binned[counter : counter + nslots], axis=0", ["C11"])
mut("map-unit-guard", "plot/map.py", "            piece *= zspacing\n            to_render[ind][\"unit\"] = to_render[ind][\"unit\"] * dataz.unit", "            piece *= zspacing\n        if thick and operations[ind] == \"sum\":\n            to_render[ind][\"unit\"] = to_render[ind][\"unit\"] * dataz.unit", ["C11"])
mut("map-resolution-mutated", "plot/map.py", "        resolution = dict(resolution)\n", "", ["C19"])
mut("map-operation-bypass", "plot/map.py", "getattr(np, operations[ind])(", "getattr(np, operation)(", ["C19", "C11"])
mut("map-slab-no-cell", "plot/map.py", "    selection_distance = 0.5 * diagonal * cell_size\n    if thick:\n        selection_distance = selection_distance + 0.5 * dz", "    selection_distance = 0.5 * diagonal * (dz if thick else cell_size)", ["C11"])
mut("map-radial-abs", "plot/map.py", "            radial_distance.values\n", "            np.abs(radial_distance.values)\n", ["C03"])
mut("map-datay-u", "plot/map.py", "datay = coords.dot(vec_v)", "datay = coords.dot(vec_u)", ["C03"])
mut("map-xcenters-edges", "plot/map.py", "xmin + 0.5 * xspacing, xmax - 0.5 * xspacing, resolution[\"x\"]", "xmin, xmax - xspacing, resolution[\"x\"]", ["C03"])
mut("map-zcenters", "plot/map.py", "zmin + 0.5 * zspacing, zmax - 0.5 * zspacing, resolution[\"z\"]", "zmin, zmax, resolution[\"z\"]", ["C11"])
mut("parse-layer-no-copy", "plot/parser.py", "out = layer.copy()", "out = layer", ["C19"])
mut("parse-layer-vmin-vmax", "plot/parser.py", "    if out.vmax is None:\n        out.vmax = vmax", "    if out.vmax is None:\n        out.vmax = vmin", ["C19"])
mut("map-vmin-forward", "plot/map.py", "            vmin=vmin,\n            vmax=vmax,\n            **kwargs,\n        )\n        layer.kwargs.update(", "            vmin=vmax,\n            vmax=vmin,\n            **kwargs,\n        )\n        layer.kwargs.update(", ["C19"])
mut("render-pops-caller", "plot/histogram2d.py", "                \"params\": layer.kwargs,", "                \"params\": kwargs,", ["C19"])
mut("direction-y-axes", "plot/direction.py", 'VectorBasis(n=dir_list["y"], u=dir_list["z"], v=dir_list["x"])', 'VectorBasis(n=dir_list["y"], u=dir_list["x"], v=dir_list["z"])', ["C18"])
mut("direction-any-length-axis-word", "plot/direction.py", 'if len(direction) == 3 and set(direction) == set("xyz"):', 'if set(direction) == set("xyz"):', ["C18"])   # fix F15 reverted
mut("hilbert-box-stops-at-probe-cell", "io/hilbert.py", "padding = half_dxmin if probe_level == meta[\"levelmax\"] else 2 * half_dxmin", "padding = half_dxmin", ["C04"])   # fix F16 reverted
mut("direction-repeated-letters", "plot/direction.py", 'if len(direction) == 3 and set(direction) == set("xyz"):', 'if len(direction) == 3 and set(direction) <= set("xyz"):', ["C18"])
mut("direction-top-vel-cross-pos", "plot/direction.py", "ang_mom = np.sum(weighted_pos.cross(vel))", "ang_mom = np.sum(vel.cross(weighted_pos))", ["C18"])
mut("sphere-inclusive", "spatial/subdomain.py", "c = (r < radius).values", "c = (r <= radius).values", ["C16"])
mut("box-axis-mismatch", "spatial/subdomain.py", "(centered_pos.y <= dy * 0.5) & (centered_pos.y >= -dy * 0.5)", "(centered_pos.y <= dx * 0.5) & (centered_pos.y >= -dy * 0.5)", ["C16"])
mut("subdomain-amr-key", "spatial/subdomain.py", 'pos = group.parent["mesh"]["position"]', 'pos = group.parent["amr"]["position"]', ["C16"])
mut("subdomain-meta-shared", "spatial/subdomain.py", "subdomain.meta = dataset.meta.copy()", "subdomain.meta = dataset.meta", ["C16"])

B = []  # (id, rel, old, new)


def ben(bid, rel, old, new):
    B.append((bid, rel, old, new))


ben("rename-local-binop", "core/array.py", "def _binary_op(op, lhs, rhs, strict=True, **kwargs):\n    if not isinstance(rhs, lhs.__class__):\n        try:\n            rhs = lhs.__class__(rhs)", "def _binary_op(op, lhs, rhs, strict=True, **kwargs):\n    if not isinstance(rhs, lhs.__class__):\n        try:\n            rhs = lhs.__class__(rhs)  # coerce")
ben("issubdtype-equivalent", "core/array.py", "if np.issubdtype(result.dtype, np.number):", "if result.dtype.kind in \"iufc\":")
ben("offsets-folded", "io/amr.py", '        self.offsets["i"] += 2\n        self.offsets["n"] += 2\n        [nx, ny, nz]', '        self.offsets["n"] += 1\n        self.offsets["i"] += 1\n        self.offsets["i"] += 1\n        self.offsets["n"] += 1\n        [nx, ny, nz]')
ben("offsets-commuted", "io/amr.py", 'self.offsets["i"] += ncache * (4 + 3 * twotondim + 2 * ndim)', 'self.offsets["i"] += (2 * ndim + 4 + twotondim * 3) * ncache')
ben("stepover-split", "io/reader.py", 'self.offsets["d"] += ncache * twotondim * len(self.variables)', 'nvar = len(self.variables)\n        self.offsets["d"] += twotondim * nvar * ncache')
ben("footprint-equivalent", "plot/utils.py", "half_size = cell_sizes[n] * diagonal", "half_size = diagonal * cell_sizes[n]")
ben("pad-commuted", "plot/histogram2d.py", "xmax = xmax + 0.05 * dx", "xmax = 0.05 * dx + xmax")
ben("cross-commuted", "core/vector.py", "        x = self.y * other.z\n        x -= self.z * other.y", "        x = -(self.z * other.y)\n        x += self.y * other.z")
ben("energy-commuted", "config/defaults.py", 'energy = unit_d * ((unit_l / unit_t) ** 2) * units("erg / cm**3")', 'energy = ((unit_l**2) / (unit_t**2)) * unit_d * units("erg / cm**3")')
ben("msun-spelling", "config/defaults.py", "solar_mass = 1.9889e+33 * g", "solar_mass = 1.9889e+30 * kg")
ben("selection-distance-commuted", "plot/map.py", "selection_distance = 0.5 * diagonal * cell_size", "selection_distance = cell_size * (diagonal * 0.5)")
ben("dg-name-after-store", "core/datagroup.py", "        value.name = key\n        self._container[key] = value", "        self._container[key] = value\n        value.name = key")
ben("njit-parallel-serial-loop", "plot/utils.py", "@njit\ndef hist2d", "@njit(parallel=True)\ndef hist2d")
ben("prange-in-serial-njit", "plot/utils.py", "    for i in range(len(x)):\n        indx", "    for i in prange(len(x)):\n        indx")
ben("dg-get-keyword", "core/dataset.py", "        return self.groups.get(key, default)", "        return self.groups.get(key, default)  # delegate")


def _run(args):
    kind, ident, rel, old, new, props = args
    from .cli import run_property, repo_path
    base = SourceTree(repo_path())
    if rel not in base.modules:
        return (kind, ident, "stale", "module %s missing" % rel, {})
    src = base.modules[rel].src
    pairs = old if isinstance(old, list) else [(old, new)]
    new_src = src
    for o, n_ in pairs:
        if new_src.count(o) < 1:
            return (kind, ident, "stale", "pattern not found in %s" % rel, {})
        new_src = new_src.replace(o, n_, 1)
    res = {}
    plist = props if props else ["C%02d" % i for i in range(1, 21)]
    if kind == "benign":
        plist = ["C%02d" % i for i in range(1, 21)]
    for p in plist:
        try:
            t2 = SourceTree(repo_path(), overlay={rel: new_src})
            r = run_property(p, "quick", 0, tree=t2, write=False, quiet=True)
            res[p] = r.exit_code
        except Exception as e:
            res[p] = 2
    if kind == "mutant":
        status = "killed" if any(v == 1 for v in res.values()) else "SURVIVED"
    else:
        status = "silent" if all(v == 0 for v in res.values()) else "NOISY"
    return (kind, ident, status, "", res)


def battery(only_props=None):
    jobs = []
    for mid, rel, old, new, props in M:
        if only_props and not (set(props) & set(only_props)):
            continue
        jobs.append(("mutant", mid, rel, old, new, props))
    if not only_props:
        for bid, rel, old, new in B:
            jobs.append(("benign", bid, rel, old, new, []))
    with ProcessPoolExecutor(max_workers=min(16, os.cpu_count() or 4)) as ex:
        return list(ex.map(_run, jobs))


def main(argv):
    results = battery()
    bad = 0
    for kind, ident, status, msg, res in results:
        flag = ""
        if status in ("SURVIVED", "NOISY", "stale"):
            bad += 1
            flag = "  <<<<"
        fired = sorted(p for p, v in res.items() if v == 1)
        err = sorted(p for p, v in res.items() if v == 2)
        print("%-7s %-28s %-9s fired=%s%s%s %s" % (kind, ident, status, ",".join(fired), " analysis-error=" + ",".join(err) if err else "", flag, msg))
    n_m = sum(1 for r in results if r[0] == "mutant")
    n_b = sum(1 for r in results if r[0] == "benign")
    print("selftest: %d mutants, %d benign overlays, %d problems" % (n_m, n_b, bad))
    return 1 if bad else 0
