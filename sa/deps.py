"""D4: dependence analysis — for every value, the set of source labels it may depend on (data + control dependence).

Sources are the parameters of the entry function; an access path with literal keys rooted at a parameter
(layers[0]['dx'], resolution['x'], basis.n) is its own, finer label, so the analysis is key-sensitive.
Interprocedural by inlining package functions (bounded depth); library calls depend on all their arguments.
Values: DSet (frozenset of labels) | TupleVal (element-wise) | DictVal (per literal key, '*' for the rest).
"""
from __future__ import annotations

import ast

from .flow import FlowWalker, join_all
from .source import ClassInfo, FuncInfo, ModuleInfo, norm, const_value

EMPTY = frozenset()
NONE = frozenset(["!none"])        # the value is definitely None (mode specialisation)
NOTNONE = "!notnone"


def clean(v):
    """Labels of a value without the internal markers."""
    return frozenset(x for x in flat(v) if not x.startswith("!"))


class TupleVal:
    def __init__(self, elts):
        self.elts = list(elts)

    def flat(self):
        out = EMPTY
        for e in self.elts:
            out |= flat(e)
        return out

    def __eq__(self, o):
        return isinstance(o, TupleVal) and self.elts == o.elts

    def __repr__(self):
        return "T%r" % (self.elts,)


class DictVal:
    def __init__(self, items=None, rest=EMPTY):
        self.items = dict(items or {})
        self.rest = rest

    def flat(self):
        out = self.rest
        for v in self.items.values():
            out |= flat(v)
        return out

    def get(self, key):
        if key is not None and key in self.items:
            return self.items[key] if not self.rest else join(self.items[key], self.rest)
        return self.flat()

    def with_item(self, key, v):
        d = DictVal(self.items, self.rest)
        if key is None:
            d.rest = d.rest | flat(v)
        else:
            d.items[key] = v
        return d

    def __eq__(self, o):
        return isinstance(o, DictVal) and self.items == o.items and self.rest == o.rest

    def __repr__(self):
        return "D%r+%r" % (self.items, set(self.rest))


def relabel(v, f):
    if isinstance(v, TupleVal):
        return TupleVal([relabel(e, f) for e in v.elts])
    if isinstance(v, DictVal):
        return DictVal({k: relabel(x, f) for k, x in v.items.items()}, relabel(v.rest, f))
    return frozenset(f(x) for x in v)


def flat(v):
    if isinstance(v, (TupleVal, DictVal)):
        return v.flat()
    return v


def join(a, b):
    if isinstance(a, TupleVal) and isinstance(b, TupleVal) and len(a.elts) == len(b.elts):
        return TupleVal([join(x, y) for x, y in zip(a.elts, b.elts)])
    if isinstance(a, DictVal) and isinstance(b, DictVal):
        keys = set(a.items) | set(b.items)
        return DictVal({k: join(a.items.get(k, EMPTY), b.items.get(k, EMPTY)) for k in keys}, a.rest | b.rest)
    return flat(a) | flat(b)


def add(v, extra):
    """Add labels (control dependence) to every component of a value."""
    if not extra:
        return v
    if isinstance(v, TupleVal):
        return TupleVal([add(e, extra) for e in v.elts])
    if isinstance(v, DictVal):
        return DictVal({k: add(x, extra) for k, x in v.items.items()}, v.rest | extra)
    return v | extra


class DEnv:
    def __init__(self, names=None, ctrl=EMPTY):
        self.names = dict(names or {})
        self.ctrl = ctrl

    def copy(self):
        return DEnv(self.names, self.ctrl)

    def join(self, other):
        out = {}
        for k in set(self.names) | set(other.names):
            if k in self.names and k in other.names:
                out[k] = join(self.names[k], other.names[k])
            else:
                out[k] = self.names.get(k, other.names.get(k))
        return DEnv(out, self.ctrl & other.ctrl)

    def __eq__(self, o):
        return isinstance(o, DEnv) and self.names == o.names and self.ctrl == o.ctrl


class DepAnalysis:
    MAX_DEPTH = 6

    def __init__(self, tree, path_labels=True, none_params=()):
        self.tree = tree
        self.path_labels = path_labels
        self.call_args = {}     # id(call node) -> (call node, [arg values], {kw: value})
        self.assigned = {}      # (function qual, name) -> joined value over all assignments
        self.assigned_at = {}   # id(stmt) -> value
        self.returns = {}
        self.depth = 0
        self.none_params = set(none_params)  # mode specialisation: these parameters are None
        self.functions_seen = set()
        self.compare_sides = {}  # (lineno, normalised text) -> (deps(left), deps(right)) for two-sided comparisons
        self.bindings = {}       # callee qual -> [parameter environment at each inlined call]
        self.relabel = {}        # callee qual -> function applied to the labels of its return value
        self.compare_where = {}  # same keys as compare_sides -> (function, inline stack)
        self.stack = []          # quals of the functions being inlined (innermost last)
        self.lib_calls = []      # (caller FuncInfo, call node, labels of all arguments) for calls that are not inlined

    def analyse(self, fi, param_values=None):
        a = fi.node.args
        env = DEnv()
        for p in a.posonlyargs + a.args + a.kwonlyargs:
            env.names[p.arg] = frozenset([p.arg])
        if a.vararg is not None:
            env.names[a.vararg.arg] = frozenset([a.vararg.arg])
        if a.kwarg is not None:
            env.names[a.kwarg.arg] = frozenset([a.kwarg.arg])
        if param_values:
            env.names.update(param_values)
        self.entry = fi
        self.entry_params = set(env.names)
        return self.run(fi, env)

    def run(self, fi, env):
        self.functions_seen.add(fi.qual)
        w = _DWalker(self, fi)
        w.run(fi.node, env)
        ret = None
        for r in w.returned:
            ret = r if ret is None else join(ret, r)
        self.returns[fi.qual] = ret
        return ret if ret is not None else EMPTY


class _DWalker(FlowWalker):
    def __init__(self, an, fi):
        super().__init__()
        self.an, self.fi, self.tree = an, fi, an.tree
        self.returned = []
        self.is_entry = (an.depth == 0)

    # ------------------------------------------------------------ control
    def test(self, expr, env):
        # mode specialisation on `p is None` / `p is not None` for designated parameters
        val = self.none_test(expr, env)
        d = flat(self.ev(expr, env))
        t, f = env.copy(), env.copy()
        t.ctrl = t.ctrl | d
        f.ctrl = f.ctrl | d
        if val is True:
            return t, None
        if val is False:
            return None, f
        return t, f

    def none_test(self, expr, env):
        if isinstance(expr, ast.Compare) and len(expr.ops) == 1 and isinstance(expr.ops[0], (ast.Is, ast.IsNot)) and \
                isinstance(expr.left, ast.Name) and isinstance(expr.comparators[0], ast.Constant) and \
                expr.comparators[0].value is None:
            v = env.names.get(expr.left.id)
            if v == NONE:
                return isinstance(expr.ops[0], ast.Is)
            if isinstance(v, frozenset) and NOTNONE in v:
                return isinstance(expr.ops[0], ast.IsNot)
        if isinstance(expr, ast.Name):
            v = env.names.get(expr.id)
            if isinstance(v, frozenset) and "!true" in v:
                return True
            if isinstance(v, frozenset) and "!false" in v:
                return False
        if isinstance(expr, ast.UnaryOp) and isinstance(expr.op, ast.Not):
            r = self.none_test(expr.operand, env)
            return None if r is None else (not r)
        return None

    def block(self, stmts, state):
        # control dependence ends at the join: restore ctrl after compound statements (handled in stmt)
        return super().block(stmts, state)

    def stmt(self, st, state):
        if isinstance(st, (ast.If, ast.While, ast.For)):
            saved = state.ctrl
            out = super().stmt(st, state)
            if out is not None:
                out.ctrl = saved
            return out
        return super().stmt(st, state)

    def iter_bind(self, target, it, env):
        v = self.ev(it, env)
        d = flat(v)
        self.assign(target, d, env, it)
        env.ctrl = env.ctrl | d
        return env

    def with_enter(self, item, env):
        v = self.ev(item.context_expr, env)
        if item.optional_vars is not None:
            self.assign(item.optional_vars, v, env, item.context_expr)
        return env

    # ------------------------------------------------------------ statements
    def simple(self, st, env):
        if isinstance(st, ast.Assign):
            v = add(self.ev(st.value, env), env.ctrl)
            # constant booleans keep their truth for mode specialisation
            v = self.special(st.value, v, env)
            for t in st.targets:
                self.assign(t, v, env, st)
            self.an.assigned_at[id(st)] = v
        elif isinstance(st, ast.AnnAssign) and st.value is not None:
            self.assign(st.target, add(self.ev(st.value, env), env.ctrl), env, st)
        elif isinstance(st, ast.AugAssign):
            cur = self.ev(st.target, env)
            v = add(join(flat(cur), flat(self.ev(st.value, env))), env.ctrl)
            self.assign(st.target, v, env, st)
            self.an.assigned_at[id(st)] = v
        elif isinstance(st, ast.Expr):
            self.ev(st.value, env)
            # mutating method on a local name: x.append(v), d.update(...)
            c = st.value
            if isinstance(c, ast.Call) and isinstance(c.func, ast.Attribute) and isinstance(c.func.value, ast.Name) and \
                    c.func.attr in ("append", "extend", "update", "insert", "add", "setdefault"):
                nm = c.func.value.id
                extra = EMPTY
                for a in c.args:
                    extra |= flat(self.ev(a, env))
                for k in c.keywords:
                    extra |= flat(self.ev(k.value, env))
                if nm in env.names:
                    env.names[nm] = add(env.names[nm], extra | env.ctrl)
        elif isinstance(st, ast.Return):
            if st.value is not None:
                self.returned.append(add(self.ev(st.value, env), env.ctrl))
            else:
                self.returned.append(env.ctrl)
        elif isinstance(st, ast.Raise):
            pass
        return env

    def special(self, node, v, env):
        # x = <param> is not None  -> remember the truth under the mode assumption
        r = self.none_test(node, env)
        if r is True:
            return flat(v) | frozenset(["!true"])
        if r is False:
            return flat(v) | frozenset(["!false"])
        return v

    def assign(self, t, v, env, st):
        if isinstance(t, ast.Name):
            env.names[t.id] = v
            key = (self.fi.qual, t.id)
            old = self.an.assigned.get(key)
            self.an.assigned[key] = v if old is None else join(old, v)
        elif isinstance(t, (ast.Tuple, ast.List)):
            if isinstance(v, TupleVal) and len(v.elts) == len(t.elts):
                for e, x in zip(t.elts, v.elts):
                    self.assign(e, x, env, st)
            else:
                for e in t.elts:
                    self.assign(e.value if isinstance(e, ast.Starred) else e, flat(v), env, st)
        elif isinstance(t, ast.Subscript):
            if isinstance(t.value, ast.Name) and t.value.id in env.names:
                cur = env.names[t.value.id]
                key = const_value(t.slice)
                kd = flat(self.ev(t.slice, env)) if not isinstance(t.slice, ast.Slice) else EMPTY
                if isinstance(cur, DictVal):
                    env.names[t.value.id] = cur.with_item(key if isinstance(key, (str, int)) else None, add(v, kd))
                else:
                    env.names[t.value.id] = flat(cur) | flat(v) | kd
            else:
                self.ev(t.value, env)
        elif isinstance(t, ast.Attribute):
            if isinstance(t.value, ast.Name) and t.value.id in env.names:
                env.names[t.value.id] = flat(env.names[t.value.id]) | flat(v)

    # ------------------------------------------------------------ expressions
    def ev(self, node, env):
        m = getattr(self, "ev_" + type(node).__name__, None)
        if m is None:
            out = EMPTY
            for ch in ast.iter_child_nodes(node):
                if isinstance(ch, ast.expr):
                    out |= flat(self.ev(ch, env))
            return out
        return m(node, env)

    def ev_Constant(self, node, env):
        return EMPTY

    def ev_Name(self, node, env):
        v = env.names.get(node.id, EMPTY)
        if isinstance(v, frozenset):
            return frozenset(x for x in v if x not in ("!true", "!false"))
        return v

    def path_label(self, node, env):
        """Label of a literal access path rooted at an entry parameter (only in the entry function)."""
        if not (self.is_entry and self.an.path_labels):
            return None
        parts = []
        n = node
        while True:
            if isinstance(n, ast.Attribute):
                n = n.value
            elif isinstance(n, ast.Subscript) and isinstance(const_value(n.slice), (str, int)):
                n = n.value
            else:
                break
        if isinstance(n, ast.Name) and n.id in self.an.entry_params and n is not node:
            v = env.names.get(n.id)
            if isinstance(v, frozenset) and n.id in v and len([x for x in v if not x.startswith("!")]) == 1:
                return norm(node)
        return None

    def ev_Attribute(self, node, env):
        lab = self.path_label(node, env)
        if lab is not None:
            return frozenset([lab])
        return flat(self.ev(node.value, env))

    def ev_Subscript(self, node, env):
        lab = self.path_label(node, env)
        if lab is not None:
            return frozenset([lab])
        base = self.ev(node.value, env)
        key = const_value(node.slice)
        idx = EMPTY if isinstance(node.slice, ast.Slice) else flat(self.ev(node.slice, env))
        if isinstance(node.slice, ast.Slice):
            for part in (node.slice.lower, node.slice.upper, node.slice.step):
                if part is not None:
                    idx |= flat(self.ev(part, env))
        if isinstance(base, DictVal):
            return add(base.get(key if isinstance(key, (str, int)) else None), idx)
        if isinstance(base, TupleVal) and isinstance(key, int) and -len(base.elts) <= key < len(base.elts):
            return base.elts[key]
        return flat(base) | idx

    def ev_Tuple(self, node, env):
        return TupleVal([self.ev(e, env) for e in node.elts])

    def ev_List(self, node, env):
        out = EMPTY
        for e in node.elts:
            out |= flat(self.ev(e, env))
        return out

    ev_Set = ev_List

    def ev_Dict(self, node, env):
        d = DictVal()
        for k, v in zip(node.keys, node.values):
            if k is None:
                d.rest |= flat(self.ev(v, env))
            else:
                kc = const_value(k)
                d = d.with_item(kc if isinstance(kc, (str, int)) else None, self.ev(v, env))
        return d

    def ev_Compare(self, node, env):
        l = flat(self.ev(node.left, env))
        out = l
        rs = EMPTY
        for c in node.comparators:
            rs |= flat(self.ev(c, env))
        if self.is_entry and len(node.comparators) == 1:
            self.an.compare_sides[(node.lineno, norm(node))] = (clean(l), clean(rs))
            self.an.compare_where[(node.lineno, norm(node))] = (self.fi, tuple(self.an.stack))
        return out | rs

    def ev_NamedExpr(self, node, env):
        v = self.ev(node.value, env)
        self.assign(node.target, v, env, node)
        return v

    def ev_IfExp(self, node, env):
        r = self.none_test(node.test, env)
        t = flat(self.ev(node.test, env))
        if r is True:
            return add(self.ev(node.body, env), t)
        if r is False:
            return add(self.ev(node.orelse, env), t)
        return add(join(self.ev(node.body, env), self.ev(node.orelse, env)), t)

    def _comp(self, node, env, elts):
        env2 = env.copy()
        ctrl = EMPTY
        for g in node.generators:
            d = flat(self.ev(g.iter, env2))
            self.assign(g.target, d, env2, g.iter)
            ctrl |= d
            for c in g.ifs:
                ctrl |= flat(self.ev(c, env2))
        out = ctrl
        for e in elts:
            out |= flat(self.ev(e, env2))
        return out

    def ev_ListComp(self, node, env):
        return self._comp(node, env, [node.elt])

    ev_SetComp = ev_ListComp
    ev_GeneratorExp = ev_ListComp

    def ev_DictComp(self, node, env):
        return self._comp(node, env, [node.key, node.value])

    def ev_Lambda(self, node, env):
        return EMPTY

    def ev_Call(self, node, env):
        args = [self.ev(a, env) for a in node.args]
        kwargs = {}
        star = EMPTY
        for k in node.keywords:
            v = self.ev(k.value, env)
            if k.arg is None:
                if isinstance(v, DictVal):
                    # **{...}: literal keys stay separate keyword arguments (key-sensitive)
                    for kk, vv in v.items.items():
                        if isinstance(kk, str):
                            kwargs.setdefault(kk, vv)
                        else:
                            star |= flat(vv)
                    star |= v.rest
                else:
                    star |= flat(v)
            else:
                kwargs[k.arg] = v
        self.an.call_args[id(node)] = (node, self.fi, args, kwargs)
        f = node.func
        callee = self.tree.resolve_call(self.fi, node)
        recv = EMPTY
        if isinstance(f, ast.Attribute):
            r = self.tree.resolve_expr(self.fi.module, f.value) if isinstance(f.value, (ast.Name, ast.Attribute)) else None
            if not (isinstance(r, ModuleInfo) or (isinstance(r, tuple) and r[0] == "ext")):
                recv = flat(self.ev(f.value, env))
        if isinstance(callee, FuncInfo) and self.an.depth < self.an.MAX_DEPTH and callee.qual != self.fi.qual:
            return self.inline(callee, args, kwargs, star, recv if (callee.cls is not None) else None)
        if isinstance(callee, ClassInfo):
            init = self.tree.method(callee, "__init__")
        out = recv | star
        for a in args:
            out |= flat(a)
        for v in kwargs.values():
            out |= flat(v)
        if isinstance(f, ast.Name) and f.id in env.names:
            out |= flat(env.names[f.id])
        self.an.lib_calls.append((self.fi, node, out, tuple(self.an.stack)))
        # dict(...) with keywords keeps keys
        if isinstance(f, ast.Name) and f.id == "dict" and not args:
            return DictVal(kwargs, star)
        return out

    def inline(self, callee, args, kwargs, star, self_val):
        a = callee.node.args
        names = [x.arg for x in a.posonlyargs + a.args]
        env = DEnv()
        if self_val is not None and names:
            env.names[names[0]] = self_val
            names = names[1:]
        for n_, v in zip(names, args):
            env.names[n_] = v
        defaults = a.defaults
        dn = names[len(names) - len(defaults):] if defaults else []
        for n_ in names[len(args):]:
            if n_ in kwargs:
                env.names[n_] = kwargs[n_]
            elif n_ in dn:
                d = defaults[dn.index(n_)]
                env.names[n_] = NONE if (isinstance(d, ast.Constant) and d.value is None and not star) else star
            else:
                env.names[n_] = star
        for x, d in zip(a.kwonlyargs, a.kw_defaults):
            if x.arg in kwargs:
                env.names[x.arg] = kwargs[x.arg]
            else:
                env.names[x.arg] = NONE if (isinstance(d, ast.Constant) and d.value is None) and not star else star
        rest = EMPTY
        for v in args[len(names):]:
            rest |= flat(v)
        if a.vararg is not None:
            env.names[a.vararg.arg] = rest
        if a.kwarg is not None:
            known = set(names) | {x.arg for x in a.kwonlyargs}
            # the keyword arguments the callee does not name stay apart, each under its own key (they are handed on with **name)
            extra = {k: v for k, v in kwargs.items() if k not in known}
            env.names[a.kwarg.arg] = DictVal(extra, star) if extra else star
        self.an.bindings.setdefault(callee.qual, []).append(dict(env.names))
        self.an.depth += 1
        self.an.stack.append(callee.qual)
        try:
            r = self.an.run(callee, env)
        finally:
            self.an.depth -= 1
            self.an.stack.pop()
        f = self.an.relabel.get(callee.qual)
        return relabel(r, f) if f is not None else r
