"""D2: dimensional evaluation — numeric coefficient x monomial in (unit_d, unit_l, unit_t) x CGS dimension vector."""
from __future__ import annotations

import ast
import math
import re
from fractions import Fraction as F

from .peval import Evaluator, Unsupported
from .specs import dims as S2


class DimQ:
    """coef * prod(sym^exp) [dims]"""

    def __init__(self, coef=1.0, syms=None, dims=(0, 0, 0, 0)):
        self.coef = float(coef)
        self.syms = {k: F(v) for k, v in (syms or {}).items() if v != 0}
        self.dims = tuple(F(d) for d in dims)

    def __mul__(self, o):
        o = lift(o)
        s = dict(self.syms)
        for k, v in o.syms.items():
            s[k] = s.get(k, 0) + v
        return DimQ(self.coef * o.coef, s, tuple(a + b for a, b in zip(self.dims, o.dims)))

    __rmul__ = __mul__

    def __truediv__(self, o):
        return self * (lift(o) ** -1)

    def __rtruediv__(self, o):
        return lift(o) * (self ** -1)

    def __pow__(self, n):
        if isinstance(n, DimQ):
            if n.syms or any(n.dims):
                raise Unsupported("power with a dimensional exponent")
            n = n.coef
        n = F(n).limit_denominator(64)
        if self.coef < 0 and n.denominator != 1:
            raise Unsupported("root of a negative number")
        return DimQ(self.coef ** float(n), {k: v * n for k, v in self.syms.items()}, tuple(d * n for d in self.dims))

    def __add__(self, o):
        o = lift(o)
        if o.syms != self.syms or o.dims != self.dims:
            raise Unsupported("sum of quantities with different dimensions/scales")
        return DimQ(self.coef + o.coef, self.syms, self.dims)

    __radd__ = __add__

    def __sub__(self, o):
        return self + lift(o) * -1.0

    def __neg__(self):
        return self * -1.0

    def __repr__(self):
        s = "*".join("%s^%s" % (k, v) for k, v in sorted(self.syms.items()))
        return "%.6g%s [M^%s L^%s T^%s K^%s]" % ((self.coef, "*" + s if s else "") + tuple(str(d) for d in self.dims))


def lift(x):
    if isinstance(x, DimQ):
        return x
    if isinstance(x, (int, float)):
        return DimQ(x)
    raise Unsupported("not a quantity: %r" % (x,))


_TOK = re.compile(r"\s*(\*\*|\^|\*|/|\(|\)|[A-Za-z_][A-Za-z_0-9]*|[-+]?\d+\.?\d*(?:[eE][-+]?\d+)?)")


def parse_unit(text, extra_atoms=None):
    """Parse a pint-style unit expression ('g / cm**3', 'erg / cm^3 / K^4') into a DimQ."""
    atoms = dict(S2.ATOMS)
    if extra_atoms:
        atoms.update(extra_atoms)
    toks = []
    pos = 0
    text = text.strip()
    while pos < len(text):
        m = _TOK.match(text, pos)
        if not m:
            raise Unsupported("cannot tokenise unit %r" % text)
        toks.append(m.group(1))
        pos = m.end()
    if not toks:
        return DimQ()
    i = [0]

    def peek():
        return toks[i[0]] if i[0] < len(toks) else None

    def take():
        t = toks[i[0]]
        i[0] += 1
        return t

    def atom():
        t = take()
        if t == "(":
            v = expr()
            if take() != ")":
                raise Unsupported("unbalanced parenthesis in unit %r" % text)
            return v
        if re.match(r"[-+]?\d", t):
            return DimQ(float(t))
        if t in atoms:
            sc, d = atoms[t]
            return sc if isinstance(sc, DimQ) else DimQ(sc, None, d)
        raise Unsupported("unknown unit atom %r in %r" % (t, text))

    def power():
        v = atom()
        if peek() in ("**", "^"):
            take()
            e = take()
            neg = False
            if e == "(":
                e = take()
                take()
            v = v ** F(e)
        return v

    def expr():
        v = power()
        while peek() in ("*", "/"):
            op = take()
            w = power()
            v = v * w if op == "*" else v / w
        return v

    v = expr()
    if i[0] != len(toks):
        raise Unsupported("trailing tokens in unit %r" % text)
    return v


class DimEval(Evaluator):
    """Evaluates config/defaults.configure_units in D2."""

    def __init__(self, tree, fi, env):
        super().__init__(env)
        self.tree, self.fi = tree, fi

    def ev_Name(self, node):
        if node.id in self.env:
            return self.env[node.id]
        r = self.tree.resolve_name(self.fi.module, node.id)
        if isinstance(r, tuple) and r[0] == "ext":
            if r[1] == "math.pi":
                return math.pi
            if r[1] in ("math.sqrt", "numpy.sqrt"):
                return lambda x: lift(x) ** F(1, 2)
            if r[1] == "math.e":
                return math.e
        if hasattr(r, "node") and hasattr(r, "qual") and isinstance(r.node, ast.FunctionDef):
            # a helper of the package (e.g. the table-driven form of the library): evaluated in the same domain
            helper = r

            def call_helper(*args, **kwargs):
                return DimEval(self.tree, helper, {}).run_function(helper.node, list(args), kwargs)
            return call_helper
        if isinstance(r, tuple) and r and r[0] == "value":
            sub = DimEval(self.tree, self.fi, {})
            return sub.ev(r[2])
        if node.id in ("dict", "list", "tuple", "zip", "enumerate", "len", "range", "sorted", "float", "int", "str"):
            return {"dict": dict, "list": list, "tuple": tuple, "zip": zip, "enumerate": enumerate, "len": len, "range": range, "sorted": sorted,
                    "float": float, "int": int, "str": str}[node.id]
        raise Unsupported("name %s" % node.id)

    def ev_Attribute(self, node):
        d = self.tree.dotted(self.fi.module, node)
        if d in ("math.pi", "numpy.pi"):
            return math.pi
        if d in ("math.sqrt", "numpy.sqrt"):
            return lambda x: lift(x) ** F(1, 2)
        if isinstance(node.value, ast.Name) and node.value.id in ("dict", "str", "list", "tuple") and node.value.id not in self.env and not node.attr.startswith("_"):
            # dict.fromkeys, str.join, ...: the builtin's own pure class-level function
            return getattr({"dict": dict, "str": str, "list": list, "tuple": tuple}[node.value.id], node.attr)
        return super().ev_Attribute(node)

    def binop(self, node, op, a, b):
        if isinstance(a, (int, float)) and isinstance(b, (int, float)):
            return super().binop(node, op, a, b)
        if isinstance(op, ast.Add) and type(a) is type(b) and isinstance(a, (tuple, list, str)):
            return a + b                      # concatenation of name tables
        if isinstance(op, ast.BitOr) and isinstance(a, dict) and isinstance(b, dict):
            return {**a, **b}                 # dict merge
        if isinstance(op, ast.Mult) and isinstance(a, (tuple, list, str)) and isinstance(b, int):
            return a * b
        try:
            if isinstance(op, ast.Mult):
                return lift(a) * lift(b)
            if isinstance(op, ast.Div):
                return lift(a) / lift(b)
            if isinstance(op, ast.Pow):
                return lift(a) ** b
            if isinstance(op, ast.Add):
                return lift(a) + lift(b)
            if isinstance(op, ast.Sub):
                return lift(a) - lift(b)
        except Unsupported:
            raise
        raise Unsupported("operator in %s" % ast.unparse(node))

    def call(self, node, func, args, kwargs):
        if func == "units-factory":
            if len(args) == 1 and isinstance(args[0], str):
                return parse_unit(args[0])
            raise Unsupported("units(%r)" % (args,))
        if callable(func):
            return func(*args, **kwargs)
        raise Unsupported("call %s" % ast.unparse(node.func))
