"""Parallel-loop write classification for numba kernels.

In a function whose decorator resolves to numba.njit/jit(parallel=True), every store inside the body of a
`for v in prange(...)` loop is classified:
    private      a subscript store one of whose index positions is exactly the induction variable v (each
                 iteration owns its slot), or a store to a name first assigned inside the loop body (loop-local)
    reduction    augmented assignment to a scalar name / whole-array name defined outside the loop (numba reduction)
    shared-rmw   augmented assignment to a subscript whose indices do not contain v  -> lost-update race
    shared-store plain subscript store whose indices do not contain v (last writer wins); allowed only under a guard
                 that the calling rule accepts
"""
from __future__ import annotations

import ast

from .source import norm, const_value, walk_no_nested


def is_parallel(tree, fi):
    for name, kws in tree.decorators(fi):
        if name in ("numba.njit", "numba.jit", "numba.core.decorators.njit"):
            p = kws.get("parallel")
            if p is not None and const_value(p) is True:
                return True
    return False


def is_numba(tree, fi):
    return any(name in ("numba.njit", "numba.jit") for name, _ in tree.decorators(fi))


def prange_loops(tree, fi):
    out = []
    for n in walk_no_nested(fi.node):
        if isinstance(n, ast.For) and isinstance(n.iter, ast.Call):
            d = tree.dotted(fi.module, n.iter.func)
            if d in ("numba.prange", "numba.misc.special.prange", "numba.np.ufunc.parallel.prange"):
                out.append(n)
    return out


def index_names(slc):
    names = set()
    for n in ast.walk(slc):
        if isinstance(n, ast.Name):
            names.add(n.id)
    return names


def exact_index_positions(slc):
    """The index expressions of a subscript, position by position."""
    if isinstance(slc, ast.Tuple):
        return list(slc.elts)
    return [slc]


def classify_writes(tree, fi):
    """[(kind, stmt, target, loop, guards)] for every store in every prange body of fi."""
    from .flow import guards_of
    results = []
    for loop in prange_loops(tree, fi):
        if not isinstance(loop.target, ast.Name):
            results.append(("unknown", loop, loop.target, loop, []))
            continue
        v = loop.target.id
        local_names = set()
        for n in ast.walk(loop):
            if isinstance(n, ast.Assign):
                for t in n.targets:
                    for x in ast.walk(t):
                        if isinstance(x, ast.Name) and isinstance(x.ctx, ast.Store):
                            local_names.add(x.id)
            if isinstance(n, ast.For) and isinstance(n.target, ast.Name):
                local_names.add(n.target.id)
        # values derived only from the induction variable inside the loop are NOT private indices: only v itself is
        for n in ast.walk(loop):
            targets = []
            if isinstance(n, ast.Assign):
                # a, b = f(...) stores into each element of the target list
                flat = []
                for t in n.targets:
                    stack = [t]
                    while stack:
                        x = stack.pop()
                        if isinstance(x, (ast.Tuple, ast.List)):
                            stack.extend(x.elts)
                        elif isinstance(x, ast.Starred):
                            stack.append(x.value)
                        else:
                            flat.append(x)
                targets = [(t, n, False) for t in flat]
            elif isinstance(n, ast.AugAssign):
                targets = [(n.target, n, True)]
            for t, st, aug in targets:
                if isinstance(t, ast.Name):
                    if aug and t.id not in local_names:
                        results.append(("reduction", st, t, loop, []))
                    elif aug:
                        results.append(("private", st, t, loop, []))
                    else:
                        results.append(("private", st, t, loop, []))
                elif isinstance(t, ast.Subscript):
                    pos = exact_index_positions(t.slice)
                    owns = any(isinstance(p, ast.Name) and p.id == v for p in pos)
                    base_local = isinstance(t.value, ast.Name) and t.value.id in local_names
                    if owns or base_local:
                        results.append(("private", st, t, loop, []))
                    else:
                        g = guards_of(fi.node, st) or []
                        results.append(("shared-rmw" if aug else "shared-store", st, t, loop, g))
                else:
                    results.append(("unknown", st, t, loop, []))
    return results


FIXTURE = '''
from numba import njit, prange
import numpy as np

@njit(parallel=True)
def racy(x, nb):
    counts = np.zeros(nb)
    for i in prange(len(x)):
        b = int(x[i])
        counts[b] += 1
    return counts
'''
