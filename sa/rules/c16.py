"""C16 — sub-domain extraction returns exactly the rows inside the region."""
from __future__ import annotations

import ast

from ..source import norm, const_value, walk_no_nested, AnalysisError
from .common import is_name, params, returns_of, calls_in, stores_in, flatten_targets, root_name
from .keydomain import reader_kinds
from . import subdomain_folds as sf

EXPLANATION = (
    "Static rules on spatial/subdomain.py (both functions, by sibling agreement): (R1) key domain: every literal group key "
    "used to subscript a Dataset belongs to the set of group names the loader produces ({reader.kind} = mesh, part, sink), "
    "and the fallback to the mesh positions is evaluated lazily, only when the group has no position of its own; "
    "(R2) membership predicates: sphere = strict `<` between the norm of (pos - origin) and the radius; box = for each axis "
    "the pair centred.a <= d_a/2 and centred.a >= -d_a/2 with x<->dx, y<->dy, z<->dz, all six ANDed; (R3) one mask for the "
    "whole group: the group is indexed with that mask through Datagroup.__getitem__, behind the shape guard and the "
    "any-row guard; (R4) the input is untouched: no store through the dataset or anything reached from it, every inserted "
    "group is the result of mask-indexing (a new Datagroup), and the metadata is a copy.")
NOT_DECIDED = "boundary rounding; 1-D/2-D datasets (centered_pos.z is None); numeric unit conversion (pint)"
TRUSTED = ("CPython ast", "Array comparison semantics as established by C07", "Datagroup.__getitem__ as established by C06.R3")

FUNCS = ["spatial/subdomain.py::extract_sphere", "spatial/subdomain.py::extract_box"]


def r1_fold(run, tree):
    run.rule("C16.R1", "extract_sphere / extract_box folded over scenario datasets: which groups are returned, which mask selects their rows "
             "(as polynomial atoms), row alignment of all members, own positions before mesh positions, lazy mesh fallback, input untouched, "
             "metadata copied", "D7 fold of both functions through the repository's Dataset/Datagroup/Vector classes + D1 on the mask",
             "the mesh group is named after the kind of the AMR reader (key-domain propagation)", floor=8)
    readers, kinds = reader_kinds(tree)
    run.extra["group_key_domain"] = sorted(set(kinds.values()))
    mesh_names = [kinds[k] for k, cls in readers.items() if getattr(cls, "name", "") == "AmrReader"]
    if len(mesh_names) != 1:
        raise AnalysisError("cannot identify the group name produced by the AMR reader: %s" % kinds)
    sf.check_extract(run, tree, mesh_names[0])


def r_conversion(run, tree):
    from . import array_folds as af
    run.rule("C16.R5", "origin, radius and sizes are brought to the unit of the positions by Array.to (shared with C02/C08): scales by the unit ratio, no cast back to the source dtype", "D7 fold of Array.to", "", floor=6)
    af.check_to_fold(run, tree)


def r_parent_links(run, tree):
    from . import core_folds as cf
    run.rule("C16.R6", "every way of putting a group into a Dataset sets its parent link (the mesh positions of groups without their own are "
             "found through group.parent)", "D7 fold of the Dataset class (shared with C20)", "", floor=4)
    cf.check_dataset_histories(run, tree)


RULES = [r1_fold, r_conversion, r_parent_links]
