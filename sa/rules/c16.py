"""C16 — sub-domain extraction returns exactly the rows inside the region."""
from __future__ import annotations

import ast

from ..source import norm, const_value, walk_no_nested, AnalysisError
from .common import is_name, params, returns_of, calls_in, stores_in, flatten_targets, root_name
from .keydomain import reader_kinds

EXPLANATION = (
    "Static rules on spatial/subdomain.py (both functions, by sibling agreement): (R1) key domain: every literal group key "
    "used to subscript a Dataset belongs to the set of group names the loader produces ({reader.kind} = mesh, part, sink), "
    "and the fallback to the mesh positions is evaluated lazily, only when the group has no position of its own; "
    "(R2) membership predicates: sphere = strict `<` between the norm of (pos - origin) and the radius; box = for each axis "
    "the pair centred.a <= d_a/2 and centred.a >= -d_a/2 with x<->dx, y<->dy, z<->dz, all six ANDed; (R3) one mask for the "
    "whole group: the group is indexed with that mask through Datagroup.__getitem__, behind the shape guard and the "
    "any-row guard; (R4) the input is untouched: no store through the dataset or anything reached from it, every inserted "
    "group is the result of mask-indexing (a new Datagroup), and the metadata is a copy.")
NOT_DECIDED = "boundary rounding; 1-D/2-D datasets (centered_pos.z is None); numeric unit conversion (pint)"
TRUSTED = ("CPython ast", "Array comparison semantics as established by C07", "Datagroup.__getitem__ as established by C06.R3")

FUNCS = ["spatial/subdomain.py::extract_sphere", "spatial/subdomain.py::extract_box"]


def main_loop(fi):
    loops = [n for n in fi.node.body if isinstance(n, ast.For)]
    if len(loops) != 1:
        raise AnalysisError("%s: expected one loop over the groups" % fi.qual)
    return loops[0]


def r1_key_domain(run, tree):
    run.rule("C16.R1", "group keys exist (key domain); mesh fallback lazy and only for groups without positions",
             "key-domain propagation + path rule", "", floor=4)
    readers, kinds = reader_kinds(tree)
    domain = set(kinds.values())
    run.extra["group_key_domain"] = sorted(domain)
    for q in FUNCS:
        fi = tree.func(q)
        run.analysed(fi)
        DATASET = params(fi)[0]
        lp = main_loop(fi)
        gname = lp.target.elts[1].id if isinstance(lp.target, ast.Tuple) else None
        dataset_exprs = {DATASET, "%s.parent" % gname}
        n_keys = 0
        for n in walk_no_nested(fi.node):
            if isinstance(n, ast.Subscript) and isinstance(const_value(n.slice), str) and norm(n.value) in dataset_exprs:
                key = const_value(n.slice)
                n_keys += 1
                run.ob("%s::group-key[%s]" % (q, key), key in domain, fi.where(n),
                       "%s[%r]: the loader produces the groups %s" % (norm(n.value), key, sorted(domain)),
                       "every dataset produced by load(): KeyError(%r)" % key)
        # how pos is obtained
        pos_assign = [s for s in walk_no_nested(lp) if isinstance(s, ast.Assign) and is_name(s.targets[0], "pos")]
        own_first, lazy = False, False
        fallback_key = None
        for s in lp.body:
            if isinstance(s, ast.Assign) and is_name(s.targets[0], "pos") and isinstance(s.value, ast.Call) and \
                    norm(s.value.func) == "%s.get" % gname and const_value(s.value.args[0]) == "position":
                own_first = True
                default = s.value.args[1] if len(s.value.args) > 1 else None
                if default is not None and not (isinstance(default, ast.Constant) and default.value is None):
                    # eager default: evaluated even for groups that have positions
                    run.violated("%s::eager-fallback" % q, fi.where(s),
                                 "the fallback `%s` is evaluated eagerly as the default of .get()" % norm(default),
                                 "a dataset without that group raises although every group has its own positions")
            if isinstance(s, ast.If) and norm(s.test) in ("pos is None",):
                for t in s.body:
                    if isinstance(t, ast.Assign) and is_name(t.targets[0], "pos"):
                        lazy = True
        run.ob("%s::own-position-first" % q, own_first, fi.where(lp),
               "a group's own 'position' member is looked up first: %s" % own_first,
               "a group with its own positions (particles, sinks) that has as many rows as the mesh is filtered with the "
               "mesh positions")
        run.ob("%s::lazy-mesh-fallback" % q, lazy or not any("parent" in norm(s) for s in pos_assign), fi.where(lp),
               "mesh positions are used only under `pos is None`: %s" % lazy,
               "groups with positions depend on the presence of a mesh group")
        # pos must not be re-bound to the mesh position on any other path
        others = [s for s in pos_assign if not (isinstance(s.value, ast.Call) and norm(s.value.func) == "%s.get" % gname)]
        guarded = all(any(isinstance(p, ast.If) and norm(p.test) == "pos is None" and s in list(ast.walk(p)) for p in lp.body)
                      for s in others)
        run.ob("%s::fallback-only-when-missing" % q, guarded, fi.where(lp), "%d other assignments of pos, all under `pos is None`: %s" % (
            len(others), guarded), "the mesh positions take priority over the group's own")


def r2_predicates(run, tree):
    run.rule("C16.R2", "membership predicates", "sibling agreement + table", "", floor=4)
    fi = tree.func(FUNCS[0])
    run.analysed(fi)
    pn = params(fi)  # dataset, radius, origin
    lp = main_loop(fi)
    txt = {norm(s) for s in walk_no_nested(lp) if isinstance(s, ast.stmt)}
    r_ok = "r = (pos - %s).norm" % pn[2] in txt
    c_ok = "c = (r < %s).values" % pn[1] in txt
    run.ob(FUNCS[0] + "::distance", r_ok, fi.where(lp), "r = |pos - origin|: %s" % r_ok, "distance measured from another point")
    run.ob(FUNCS[0] + "::inside", c_ok, fi.where(lp), "inside <=> r < radius (strict, unit-aware): %s" % c_ok,
           "rows exactly on the sphere are included, or raw numbers in different units are compared")
    fi = tree.func(FUNCS[1])
    run.analysed(fi)
    pn = params(fi)  # dataset, dx, dy, dz, origin
    lp = main_loop(fi)
    txt = {norm(s) for s in walk_no_nested(lp) if isinstance(s, ast.stmt)}
    cen_ok = "centered_pos = pos - %s" % pn[4] in txt
    run.ob(FUNCS[1] + "::centred", cen_ok, fi.where(lp), "centred = pos - origin: %s" % cen_ok, "box centred elsewhere")
    pairs = {}
    for s in walk_no_nested(lp):
        if isinstance(s, ast.Assign) and isinstance(s.targets[0], ast.Name) and isinstance(s.value, ast.BinOp) and \
                isinstance(s.value.op, ast.BitAnd):
            pairs[s.targets[0].id] = s.value
    for axis, size in zip("xyz", pn[1:4]):
        found = None
        for name, be in pairs.items():
            sides = [norm(be.left), norm(be.right)]
            up = ["centered_pos.%s <= %s * 0.5" % (axis, size), "centered_pos.%s <= 0.5 * %s" % (axis, size),
                  "centered_pos.%s <= %s / 2" % (axis, size)]
            lo = ["centered_pos.%s >= -%s * 0.5" % (axis, size), "centered_pos.%s >= -0.5 * %s" % (axis, size),
                  "centered_pos.%s >= -%s / 2" % (axis, size), "centered_pos.%s >= -(%s * 0.5)" % (axis, size)]
            if any(u in sides for u in up) and any(l in sides for l in lo):
                found = name
        run.ob("%s::axis[%s]" % (FUNCS[1], axis), found is not None, fi.where(lp),
               "axis %s: -%s/2 <= offset <= %s/2 %s" % (axis, size, size, "as %s" % found if found else "NOT found"),
               "the %s extent of the box is tested against another size or axis, or one side is open" % axis)
        pairs.pop(found, None) if found else None
    comb = [norm(s.value) for s in walk_no_nested(lp) if isinstance(s, ast.Assign) and is_name(s.targets[0], "c")]
    ok = any(c.replace(" ", "") in ("(cx&cy&cz).values",) for c in comb)
    run.ob(FUNCS[1] + "::all-axes-anded", ok, fi.where(lp), "c = %s" % comb, "a row inside on two axes only is returned")


def r3_r4_group_mask_and_input(run, tree):
    run.rule("C16.R3", "one mask applied to the whole group behind the guards; input untouched; metadata copied", "path + effect rule",
             "", floor=8)
    for q in FUNCS:
        fi = tree.func(q)
        pn = params(fi)
        DATASET = pn[0]
        lp = main_loop(fi)
        gname = lp.target.elts[1].id if isinstance(lp.target, ast.Tuple) else None
        kname = lp.target.elts[0].id if isinstance(lp.target, ast.Tuple) else None
        run.ob(q + "::iterates-all-groups", norm(lp.iter) == "%s.items()" % DATASET, fi.where(lp), "loop over %s" % norm(lp.iter),
               "a group is never considered")
        # shape guard precedes the mask
        guard_idx = next((i for i, s in enumerate(lp.body) if isinstance(s, ast.If) and norm(s.test) == "pos.shape != %s.shape" % gname
                          and any(isinstance(x, ast.Continue) for x in s.body)), None)
        store = None
        for i, s in enumerate(lp.body):
            if isinstance(s, ast.If) and norm(s.test) in ("np.any(c)", "c.any()"):
                for t in s.body:
                    if isinstance(t, ast.Assign) and isinstance(t.targets[0], ast.Subscript) and norm(t.targets[0].value) == "subdomain":
                        store = (i, t)
            elif isinstance(s, ast.Assign) and isinstance(s.targets[0], ast.Subscript) and norm(s.targets[0].value) == "subdomain":
                store = (i, s)
                run.violated(q + "::any-row-guard", fi.where(s), "a group is inserted without the `np.any(c)` guard",
                             "groups with no row inside are returned as empty groups instead of being omitted")
        stores_other = []
        for n in walk_no_nested(lp):
            if isinstance(n, ast.Assign) and isinstance(n.targets[0], ast.Subscript) and norm(n.targets[0].value) == "subdomain":
                if store is None or n is not store[1]:
                    stores_other.append(n)
        run.ob(q + "::shape-guard-before-mask", guard_idx is not None and store is not None and guard_idx < store[0], fi.where(lp),
               "shape guard %s" % ("precedes the insertion" if guard_idx is not None else "missing"),
               "a group without positions and with another length is masked with the mesh mask (IndexError / wrong rows)")
        if store is None:
            run.violated(q + "::insertion", fi.where(lp), "no `subdomain[name] = ...` under the any-row guard", "nothing is returned")
            continue
        t = store[1]
        val = t.value
        ok_val = isinstance(val, ast.Subscript) and is_name(val.slice, "c") and norm(val.value) in ("%s[%s]" % (DATASET, kname), gname)
        run.ob(q + "::whole-group-masked", ok_val and norm(t.targets[0].slice) == kname and not stores_other, fi.where(t),
               "inserted value: %s under key %s%s" % (norm(val), norm(t.targets[0].slice), "; other insertions: %d" % len(stores_other) if stores_other else ""),
               "the input group object itself (or a differently indexed group) is placed in the result: the input is "
               "re-parented / shares its members, or rows do not correspond")
        # no store through the dataset
        bad = []
        for tgt, st in stores_in(fi.node):
            for x in flatten_targets(tgt):
                if isinstance(x, (ast.Attribute, ast.Subscript)) and root_name(x) in (DATASET, gname, "pos"):
                    bad.append(st)
        for n in walk_no_nested(fi.node):
            if isinstance(n, ast.Call) and isinstance(n.func, ast.Attribute) and root_name(n.func.value) in (DATASET, gname) and \
                    n.func.attr in ("update", "pop", "clear", "sortby", "__setitem__", "__delitem__", "setdefault"):
                bad.append(n)
            if isinstance(n, ast.AugAssign) and root_name(n.target) in (DATASET, gname, "pos", pn[-1]):
                bad.append(n)
        run.ob(q + "::input-not-written", not bad, fi.where(bad[0]) if bad else fi.where(),
               "stores through the input: %s" % ([norm(b)[:50] for b in bad] or "none"), "the input dataset is modified")
        meta = [s for s in fi.node.body if isinstance(s, ast.Assign) and norm(s.targets[0]) == "subdomain.meta"]
        ok_meta = len(meta) == 1 and norm(meta[0].value) in ("%s.meta.copy()" % DATASET, "dict(%s.meta)" % DATASET)
        run.ob(q + "::meta-copied", ok_meta, fi.where(meta[0]) if meta else fi.where(), "subdomain.meta = %s" % (
            norm(meta[0].value) if meta else "?"), "metadata missing from the result, or shared with the input")
        fresh = any(isinstance(s, ast.Assign) and is_name(s.targets[0], "subdomain") and norm(s.value) == "Dataset()" for s in fi.node.body)
        rets = returns_of(fi.node)
        run.ob(q + "::returns-new-dataset", fresh and len(rets) == 1 and is_name(rets[0].value, "subdomain"), fi.where(),
               "result is a new Dataset(): %s" % fresh, "the input dataset is returned", nontrivial=False)


def r_conversion(run, tree):
    from . import array_folds as af
    run.rule("C16.R5", "origin, radius and sizes are brought to the unit of the positions by Array.to (shared with C02/C08): scales by the unit ratio, no cast back to the source dtype", "D7 fold of Array.to", "", floor=6)
    af.check_to_fold(run, tree)


def r_parent_links(run, tree):
    from . import core_folds as cf
    run.rule("C16.R6", "every way of putting a group into a Dataset sets its parent link (the mesh positions of groups without their own are "
             "found through group.parent)", "D7 fold of the Dataset class (shared with C20)", "", floor=4)
    cf.check_dataset_histories(run, tree)


RULES = [r_conversion, r_parent_links, r1_key_domain, r2_predicates, r3_r4_group_mask_and_input]
