"""C16 — sub-domain extraction returns exactly the rows inside the region."""
from __future__ import annotations

import ast

from ..source import AnalysisError
from .keydomain import reader_kinds
from . import subdomain_folds as sf

EXPLANATION = "(R1) extract_sphere / extract_box interpreted through the repository's Dataset/Datagroup/Vector classes over scenario datasets (mesh, hydro without positions, particles with as many rows as the mesh, sinks, a group of another length; a dataset without a mesh group): which groups are returned, the ONE mask that selects the rows of every member as polynomial atoms (|pos-origin| < radius; |offset_a| <= size_a/2 per axis), own positions before mesh positions, lazy mesh fallback under the group name the AMR reader produces, input untouched, metadata copied; (R5) Array.to exact (shared); (R6) every way of putting a group into a Dataset sets its parent link (shared with C20). Closures (a shared _extract helper with per-shape select functions) are interpreted. (R7) the distance to the origin is a total norm; one group object stored under two keys is returned under both. One position Vector of every scenario has a component assigned after construction (pos.z = z). (R5) group[mask] applies one selection to every member for masks of every rank (shared with C06.R3); mask.all() / mask.any() are answered from what the scenario says about the mask."
NOT_DECIDED = 'boundary rounding; 1-D/2-D datasets; numeric unit conversion (pint)'
TRUSTED = ('CPython ast', 'Array comparison semantics as established by C07', 'Datagroup.__getitem__ as established by C06.R3', 'the interpreter sa/models.py (ModelEval) and its library models')

FUNCS = ["spatial/subdomain.py::extract_sphere", "spatial/subdomain.py::extract_box"]

TECHNIQUE = 'static analysis: abstract interpretation of the extraction functions over scenario datasets with polynomial normal forms of the masks'

def r1_fold(run, tree):
    run.rule("C16.R1", "extract_sphere / extract_box folded over scenario datasets: which groups are returned, which mask selects their rows "
             "(as polynomial atoms), row alignment of all members, own positions before mesh positions, lazy mesh fallback, input untouched, "
             "metadata copied", "D7 fold of both functions through the repository's Dataset/Datagroup/Vector classes + D1 on the mask",
             "the mesh group is named after the kind of the AMR reader (key-domain propagation)", floor=8)
    readers, kinds = reader_kinds(tree)
    run.extra["group_key_domain"] = sorted(set(kinds.values()))
    mesh_names = [kinds[k] for k, cls in readers.items() if getattr(cls, "name", "") == "AmrReader"]
    if len(mesh_names) != 1:
        raise AnalysisError("cannot identify the group name produced by the AMR reader: %s" % kinds)
    sf.check_extract(run, tree, mesh_names[0])


def r_conversion(run, tree):
    from . import array_folds as af
    run.rule("C16.R5", "origin, radius and sizes are brought to the unit of the positions by Array.to (shared with C02/C08): scales by the unit ratio, no cast back to the source dtype", "D7 fold of Array.to", "", floor=6)
    af.check_to_fold(run, tree)
    # ... from the operand as it is NOW: `radius *= 3` between two extractions must be seen by the second one (no memo of an earlier conversion)
    from . import quantity_stack as qs
    qs.check_to_stack(run, tree, only=("history",))


def r_parent_links(run, tree):
    from . import core_folds as cf
    run.rule("C16.R6", "every way of putting a group into a Dataset sets its parent link (the mesh positions of groups without their own are "
             "found through group.parent)", "D7 fold of the Dataset class (shared with C20)", "", floor=4)
    cf.check_dataset_histories(run, tree)
    # the link is a reference like any other (it keeps the Dataset it names alive): ds.copy() re-parents the SHARED groups to the copy - with a
    # weak link the groups lose their parent as soon as that copy is dropped, and extract_* no longer finds the mesh positions
    from ..models import WeakRef, PyObj, Raised
    from ..peval import ProgramRaised, Unsupported
    from ..source import AnalysisError
    construct = "core/dataset.py::Dataset.__setitem__[the parent link is an ordinary (strong) reference]"
    try:
        hooks = cf.core_hooks()
        ds = cf._ev(tree, hooks, cf.DS_Q + ".__init__").instantiate(tree.cls(cf.DS_Q), [], {}, None)
        g = cf.new_group(tree, hooks)
        cf.call_method(tree, hooks, ds, "__setitem__", "gas", g)
        vals = []
        for v in g._attrs.values():       # the attribute itself, or an entry of a container attribute
            vals.append(v)
            vals.extend(v.values() if isinstance(v, dict) else v if isinstance(v, (list, tuple, set)) else [])
        strong = any(v is ds for v in vals)
        weak = [k for k, v in g._attrs.items() if isinstance(v, WeakRef)]
        run.ob(construct, strong and not weak, "src/osyris/core/datagroup.py", "group attributes holding the dataset: %s%s" % (
            [k for k, v in g._attrs.items() if v is ds], (", weak references in %s" % weak) if weak else ""),
            "c = ds.copy(); del c; extract_sphere(ds, ...) - the groups (shared with the dropped copy, re-parented to it) have no parent any more")
    except (Raised, ProgramRaised) as e:
        run.violated(construct, "src/osyris/core/dataset.py", "raises %s" % e, "storing a group")
    except (Unsupported, AnalysisError) as e:
        run.unresolved(construct, "src/osyris/core/dataset.py", "cannot fold: %s" % e)


def r_norm_corners(run, tree):
    run.rule("C16.R7", "the distance to the origin is a Vector norm: a row lying exactly on the origin has distance 0 and is inside every sphere (shared with C09.R9)", "D7 fold of Vector.norm over small concrete vectors", "", floor=4)
    from . import quantity_stack as qs
    qs.check_norm_corner_cases(run, tree)


def r5_group_indexing(run, tree):
    run.rule("C16.R5", "the row selection extract_* relies on: group[mask] applies ONE selection to every member, for boolean masks of every rank "
             "(a full mask on N-d members selects elements, not whole first-axis rows; shared with C06.R3)", "D7 fold of Datagroup.__getitem__ over index kinds x group compositions", "", floor=5)
    from . import core_folds as cf
    cf.check_group_indexing(run, tree)


RULES = [r1_fold, r_conversion, r_parent_links, r_norm_corners, r5_group_indexing]
