"""C02 — Array arithmetic equals arithmetic on the physical quantities it represents."""
from __future__ import annotations

import ast

from ..source import norm, const_value, walk_no_nested
from ..specs import operators as optab
from . import coretypes as ct
from . import array_folds as af
from .common import is_name, params

EXPLANATION = (
    "Static rules on core/array.py: (R1) every arithmetic dunder resolves to _binary_op(<ufunc>, self, other[, strict]"
    "[, out=self]) per the Python data-model operator table, composites (k*a, k/a, a**k, -a) evaluated in a rational "
    "quantity algebra; (R2) on every path of _binary_op the operands are brought to a common unit before the numpy call "
    "(strict: always; non-strict: attempted, only DimensionalityError swallowed) and no operand is written; (R3) the unit "
    "of a product/quotient/power/reciprocal is derived by applying the same numpy function to the operand units; (R4) the "
    "dtype predicate that decides whether a result keeps its unit is evaluated over a model of all numpy dtypes; (R5) "
    "Array.to scales by old/new and is the identity for equal units; (R6) operand coercion and unit extraction helpers "
    "pass non-unit operands through unchanged.")
NOT_DECIDED = ("numeric values computed by numpy, conversion factors computed by pint, broadcasting shapes; that "
               "Array(rhs) coerces every operand kind to the right numbers")
TRUSTED = ("CPython ast", "numpy/pint behave as documented", "S4 operator table (sa/specs/operators.py)",
           "numpy dtype model (sa/specs/npmodel.py)")


def r1_operator_table(run, tree):
    run.rule("C02.R1", "operator table: dunder -> _binary_op(ufunc, self, other, strict, out)", "S4 table + sibling agreement",
             "Python data model", floor=12)
    af.check_operator_table_fold(run, tree, optab.ARITH)
    ct.check_composites(run, tree, ["__rmul__", "__rtruediv__", "__pow__", "__neg__"])


def r2_convert_before_combine(run, tree):
    run.rule("C02.R2", "convert-before-combine: _binary_op folded over right-operand kinds x unit relations x strictness; "
             "operands never written", "D7 fold of the repository's own _binary_op/Array.__init__/Array.to over unit and buffer tokens",
             "pint: Quantity.to raises DimensionalityError iff dimensions differ", floor=12)
    af.check_binary_op_fold(run, tree)
    af.check_constructor_fold(run, tree)


def r3_unit_derivation(run, tree):
    run.rule("C02.R3", "unit derivation covers the operator table", "D7 fold of _wrap_numpy per function name", "S4", floor=6)
    need = set()
    ci = tree.cls(ct.ARRAY)
    for dunder in ("__mul__", "__imul__", "__truediv__", "__itruediv__"):
        fi = tree.method(ci, dunder)
        sem = ct.dunder_semantics(tree, fi) if fi else None
        if sem and sem["ufunc"]:
            need.add(sem["ufunc"])
    need |= {"power", "reciprocal"}
    af.check_wrap_numpy_fold(run, tree, want=("derive", "inherit"), derive_names=sorted(need))


def r4_dtype_gate(run, tree):
    run.rule("C02.R4", "dtype gate is kind-complete (all numeric dtypes keep their unit)", "D7 fold of _wrap_numpy over 16 dtypes",
             "numpy dtype model", floor=13)
    af.check_wrap_numpy_fold(run, tree, want=("gate-numeric",))


def r5_to(run, tree):
    run.rule("C02.R5", "Array.to: ratio old/new, identity shortcut, no lossy cast", "D1 + paths", "", floor=3)
    af.check_to_fold(run, tree)


def r6_helpers(run, tree):
    run.rule("C02.R6", "numpy dispatch: buffers/units extracted from every argument, other operands passed through",
             "D7 fold of _wrap_numpy over operand kinds", "", floor=4)
    af.check_wrap_numpy_fold(run, tree, want=("operands",))


RULES = [r1_operator_table, r2_convert_before_combine, r3_unit_derivation, r4_dtype_gate, r5_to, r6_helpers]
