"""C02 — Array arithmetic equals arithmetic on the physical quantities it represents."""
from __future__ import annotations

import ast

from ..specs import operators as optab
from . import coretypes as ct
from . import array_folds as af
from . import quantity_stack as qs

EXPLANATION = 'Folds of core/array.py with the Array class itself interpreted over buffer/unit/dtype tokens: (R1) every arithmetic dunder evaluated with _binary_op stubbed: operation, operand order, strictness and out=self per the Python data-model table S4; composites (k*a, k/a, a**k, -a) in a rational quantity algebra; (R2) _binary_op over right-operand kinds {Array same/compatible/incompatible unit, number, ndarray, Quantity, dimensionless family} x strictness: the right operand reaches numpy converted to the left unit (values scaled by the exact unit ratio), incompatible dimensions raise, operands unchanged; Array.__init__ over value kinds; (R3/R4/R6) _wrap_numpy over function names x the 16-dtype model x operand kinds: unit derived by applying the function to the operand units for the multiplicative table, inherited otherwise, every numeric dtype keeps its unit, buffers/units extracted from every argument; (R5) Array.to over unit relations x dtypes: identity for equal units, exact ratio, no cast back to an integer dtype, receiver untouched. (R7) end to end: the whole Array class under dispatching numpy models, decided on physical values (values x symbolic unit scale): every operator, scalars, powers in sequence, in-place forms, a conversion repeated after the buffer changed; operand kinds include numpy scalars, python lists and 0-d Arrays. (R8) histories probe; mutator; same probe over Arrays in m/cm/s, an array-valued Quantity, python 0 and the same object twice, every live object compared with the quantity algebra after every step; R7 also covers 2/a and a**k for k in {3, -1, -1.0, 1, 2.0} on float and integer data (numpy refuses int ** negative int and has integer reciprocal). The history pool includes a 0-d Array (falsy under len()).'
NOT_DECIDED = 'numeric values computed by numpy, conversion factors computed by pint, broadcasting shapes'
TRUSTED = ('CPython ast', 'numpy/pint behave as documented', 'S4 operator table (sa/specs/operators.py)', 'numpy dtype model (sa/specs/npmodel.py)', 'the interpreter sa/models.py')

TECHNIQUE = 'static analysis: abstract interpretation of the Array class over unit/buffer/dtype tokens (finite-case folding), exact monomial algebra for unit ratios'

def r1_operator_table(run, tree):
    run.rule("C02.R1", "operator table: dunder -> _binary_op(ufunc, self, other, strict, out)", "S4 table + sibling agreement",
             "Python data model", floor=8)
    af.check_operator_table_fold(run, tree, optab.ARITH)
    ct.check_composites(run, tree, ["__rmul__", "__rtruediv__", "__pow__", "__neg__"])


def r2_convert_before_combine(run, tree):
    run.rule("C02.R2", "convert-before-combine: _binary_op folded over right-operand kinds x unit relations x strictness; "
             "operands never written", "D7 fold of the repository's own _binary_op/Array.__init__/Array.to over unit and buffer tokens",
             "pint: Quantity.to raises DimensionalityError iff dimensions differ", floor=12)
    af.check_binary_op_fold(run, tree)
    af.check_constructor_fold(run, tree)


def r3_unit_derivation(run, tree):
    run.rule("C02.R3", "unit derivation covers the operator table", "D7 fold of _wrap_numpy per function name", "S4", floor=6)
    need = set()
    ci = tree.cls(ct.ARRAY)
    for dunder in ("__mul__", "__imul__", "__truediv__", "__itruediv__"):
        fi = tree.method(ci, dunder)
        sem = ct.dunder_semantics(tree, fi) if fi else None
        if sem and sem["ufunc"]:
            need.add(sem["ufunc"])
    need |= {"power", "reciprocal"}
    af.check_wrap_numpy_fold(run, tree, want=("derive", "inherit"), derive_names=sorted(need))


def r4_dtype_gate(run, tree):
    run.rule("C02.R4", "dtype gate is kind-complete (all numeric dtypes keep their unit)", "D7 fold of _wrap_numpy over 16 dtypes",
             "numpy dtype model", floor=13)
    af.check_wrap_numpy_fold(run, tree, want=("gate-numeric",))


def r5_to(run, tree):
    run.rule("C02.R5", "Array.to: ratio old/new, identity shortcut, no lossy cast", "D1 + paths", "", floor=3)
    af.check_to_fold(run, tree)


def r6_helpers(run, tree):
    run.rule("C02.R6", "numpy dispatch: buffers/units extracted from every argument, other operands passed through",
             "D7 fold of _wrap_numpy over operand kinds", "", floor=4)
    af.check_wrap_numpy_fold(run, tree, want=("operands", "out-alias"))


def r7_end_to_end(run, tree):
    run.rule("C02.R7", "end to end: the result of every arithmetic operator denotes the operation on the operands' physical quantities "
             "(values x unit scale, exact rational algebra over symbolic buffers and symbolic unit scales); in-place forms update the receiver's buffer; "
             "a conversion repeated after the buffer changed reflects the change", "D7 fold of the whole Array class with numpy ufuncs and pint units as models", "", floor=20)
    qs.check_array_stack(run, tree)
    qs.check_to_stack(run, tree, only=("history",))
    qs.check_numpy_stack(run, tree, only=("powers",))


def r8_histories(run, tree):
    run.rule("C02.R8", "histories: probe; mutator (in-place operator, buffer edit, unit re-assignment); the same probe again - every object compared with the "
             "algebra of physical quantities after every step (operands: Arrays in m/cm/s, an array-valued Quantity, python 0, the same object twice)",
             "D7 fold of the whole Array class over operation sequences", "", floor=8)
    qs.check_array_history_space(run, tree, "quick")


def r_registry(run, tree):
    run.rule("C02.R9", "'incompatible dimensions raise' rests on the one pint registry (shared with C08.R5/C07.R5): cgs system, NO context enabled (a context such as "
             "'spectroscopy' makes length, frequency and energy mutually convertible, so nm + THz stops raising), units parsed as written",
             "who-may-call + D7 fold of units/units.py::Units on a recording registry", "", floor=4)
    from .c08 import check_registry
    check_registry(run, tree)


def r_masked(run, tree):
    from . import array_folds as af
    run.rule("C02.R10", "an Array holding a numpy masked array keeps the mask through construction, copy(), to(), indexing, .values and the numpy dispatch "
             "(numpy.asarray / numpy.array on the way hand the hidden entries back as ordinary values)", "D7 fold of the Array class over a masked buffer token", "", floor=6)
    af.check_masked_buffers(run, tree)


RULES = [r_masked, r_registry, r1_operator_table, r2_convert_before_combine, r3_unit_derivation, r4_dtype_gate, r5_to, r6_helpers, r7_end_to_end, r8_histories]


def t_pair_space(run, tree):
    run.rule("C02.T1", "thorough: every arithmetic and in-place operator over all ordered pairs of 15 units (lengths, time, mass, angle/percent/dimensionless, compound units, equal-size aliases)", "D7 fold of the whole Array class (and Vector.to) with dispatching numpy models and symbolic-scale units, over the complete product of the unit list", "", floor=1)
    qs.check_unit_pair_space(run, tree, kinds=("strict", "free", "strict-in", "free-in"))


def t_history_space(run, tree):
    run.rule("C02.T2", "thorough: the complete product probe x mutator x probe of the history fold (all seven pure operators, four in-place operators, "
             "operands a, b, c, Quantity, 0, 2.0, self)", "D7 fold of the whole Array class over operation sequences", "", floor=8)
    qs.check_array_history_space(run, tree, "thorough")


THOROUGH_RULES = [t_pair_space, t_history_space]
