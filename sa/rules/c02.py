"""C02 — Array arithmetic equals arithmetic on the physical quantities it represents."""
from __future__ import annotations

import ast

from ..source import norm, const_value, walk_no_nested
from ..specs import operators as optab
from . import coretypes as ct
from .common import is_name, params

EXPLANATION = (
    "Static rules on core/array.py: (R1) every arithmetic dunder resolves to _binary_op(<ufunc>, self, other[, strict]"
    "[, out=self]) per the Python data-model operator table, composites (k*a, k/a, a**k, -a) evaluated in a rational "
    "quantity algebra; (R2) on every path of _binary_op the operands are brought to a common unit before the numpy call "
    "(strict: always; non-strict: attempted, only DimensionalityError swallowed) and no operand is written; (R3) the unit "
    "of a product/quotient/power/reciprocal is derived by applying the same numpy function to the operand units; (R4) the "
    "dtype predicate that decides whether a result keeps its unit is evaluated over a model of all numpy dtypes; (R5) "
    "Array.to scales by old/new and is the identity for equal units; (R6) operand coercion and unit extraction helpers "
    "pass non-unit operands through unchanged.")
NOT_DECIDED = ("numeric values computed by numpy, conversion factors computed by pint, broadcasting shapes; that "
               "Array(rhs) coerces every operand kind to the right numbers")
TRUSTED = ("CPython ast", "numpy/pint behave as documented", "S4 operator table (sa/specs/operators.py)",
           "numpy dtype model (sa/specs/npmodel.py)")


def r1_operator_table(run, tree):
    run.rule("C02.R1", "operator table: dunder -> _binary_op(ufunc, self, other, strict, out)", "S4 table + sibling agreement",
             "Python data model", floor=12)
    ct.check_operator_table(run, tree, optab.ARITH)
    ct.check_composites(run, tree, ["__rmul__", "__rtruediv__", "__pow__", "__neg__"])


def r2_convert_before_combine(run, tree):
    run.rule("C02.R2", "convert-before-combine on every path of _binary_op; operands never written", "path enumeration",
             "", floor=4)
    ct.analyse_binary_op(run, tree, "C02.R2")
    r_coercion(run, tree)
    ct.check_array_constructor(run, tree)


def r_coercion(run, tree):
    """rhs of another class is coerced with lhs.__class__(rhs); NotImplementedError -> NotImplemented."""
    fi = tree.func(ct.BINOP)
    pn = params(fi)
    L, R = pn[1], pn[2]
    found = False
    for n in walk_no_nested(fi.node):
        if isinstance(n, ast.Assign) and len(n.targets) == 1 and is_name(n.targets[0], R) and isinstance(n.value, ast.Call):
            f = n.value.func
            if isinstance(f, ast.Attribute) and f.attr == "__class__" and is_name(f.value, L) and \
                    len(n.value.args) == 1 and is_name(n.value.args[0], R):
                found = True
    run.ob(ct.BINOP + "::coercion", found, fi.where(),
           "a right operand of another type is %s" % ("wrapped as lhs.__class__(rhs)" if found else "not coerced to an Array"),
           "a + 1.0, a * ndarray, a + Quantity")


def r3_unit_derivation(run, tree):
    run.rule("C02.R3", "unit derivation covers the operator table", "table", "S4", floor=6)
    unit_derivation_body(run, tree)


def unit_derivation_body(run, tree):
    f = ct.analyse_wrap_numpy(tree)
    run.analysed(f.fi)
    where = f.fi.where()
    if f.apply_tuple is None:
        run.unresolved(ct.ARRAY + "._wrap_numpy::APPLY_OP_TO_UNIT", where,
                       "cannot find the `func.__name__ in <tuple of names>` test or its literal tuple")
        return
    # names used by the multiplicative operators of the table must be in the set
    need = set()
    ci = tree.cls(ct.ARRAY)
    for dunder in ("__mul__", "__imul__", "__truediv__", "__itruediv__"):
        fi = tree.method(ci, dunder)
        sem = ct.dunder_semantics(tree, fi) if fi else None
        if sem and sem["ufunc"]:
            need.add(sem["ufunc"])
    need |= {"power", "reciprocal"}
    for nm in sorted(need):
        run.ob("%s::APPLY_OP_TO_UNIT[%s]" % (ct.ARRAY, nm), nm in f.apply_tuple, where,
               "%s %s the unit-transforming set" % (nm, "is in" if nm in f.apply_tuple else "is MISSING from"),
               "the result of np.%s keeps the unit of the first operand" % nm)
    for nm in ("add", "subtract", "negative", "absolute", "less", "equal"):
        run.ob("%s::APPLY_OP_TO_UNIT[not %s]" % (ct.ARRAY, nm), nm not in f.apply_tuple, where,
               "%s must not have its unit recomputed from the unit quantities" % nm,
               "np.%s applied to unit quantities (e.g. 1 m + 1 m = 2 m) is not a unit rule" % nm, nontrivial=False)
    # on the path where the name is in the set, unit = func(*units(args), **kw-without-out).units
    seen = {"derived": 0, "inherit": 0}
    for p in f.paths:
        if p["exit"][1] == "raise":
            continue
        in_set = None
        for test, outcome in p["conds"]:
            if test is getattr(f, "apply_test", None):
                in_set = outcome
        if in_set is None:
            continue
        # is a unit assigned at all on this path (dtype gate true)?
        if p["unit"] in ("none", "unset"):
            continue
        if in_set:
            seen["derived"] += 1
            run.ob("%s._wrap_numpy::unit-of-transforming-function" % ct.ARRAY, p["unit"] == "derived",
                   f.fi.where(p["unit_node"]) if p["unit_node"] is not None else where,
                   "for a function in the set the unit is %s" % p["unit"],
                   "a * b labelled with the unit of a")
        else:
            seen["inherit"] += 1
            run.ob("%s._wrap_numpy::unit-of-other-function" % ct.ARRAY, p["unit"] == "inherit",
                   f.fi.where(p["unit_node"]) if p["unit_node"] is not None else where,
                   "for a function outside the set the unit is %s" % p["unit"],
                   "a + b labelled with a unit other than that of a")
    if not seen["derived"] or not seen["inherit"]:
        run.unresolved(ct.ARRAY + "._wrap_numpy::unit-paths", where, "no path assigns a derived / inherited unit: %r" % seen)
    # the derivation call excludes `out` and uses the same func
    for n in walk_no_nested(f.fi.node):
        if isinstance(n, ast.Call) and is_name(n.func, f.FUNC) and ct._is_units_call(f, n):
            kw_ok = True
            out_removed = any(isinstance(c, ast.Call) and isinstance(c.func, ast.Attribute) and is_name(c.func.value, f.KW) and
                              c.func.attr == "pop" and c.args and const_value(c.args[0]) == "out" and c.lineno < n.lineno
                              for c in walk_no_nested(f.fi.node))
            for k in n.keywords:
                if k.arg is None and isinstance(k.value, ast.Name) and k.value.id == f.KW and not out_removed:
                    kw_ok = False  # forwards out= (an Array) into a call on Quantities
            run.ob(ct.ARRAY + "._wrap_numpy::unit-derivation-kwargs", kw_ok, f.fi.where(n),
                   "the unit derivation call %s the raw kwargs" % ("filters" if kw_ok else "forwards"),
                   "x *= y: the unit call would write into x")


def r4_dtype_gate(run, tree):
    run.rule("C02.R4", "dtype gate is kind-complete (all numeric dtypes keep their unit)", "D7 fincase over 16 dtypes",
             "numpy dtype model", floor=13)
    ct.check_dtype_gate(run, tree, want_numeric=True, want_bool=False)


def r5_to(run, tree):
    from .units_rules import check_array_to
    run.rule("C02.R5", "Array.to: ratio old/new, identity shortcut, no lossy cast", "D1 + paths", "", floor=3)
    check_array_to(run, tree)


def r6_helpers(run, tree):
    from .units_rules import check_wrap_helpers
    run.rule("C02.R6", "numpy-dispatch helpers: arrays/units extracted from every argument, others passed through",
             "D7 fincase", "", floor=4)
    check_wrap_helpers(run, tree)


RULES = [r1_operator_table, r2_convert_before_combine, r3_unit_derivation, r4_dtype_gate, r5_to, r6_helpers]
