"""Rules on plot/map.py::map and plot/utils.py::evaluate_on_grid shared by C03 and C11."""
from __future__ import annotations

import ast
from fractions import Fraction as F

from ..deps import DepAnalysis, clean, NONE, NOTNONE
from ..limits import LimitAnalysis, V, B, PINF
from ..parloop import classify_writes, is_parallel
from ..peval import Unsupported
from ..poly import Poly, Rat
from ..source import norm
from .kernel_rules import run_kernel, run_kernel_paths, KERNEL, Wrapped

MAP = "plot/map.py::map"
CELL = "layers[0]['dx']"
POS = "layers[0]['position']"


# =============================================================================== kernel
def _unwrap(w, op):
    if isinstance(w, Wrapped) and w.op == op:
        return w.args
    return None


def check_kernel_containment(run, tree):
    """C03.R1: the store happens only under full closed containment on every available axis."""
    paths = []
    for ndim in (3, 2, 1):
        try:
            paths += [(ndim, lab) + tuple(rest) for (lab, *rest) in run_kernel_paths(tree, ndim)]
        except Unsupported as e:
            fi = tree.func(KERNEL)
            run.unresolved("%s::containment[ndim=%d]" % (KERNEL, ndim), fi.where(), "cannot evaluate the kernel symbolically: %s" % e)
    for ndim, plabel, fi, ev, env in paths:
        construct = "%s::containment[ndim=%d]%s" % (KERNEL, ndim, plabel)
        run.analysed(fi)
        stores = [s for s in ev.stores if s[0] == "out"]
        if len(stores) != 1:
            run.violated(construct + "::single-store", fi.where(), "%d stores into the output (expected one guarded store)" % len(stores),
                         "pixels written outside the containment test")
            continue
        base, idx, val, guards, aug, st = stores[0]
        loopvars = [l[0] for l in ev.loops]
        if len(loopvars) < 4:
            run.unresolved(construct, fi.where(), "expected cell loop(s) and three pixel loops, found %s" % loopvars)
            continue
        n, k, j, i = loopvars[-4:]
        if ndim == 3:
            check_cell_coverage(run, fi, ev)
        want_idx = (slice(None, None, None), Poly.sym(k), Poly.sym(j), Poly.sym(i))
        ok_idx = isinstance(idx, tuple) and len(idx) == 4 and isinstance(idx[0], slice) and all(
            isinstance(a, Poly) and a == b for a, b in zip(idx[1:], want_idx[1:]))
        ok_val = isinstance(val, Poly) and val == Poly.sym("cell_values[:,%s]" % n)
        run.ob(construct + "::store", ok_idx and ok_val and not aug, fi.where(st),
               "out[%s] %s %r" % (", ".join(map(repr, idx)) if isinstance(idx, tuple) else idx, "+=" if aug else "=", val),
               "the pixel receives the value of another cell / another pixel is written")
        terms = [t for g in guards for t in g.terms]
        want = {}
        for a, ax in enumerate("xyz"[:ndim]):
            want[ax] = (Poly.sym("grid_positions_in_original_basis[%s,%s,%s,%d]" % (k, j, i, a)),
                        Poly.sym("cell_positions_in_original_basis_%s[%s]" % (ax, n)))
        size = Poly.sym("cell_sizes[%s]" % n)
        matched = set()
        extra = []
        for t in terms:
            hit = None
            inner = _unwrap(t.a, "abs")
            if inner is not None and isinstance(inner[0], Poly):
                for ax, (g, c) in want.items():
                    if inner[0] == g - c or inner[0] == c - g:
                        hit = ax
            if hit is not None and t.op == "<=" and isinstance(t.b, Poly) and t.b == size:
                matched.add(hit)
            elif hit is not None:
                extra.append("axis %s tested with `%s %r` (required `<= cell_sizes[n]`)" % (hit, t.op, t.b))
                matched.discard(hit)
            else:
                extra.append("unrecognised conjunct %r" % (t,))
        missing = sorted(set(want) - matched)
        run.ob(construct, not missing and not extra, fi.where(st),
               "containment tested on axes %s%s%s" % (sorted(matched), "; missing %s" % missing if missing else "",
                                                       "; " + "; ".join(extra) if extra else ""),
               "a pixel outside the cell along axis %s takes the cell's value (or a pixel on the cell face is left masked)" % (
                   missing or "?"))


def check_kernel_footprint(run, tree):
    """C03.R3: the pixel index window of a cell is conservative and correctly paired with the grid axes."""
    try:
        all_paths = run_kernel_paths(tree, 3)
    except Unsupported as e:
        fi = tree.func(KERNEL)
        run.unresolved(KERNEL + "::footprint", fi.where(), "cannot evaluate the kernel symbolically: %s" % e)
        return
    for plabel, fi, ev, env in all_paths:
        _check_footprint_path(run, fi, ev, env, plabel)
    fi, ev, env = all_paths[0][1:]
    _check_allocation(run, fi, ev, env)


def _check_footprint_path(run, fi, ev, env, plabel):
    loops = ev.loops
    if len(loops) < 4:
        run.unresolved(KERNEL + "::footprint" + plabel, fi.where(), "expected cell loop(s) and 3 pixel loops")
        return
    loops = loops[-4:]
    n = loops[0][0]
    cs = Poly.sym("cell_sizes[%s]" % n)
    sq = Poly.sym("sqrt(ndim)")
    # loop order k,j,i must pair with shape positions 0,1,2 and with the z,y,x arrays
    for pos, (var, lo, hi), ax in zip(range(3), loops[1:], "zyx"):
        construct = "%s::footprint[%s]%s" % (KERNEL, ax, plabel)
        p = Poly.sym("cell_positions_in_new_basis_%s[%s]" % (ax, n))
        l = Poly.sym("grid_lower_edge_in_new_basis_%s" % ax)
        s = Poly.sym("grid_spacing_in_new_basis_%s" % ax)
        N = Poly.sym("grid_positions_in_original_basis.shape[%d]" % pos)
        problems = []
        # lower bound
        a = _unwrap(lo, "max")
        inner_lo = None
        if a is not None and isinstance(a[1], Poly) and a[1] == Poly.const(0):
            w = a[0]
            ii = _unwrap(w, "int") or _unwrap(w, "floor")
            if ii is None and isinstance(w, Wrapped) and w.op == "int":
                ii = w.args
            if ii is not None:
                inner_lo = ii[0]
                if isinstance(inner_lo, Wrapped) and inner_lo.op == "floor":
                    inner_lo = inner_lo.args[0]
        if inner_lo is None:
            problems.append("lower index is %r, expected max(int(...), 0)" % (lo,))
        else:
            H = (Rat.lift(p) - Rat.lift(l)) - Rat.lift(inner_lo) * s
            problems += _check_half_extent(H, cs, sq, "lower")
        b = _unwrap(hi, "min")
        inner_hi = None
        if b is not None and isinstance(b[1], Poly) and b[1] == N:
            w = b[0]
            plus1 = _unwrap(w, "add")
            if plus1 is not None and isinstance(plus1[1], Poly) and plus1[1] == Poly.const(1):
                ii = _unwrap(plus1[0], "int")
                if ii is not None:
                    inner_hi = ii[0]
        elif b is not None:
            problems.append("upper index is clamped with %r, expected the extent of the %s axis (%r)" % (b[1], ax, N))
        if inner_hi is None and not problems:
            problems.append("upper index is %r, expected min(int(...) + 1, n%s)" % (hi, ax))
        elif inner_hi is not None:
            H = Rat.lift(inner_hi) * s + Rat.lift(l) - Rat.lift(p)
            problems += _check_half_extent(H, cs, sq, "upper")
        if problems and ev.path:
            # one-pixel window on a path: the pixel holding the cell centre is the only one whose centre can lie within the half extent
            # of the cell PROVIDED the path condition bounds the full extent below the spacing of THIS axis (2 * half extent < spacing)
            bounded = any(t.op == "<" and isinstance(t.b, Poly) and t.b == s and isinstance(t.a, Poly) and t.a == Poly.const(2) * cs * sq for t in ev.path)
            one_pixel = inner_lo is not None and (Rat.lift(inner_lo) * s == Rat.lift(p) - Rat.lift(l)) and isinstance(hi, Wrapped) and hi.op == "min" and \
                isinstance(hi.args[0], Wrapped) and hi.args[0].op == "add" and hi.args[0].args[0] == lo and hi.args[1] == N
            if bounded and one_pixel:
                problems = []
            elif one_pixel:
                problems = ["on this path the window along %s is the single pixel holding the cell centre, but nothing on the path bounds the cell against the %s spacing "
                            "(path condition: %s): a cell wider than a pixel along %s reaches pixels that are never visited" % (ax, ax, ", ".join(repr(t) for t in ev.path), ax)]
        run.ob(construct, not problems, fi.where(), "; ".join(problems) or
               "indices from (p -/+ cell_size*sqrt(ndim) - lower_edge)/spacing, clamped to [0, n%s]" % ax,
               "for an oblique orientation (in-plane axis with |a|_1 > the factor used) or a thick map along %s, sample points "
               "inside a cell but far from its centre are never visited and stay masked" % ax)


def _check_allocation(run, fi, ev, env):
    # allocation
    out = env.get("out")
    ok = isinstance(out, tuple) and out[0] == "alloc" and isinstance(out[1], tuple) and len(out[1]) == 4 and \
        [repr(x) for x in out[1]] == ["cell_values.shape[0]"] + ["grid_positions_in_original_basis.shape[%d]" % i for i in range(3)]
    fill = out[2] if isinstance(out, tuple) and len(out) > 2 else None
    run.ob(KERNEL + "::output-allocation", ok and fill in (("ext", "numpy.nan"), "nan"), fi.where(),
           "out allocated as %r filled with %r" % (out[1] if isinstance(out, tuple) else out, fill),
           "pixels that no cell contains are not NaN (cannot be masked) or the axes are transposed")
    dt = out[3] if isinstance(out, tuple) and len(out) > 3 else None
    floating = dt is None or dt in (("ext", "numpy.float64"), ("ext", "numpy.double"), ("builtin", "float"))
    run.ob(KERNEL + "::output-dtype", floating, fi.where(), "out allocated with dtype %r" % (dt,),
           "a map of an integer-valued layer (AMR level, cpu number): NaN cannot be stored in an integer buffer, so pixels that no cell contains "
           "hold a huge number and are not masked; thick sums are scaled in integers")
    ret = getattr(ev, "returned", None)


def _check_half_extent(H, cs, sq, which):
    """H must equal c * cell_size * sqrt(ndim) with c >= 1 (the half diagonal, the smallest radius valid for every
    orientation)."""
    try:
        Hp = H.as_poly() if isinstance(H, Rat) else H
    except ValueError:
        return ["%s half-extent %r is not polynomial" % (which, H)]
    co = Hp.coeff_of("sqrt(ndim)", 1)
    rest = Hp - co * sq
    if rest.t:
        return ["%s half-extent is %r, required c*cell_sizes[n]*sqrt(ndim) with c >= 1 (half diagonal)" % (which, Hp)]
    c2 = co.coeff_of(next(iter(cs.symbols())), 1)
    if (co - c2 * cs).t or not c2.is_const():
        return ["%s half-extent is %r, required c*cell_sizes[n]*sqrt(ndim)" % (which, Hp)]
    if c2.const_value() < 1:
        return ["%s half-extent factor %s < 1" % (which, c2.const_value())]
    return []


def check_cell_coverage(run, fi, ev):
    """Every cell index in [0, ncells) is visited exactly once by the loop nest above the pixel loops, for every thread count
    (the loop BOUNDS are evaluated for small sizes; the body is not run)."""
    from .kernel_rules import cell_iteration_space
    cell_loops = ev.loops[:-3]
    construct = KERNEL + "::cell-loop-coverage"
    ncells_sym = "len(cell_positions_in_new_basis_x)"
    syms = set()
    for var, lo, hi in cell_loops:
        for e in (lo, hi):
            for x in _poly_symbols(e):
                syms.add(x)
    lens = sorted(x for x in syms if x.startswith("len(") or x.endswith(".shape[0]"))
    if len(lens) != 1:
        run.unresolved(construct, fi.where(), "cell loop bounds depend on %s" % sorted(syms))
        return
    ncells_sym = lens[0]
    bad = None
    n_cases = 0
    try:
        for nthreads in (1, 2, 3, 4, 7, 16):
            for ncells in range(0, 20):
                got = cell_iteration_space(cell_loops, ncells_sym, ncells, nthreads)
                n_cases += 1
                if sorted(got) != list(range(ncells)):
                    missing = sorted(set(range(ncells)) - set(got))
                    dup = sorted({x for x in got if got.count(x) > 1})
                    extra = sorted(set(got) - set(range(ncells)))
                    bad = "%d cells on %d threads: cells %s never visited, %s visited twice, %s out of range" % (ncells, nthreads, missing or "none", dup or "none", extra or "none")
                    break
            if bad:
                break
    except (Unsupported, ZeroDivisionError) as e:
        run.unresolved(construct, fi.where(), "cannot evaluate the loop bounds: %s" % e)
        return
    run.ob(construct, bad is None, fi.where(), bad or "loops %s visit every cell exactly once (%d size/thread combinations)" % (
        [(v, repr(lo), repr(hi)) for v, lo, hi in cell_loops], n_cases),
           "cells left over by a block decomposition are never painted: holes in the map for cell counts that are not a multiple of the thread count")


def _poly_symbols(e):
    from .kernel_rules import Wrapped
    if isinstance(e, Poly):
        return set(e.symbols())
    if isinstance(e, Wrapped):
        out = set()
        for a in e.args:
            out |= _poly_symbols(a)
        return out
    return set()


def check_kernel_schedule(run, tree):
    """C03.R2: the only shared write inside prange is the plain store guarded by the containment predicate."""
    fi = tree.func(KERNEL)
    run.analysed(fi)
    if not is_parallel(tree, fi):
        run.holds(KERNEL + "::serial", fi.where(), "the kernel is not compiled with parallel=True", nontrivial=False)
        return
    writes = classify_writes(tree, fi)
    shared = [w for w in writes if w[0] in ("shared-rmw", "shared-store", "unknown")]
    for kind, st, tgt, loop, guards in shared:
        if kind == "shared-rmw":
            run.violated("%s::shared-rmw::%s" % (KERNEL, norm(tgt)), fi.where(st), "`%s` inside prange: lost updates" % norm(st),
                         "two cells whose footprints overlap: the pixel value depends on the thread schedule")
        elif kind == "shared-store":
            # the conditions the store executes under, from the symbolic evaluation of the kernel (enclosing tests, flags assigned from
            # tests, `if not inside: continue` clauses alike)
            try:
                # on every path of the kernel the store must be guarded: the conditions common to all paths count
                per_path = []
                for _, _, kev, _ in run_kernel_paths(tree, 3):
                    per_path.append([t for rec in kev.stores if rec[5] is st for g in rec[3] for t in g.terms])
                terms = [t for t in per_path[0] if all(any(repr(t) == repr(u) for u in other) for other in per_path[1:])] if per_path else []
            except Unsupported as e:
                if not [g for g in guards if g[1]]:
                    # no enclosing test at all: unguarded whatever the rest of the kernel looks like
                    run.violated("%s::shared-store::%s" % (KERNEL, norm(tgt)), fi.where(st), "plain store `%s` inside prange under no condition (the kernel is otherwise not "
                                 "evaluable: %s)" % (norm(st), e), "a store into an array shared by all threads: last writer wins / threads overwrite each other's scratch values")
                else:
                    run.unresolved("%s::shared-store::%s" % (KERNEL, norm(tgt)), fi.where(st), "cannot evaluate the kernel symbolically: %s" % e)
                continue
            gtxt = [repr(t) for t in terms]
            guarded = any(t.op == "<=" for t in terms)
            run.ob("%s::shared-store::%s" % (KERNEL, norm(tgt)), guarded, fi.where(st),
                   "plain store `%s` under guard(s) %s" % (norm(st), gtxt or "NONE"),
                   "an unguarded store lets every cell of the footprint overwrite the pixel: last writer wins")
        else:
            run.unresolved("%s::write::%s" % (KERNEL, norm(tgt)), fi.where(st), "store not understood")
    run.holds(KERNEL + "::writes-classified", fi.where(), "%d writes in prange: %s" % (len(writes), sorted({w[0] for w in writes})),
              nontrivial=False)


# =============================================================================== map pre-selection (D4 / D5)
MODES = [("thin", {"dz": "none", "dx": "notnone"}), ("thick", {"dz": "notnone", "dx": "notnone"})]


def selection_masks(tree, mode):
    fi = tree.func(MAP)
    src = {CELL: V("arr", PINF), POS: V("vec", B)}
    pm = dict(mode)
    pm.setdefault("dy", "none")
    pm.setdefault("origin", "none")
    la = LimitAnalysis(tree, fi, src, pm)
    masks = la.analyse()
    used = {k: v for k, v in masks.items() if k in la.index_uses}
    return fi, used, la


def mask_deps(tree, mode):
    fi = tree.func(MAP)
    an = DepAnalysis(tree)
    pv = {}
    for p, m in mode.items():
        pv[p] = NONE if m == "none" else frozenset([p, NOTNONE])
    an.analyse(fi, pv)
    return fi, an


def check_preselection(run, tree, modes, want_window_deps=True):
    """C03.R4/R5, C11.R1/R2: every mask that narrows the cell index set (a) is not FALSE in the large-cell limit and
    (b) depends on the cell size (and, for the window filter, on the window extents of the mode)."""
    n_masks = 0
    for label, mode in modes:
        fi, used, la = selection_masks(tree, mode)
        fi2, an = mask_deps(tree, mode)
        run.analysed(fi)
        if not used:
            run.unresolved("%s::pre-selection[%s]" % (MAP, label), fi.where(), "no comparison result is used to narrow the cell set")
            continue
        for name, v in used.items():
            n_masks += 1
            construct = "%s::mask[%s][%s]" % (MAP, name, label)
            where = "src/osyris/plot/map.py:%s" % v.lineno
            run.ob(construct + "::large-cell-limit", v.verdict != "FALSE", where,
                   "`%s` evaluates to %s when the cell size tends to infinity" % (v.text, v.verdict),
                   "any cell at least as large as the window contains the whole window, yet it is discarded: the map is masked")
            d = clean(an.assigned.get((fi.qual, name), frozenset()))
            dep_cell = CELL in d
            run.ob(construct + "::depends-on-cell-size", dep_cell, where,
                   "mask depends on %s" % sorted(x for x in d if not x.startswith("layers[0]") or x in (CELL, POS)),
                   "the threshold is the same for every cell size: a cell larger than the threshold that still reaches the "
                   "plane/slab/window is dropped (%s)" % ("slab thinner than the cells it cuts" if label == "thick" else "large cells"))
            sides = an.compare_sides.get((v.lineno, v.text))
            if sides is None:
                run.unresolved(construct + "::threshold", where, "comparison `%s` not found by the dependence analysis" % v.text)
                continue
            # the threshold is the side that does not depend on where the map is centred (the distance side does)
            thr = [sd for sd in sides if "origin" not in sd]
            if len(thr) != 1:
                run.unresolved(construct + "::threshold", where, "cannot tell the threshold side of `%s` (sides depend on %s / %s)" % (
                    v.text, sorted(sides[0]), sorted(sides[1])))
                continue
            thr = thr[0]
            if label == "thick":
                run.ob(construct + "::threshold-depends-on-dz", "dz" in thr, where,
                       "threshold of `%s` depends on %s" % (v.text, sorted(x for x in thr if not x.startswith("layers[0]") or x == CELL)),
                       "a slab deeper than the window (or thinner than its cells): cells that reach the sampled column are "
                       "dropped before sampling")
            if want_window_deps and ("dx" in thr or "dy" in thr):
                miss = [p for p in ("dx", "dy") if p not in thr]
                run.ob(construct + "::threshold-depends-on-window", not miss, where,
                       "window filter threshold depends on dx, dy: missing %s" % (miss or "none"),
                       "a non-square window loses cells along its longer side")
    return n_masks


# =============================================================================== formulas (D1)








PAIRING = {
    # kernel argument -> (local name that must appear, basis vector it is projected on)
    "cell_positions_in_new_basis_x": ("datax", "u"), "cell_positions_in_new_basis_y": ("datay", "v"),
    "cell_positions_in_new_basis_z": ("dataz", "n"),
}




