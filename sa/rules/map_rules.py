"""Rules on plot/map.py::map and plot/utils.py::evaluate_on_grid shared by C03 and C11."""
from __future__ import annotations

import ast
from fractions import Fraction as F

from ..deps import DepAnalysis, clean, NONE, NOTNONE
from ..limits import LimitAnalysis, V, B, PINF, UNK
from ..parloop import classify_writes, is_parallel, prange_loops
from ..peval import Evaluator, Unsupported
from ..poly import Poly, Rat, S, Fn
from ..source import norm, const_value, walk_no_nested, FuncInfo, AnalysisError
from .common import is_name, params, calls_in, returns_of
from .kernel_rules import run_kernel, KERNEL, Wrapped, Cmp, Conj, Sym

MAP = "plot/map.py::map"
CELL = "layers[0]['dx']"
POS = "layers[0]['position']"


# =============================================================================== kernel
def _unwrap(w, op):
    if isinstance(w, Wrapped) and w.op == op:
        return w.args
    return None


def check_kernel_containment(run, tree):
    """C03.R1: the store happens only under full closed containment on every available axis."""
    for ndim in (3, 2, 1):
        construct = "%s::containment[ndim=%d]" % (KERNEL, ndim)
        try:
            fi, ev, env = run_kernel(tree, ndim)
        except Unsupported as e:
            fi = tree.func(KERNEL)
            run.unresolved(construct, fi.where(), "cannot evaluate the kernel symbolically: %s" % e)
            continue
        run.analysed(fi)
        stores = [s for s in ev.stores if s[0] == "out"]
        if len(stores) != 1:
            run.violated(construct + "::single-store", fi.where(), "%d stores into the output (expected one guarded store)" % len(stores),
                         "pixels written outside the containment test")
            continue
        base, idx, val, guards, aug, st = stores[0]
        loopvars = [l[0] for l in ev.loops]
        if len(loopvars) < 4:
            run.unresolved(construct, fi.where(), "expected cell loop(s) and three pixel loops, found %s" % loopvars)
            continue
        n, k, j, i = loopvars[-4:]
        if ndim == 3:
            check_cell_coverage(run, fi, ev)
        want_idx = (slice(None, None, None), Poly.sym(k), Poly.sym(j), Poly.sym(i))
        ok_idx = isinstance(idx, tuple) and len(idx) == 4 and isinstance(idx[0], slice) and all(
            isinstance(a, Poly) and a == b for a, b in zip(idx[1:], want_idx[1:]))
        ok_val = isinstance(val, Poly) and val == Poly.sym("cell_values[:,%s]" % n)
        run.ob(construct + "::store", ok_idx and ok_val and not aug, fi.where(st),
               "out[%s] %s %r" % (", ".join(map(repr, idx)) if isinstance(idx, tuple) else idx, "+=" if aug else "=", val),
               "the pixel receives the value of another cell / another pixel is written")
        terms = [t for g in guards for t in g.terms]
        want = {}
        for a, ax in enumerate("xyz"[:ndim]):
            want[ax] = (Poly.sym("grid_positions_in_original_basis[%s,%s,%s,%d]" % (k, j, i, a)),
                        Poly.sym("cell_positions_in_original_basis_%s[%s]" % (ax, n)))
        size = Poly.sym("cell_sizes[%s]" % n)
        matched = set()
        extra = []
        for t in terms:
            hit = None
            inner = _unwrap(t.a, "abs")
            if inner is not None and isinstance(inner[0], Poly):
                for ax, (g, c) in want.items():
                    if inner[0] == g - c or inner[0] == c - g:
                        hit = ax
            if hit is not None and t.op == "<=" and isinstance(t.b, Poly) and t.b == size:
                matched.add(hit)
            elif hit is not None:
                extra.append("axis %s tested with `%s %r` (required `<= cell_sizes[n]`)" % (hit, t.op, t.b))
                matched.discard(hit)
            else:
                extra.append("unrecognised conjunct %r" % (t,))
        missing = sorted(set(want) - matched)
        run.ob(construct, not missing and not extra, fi.where(st),
               "containment tested on axes %s%s%s" % (sorted(matched), "; missing %s" % missing if missing else "",
                                                       "; " + "; ".join(extra) if extra else ""),
               "a pixel outside the cell along axis %s takes the cell's value (or a pixel on the cell face is left masked)" % (
                   missing or "?"))


def check_kernel_footprint(run, tree):
    """C03.R3: the pixel index window of a cell is conservative and correctly paired with the grid axes."""
    try:
        fi, ev, env = run_kernel(tree, 3)
    except Unsupported as e:
        fi = tree.func(KERNEL)
        run.unresolved(KERNEL + "::footprint", fi.where(), "cannot evaluate the kernel symbolically: %s" % e)
        return
    loops = ev.loops
    if len(loops) < 4:
        run.unresolved(KERNEL + "::footprint", fi.where(), "expected cell loop(s) and 3 pixel loops")
        return
    loops = loops[-4:]
    n = loops[0][0]
    cs = Poly.sym("cell_sizes[%s]" % n)
    sq = Poly.sym("sqrt(ndim)")
    # loop order k,j,i must pair with shape positions 0,1,2 and with the z,y,x arrays
    for pos, (var, lo, hi), ax in zip(range(3), loops[1:], "zyx"):
        construct = "%s::footprint[%s]" % (KERNEL, ax)
        p = Poly.sym("cell_positions_in_new_basis_%s[%s]" % (ax, n))
        l = Poly.sym("grid_lower_edge_in_new_basis_%s" % ax)
        s = Poly.sym("grid_spacing_in_new_basis_%s" % ax)
        N = Poly.sym("grid_positions_in_original_basis.shape[%d]" % pos)
        problems = []
        # lower bound
        a = _unwrap(lo, "max")
        inner_lo = None
        if a is not None and isinstance(a[1], Poly) and a[1] == Poly.const(0):
            w = a[0]
            ii = _unwrap(w, "int") or _unwrap(w, "floor")
            if ii is None and isinstance(w, Wrapped) and w.op == "int":
                ii = w.args
            if ii is not None:
                inner_lo = ii[0]
                if isinstance(inner_lo, Wrapped) and inner_lo.op == "floor":
                    inner_lo = inner_lo.args[0]
        if inner_lo is None:
            problems.append("lower index is %r, expected max(int(...), 0)" % (lo,))
        else:
            H = (Rat.lift(p) - Rat.lift(l)) - Rat.lift(inner_lo) * s
            problems += _check_half_extent(H, cs, sq, "lower")
        b = _unwrap(hi, "min")
        inner_hi = None
        if b is not None and isinstance(b[1], Poly) and b[1] == N:
            w = b[0]
            plus1 = _unwrap(w, "add")
            if plus1 is not None and isinstance(plus1[1], Poly) and plus1[1] == Poly.const(1):
                ii = _unwrap(plus1[0], "int")
                if ii is not None:
                    inner_hi = ii[0]
        elif b is not None:
            problems.append("upper index is clamped with %r, expected the extent of the %s axis (%r)" % (b[1], ax, N))
        if inner_hi is None and not problems:
            problems.append("upper index is %r, expected min(int(...) + 1, n%s)" % (hi, ax))
        elif inner_hi is not None:
            H = Rat.lift(inner_hi) * s + Rat.lift(l) - Rat.lift(p)
            problems += _check_half_extent(H, cs, sq, "upper")
        run.ob(construct, not problems, fi.where(), "; ".join(problems) or
               "indices from (p -/+ cell_size*sqrt(ndim) - lower_edge)/spacing, clamped to [0, n%s]" % ax,
               "for an oblique orientation (in-plane axis with |a|_1 > the factor used) or a thick map along %s, sample points "
               "inside a cell but far from its centre are never visited and stay masked" % ax)
    # allocation
    out = env.get("out")
    ok = isinstance(out, tuple) and out[0] == "alloc" and isinstance(out[1], tuple) and len(out[1]) == 4 and \
        [repr(x) for x in out[1]] == ["cell_values.shape[0]"] + ["grid_positions_in_original_basis.shape[%d]" % i for i in range(3)]
    fill = out[2] if isinstance(out, tuple) and len(out) > 2 else None
    run.ob(KERNEL + "::output-allocation", ok and fill in (("ext", "numpy.nan"), "nan"), fi.where(),
           "out allocated as %r filled with %r" % (out[1] if isinstance(out, tuple) else out, fill),
           "pixels that no cell contains are not NaN (cannot be masked) or the axes are transposed")
    ret = getattr(ev, "returned", None)


def _check_half_extent(H, cs, sq, which):
    """H must equal c * cell_size * sqrt(ndim) with c >= 1 (the half diagonal, the smallest radius valid for every
    orientation)."""
    try:
        Hp = H.as_poly() if isinstance(H, Rat) else H
    except ValueError:
        return ["%s half-extent %r is not polynomial" % (which, H)]
    co = Hp.coeff_of("sqrt(ndim)", 1)
    rest = Hp - co * sq
    if rest.t:
        return ["%s half-extent is %r, required c*cell_sizes[n]*sqrt(ndim) with c >= 1 (half diagonal)" % (which, Hp)]
    c2 = co.coeff_of(next(iter(cs.symbols())), 1)
    if (co - c2 * cs).t or not c2.is_const():
        return ["%s half-extent is %r, required c*cell_sizes[n]*sqrt(ndim)" % (which, Hp)]
    if c2.const_value() < 1:
        return ["%s half-extent factor %s < 1" % (which, c2.const_value())]
    return []


def check_cell_coverage(run, fi, ev):
    """Every cell index in [0, ncells) is visited exactly once by the loop nest above the pixel loops, for every thread count
    (the loop BOUNDS are evaluated for small sizes; the body is not run)."""
    from .kernel_rules import cell_iteration_space
    cell_loops = ev.loops[:-3]
    construct = KERNEL + "::cell-loop-coverage"
    ncells_sym = "len(cell_positions_in_new_basis_x)"
    syms = set()
    for var, lo, hi in cell_loops:
        for e in (lo, hi):
            for x in _poly_symbols(e):
                syms.add(x)
    lens = sorted(x for x in syms if x.startswith("len(") or x.endswith(".shape[0]"))
    if len(lens) != 1:
        run.unresolved(construct, fi.where(), "cell loop bounds depend on %s" % sorted(syms))
        return
    ncells_sym = lens[0]
    bad = None
    n_cases = 0
    try:
        for nthreads in (1, 2, 3, 4, 7, 16):
            for ncells in range(0, 20):
                got = cell_iteration_space(cell_loops, ncells_sym, ncells, nthreads)
                n_cases += 1
                if sorted(got) != list(range(ncells)):
                    missing = sorted(set(range(ncells)) - set(got))
                    dup = sorted({x for x in got if got.count(x) > 1})
                    extra = sorted(set(got) - set(range(ncells)))
                    bad = "%d cells on %d threads: cells %s never visited, %s visited twice, %s out of range" % (ncells, nthreads, missing or "none", dup or "none", extra or "none")
                    break
            if bad:
                break
    except (Unsupported, ZeroDivisionError) as e:
        run.unresolved(construct, fi.where(), "cannot evaluate the loop bounds: %s" % e)
        return
    run.ob(construct, bad is None, fi.where(), bad or "loops %s visit every cell exactly once (%d size/thread combinations)" % (
        [(v, repr(lo), repr(hi)) for v, lo, hi in cell_loops], n_cases),
           "cells left over by a block decomposition are never painted: holes in the map for cell counts that are not a multiple of the thread count")


def _poly_symbols(e):
    from .kernel_rules import Wrapped
    if isinstance(e, Poly):
        return set(e.symbols())
    if isinstance(e, Wrapped):
        out = set()
        for a in e.args:
            out |= _poly_symbols(a)
        return out
    return set()


def check_kernel_schedule(run, tree):
    """C03.R2: the only shared write inside prange is the plain store guarded by the containment predicate."""
    fi = tree.func(KERNEL)
    run.analysed(fi)
    if not is_parallel(tree, fi):
        run.holds(KERNEL + "::serial", fi.where(), "the kernel is not compiled with parallel=True", nontrivial=False)
        return
    writes = classify_writes(tree, fi)
    shared = [w for w in writes if w[0] in ("shared-rmw", "shared-store", "unknown")]
    for kind, st, tgt, loop, guards in shared:
        if kind == "shared-rmw":
            run.violated("%s::shared-rmw::%s" % (KERNEL, norm(tgt)), fi.where(st), "`%s` inside prange: lost updates" % norm(st),
                         "two cells whose footprints overlap: the pixel value depends on the thread schedule")
        elif kind == "shared-store":
            gtxt = [norm(g[0]) for g in guards if g[1]]
            guarded = any(all(v in t for v in ("ok_x",)) or "<=" in t for t in gtxt)
            run.ob("%s::shared-store::%s" % (KERNEL, norm(tgt)), guarded, fi.where(st),
                   "plain store `%s` under guard(s) %s" % (norm(st), gtxt or "NONE"),
                   "an unguarded store lets every cell of the footprint overwrite the pixel: last writer wins")
        else:
            run.unresolved("%s::write::%s" % (KERNEL, norm(tgt)), fi.where(st), "store not understood")
    run.holds(KERNEL + "::writes-classified", fi.where(), "%d writes in prange: %s" % (len(writes), sorted({w[0] for w in writes})),
              nontrivial=False)


# =============================================================================== map pre-selection (D4 / D5)
MODES = [("thin", {"dz": "none", "dx": "notnone"}), ("thick", {"dz": "notnone", "dx": "notnone"})]


def selection_masks(tree, mode):
    fi = tree.func(MAP)
    src = {CELL: V("arr", PINF), POS: V("vec", B)}
    pm = dict(mode)
    pm.setdefault("dy", "none")
    pm.setdefault("origin", "none")
    la = LimitAnalysis(tree, fi, src, pm)
    masks = la.analyse()
    used = {k: v for k, v in masks.items() if k in la.index_uses}
    return fi, used, la


def mask_deps(tree, mode):
    fi = tree.func(MAP)
    an = DepAnalysis(tree)
    pv = {}
    for p, m in mode.items():
        pv[p] = NONE if m == "none" else frozenset([p, NOTNONE])
    an.analyse(fi, pv)
    return fi, an


def check_preselection(run, tree, modes, want_window_deps=True):
    """C03.R4/R5, C11.R1/R2: every mask that narrows the cell index set (a) is not FALSE in the large-cell limit and
    (b) depends on the cell size (and, for the window filter, on the window extents of the mode)."""
    n_masks = 0
    for label, mode in modes:
        fi, used, la = selection_masks(tree, mode)
        fi2, an = mask_deps(tree, mode)
        run.analysed(fi)
        if not used:
            run.unresolved("%s::pre-selection[%s]" % (MAP, label), fi.where(), "no comparison result is used to narrow the cell set")
            continue
        for name, v in used.items():
            n_masks += 1
            construct = "%s::mask[%s][%s]" % (MAP, name, label)
            where = "src/osyris/plot/map.py:%s" % v.lineno
            run.ob(construct + "::large-cell-limit", v.verdict != "FALSE", where,
                   "`%s` evaluates to %s when the cell size tends to infinity" % (v.text, v.verdict),
                   "any cell at least as large as the window contains the whole window, yet it is discarded: the map is masked")
            d = clean(an.assigned.get((fi.qual, name), frozenset()))
            dep_cell = CELL in d
            run.ob(construct + "::depends-on-cell-size", dep_cell, where,
                   "mask depends on %s" % sorted(x for x in d if not x.startswith("layers[0]") or x in (CELL, POS)),
                   "the threshold is the same for every cell size: a cell larger than the threshold that still reaches the "
                   "plane/slab/window is dropped (%s)" % ("slab thinner than the cells it cuts" if label == "thick" else "large cells"))
            sides = an.compare_sides.get((v.lineno, v.text))
            if sides is None:
                run.unresolved(construct + "::threshold", where, "comparison `%s` not found by the dependence analysis" % v.text)
                continue
            # the threshold is the side that does not depend on where the map is centred (the distance side does)
            thr = [sd for sd in sides if "origin" not in sd]
            if len(thr) != 1:
                run.unresolved(construct + "::threshold", where, "cannot tell the threshold side of `%s` (sides depend on %s / %s)" % (
                    v.text, sorted(sides[0]), sorted(sides[1])))
                continue
            thr = thr[0]
            if label == "thick":
                run.ob(construct + "::threshold-depends-on-dz", "dz" in thr, where,
                       "threshold of `%s` depends on %s" % (v.text, sorted(x for x in thr if not x.startswith("layers[0]") or x == CELL)),
                       "a slab deeper than the window (or thinner than its cells): cells that reach the sampled column are "
                       "dropped before sampling")
            if want_window_deps and ("dx" in thr or "dy" in thr):
                miss = [p for p in ("dx", "dy") if p not in thr]
                run.ob(construct + "::threshold-depends-on-window", not miss, where,
                       "window filter threshold depends on dx, dy: missing %s" % (miss or "none"),
                       "a non-square window loses cells along its longer side")
    return n_masks


# =============================================================================== formulas (D1)
class FormulaEval(Evaluator):
    def __init__(self, tree, fi, env):
        super().__init__(env)
        self.tree, self.fi = tree, fi

    def ev_Name(self, node):
        if node.id in self.env:
            return self.env[node.id]
        if node.id == "round":
            return lambda v: Fn("round", v)
        raise Unsupported("name %s" % node.id)

    def constant(self, node):
        if isinstance(node.value, (int, float)) and not isinstance(node.value, bool):
            return Poly.const(node.value)
        return node.value

    def ev_Subscript(self, node):
        t = norm(node)
        if t in self.env:
            return self.env[t]
        return super().ev_Subscript(node)

    def ev_Attribute(self, node):
        t = norm(node)
        if t in self.env:
            return self.env[t]
        d = self.tree.dotted(self.fi.module, node)
        if d == "numpy.linspace":
            return lambda a, b, n: Fn("linspace", a, b, n)
        raise Unsupported("attribute %s" % t)

    def call(self, node, func, args, kwargs):
        if callable(func):
            return func(*args, **kwargs)
        raise Unsupported("call %s" % norm(node.func))


def find_assign(fi, name, within=None):
    out = []
    for n in walk_no_nested(within or fi.node):
        if isinstance(n, ast.Assign) and len(n.targets) == 1 and norm(n.targets[0]) == name:
            out.append(n)
    return out


def check_grid_formulas(run, tree, axes):
    fi = tree.func(MAP)
    run.analysed(fi)
    half = Poly.const(F(1, 2))
    for ax in axes:
        lo, hi, r = S(ax + "min"), S(ax + "max"), S("res_" + ax)
        env = {ax + "min": lo, ax + "max": hi, "resolution['%s']" % ax: r}
        sp = find_assign(fi, ax + "spacing")
        cen = find_assign(fi, ax + "centers")
        construct = "%s::%sspacing" % (MAP, ax)
        if ax == "z":
            sp = [s for s in sp if "resolution" in norm(s.value)]
            cen = [c for c in cen if "linspace" in norm(c.value)]
        if len(sp) != 1 or len(cen) != 1:
            run.unresolved(construct, fi.where(), "expected one assignment of %sspacing and of %scenters (found %d, %d)" % (ax, ax, len(sp), len(cen)))
            continue
        try:
            ev = FormulaEval(tree, fi, env)
            spv = ev.ev(sp[0].value)
            env[ax + "spacing"] = S(ax + "spacing")
            cv = FormulaEval(tree, fi, env).ev(cen[0].value)
        except Unsupported as e:
            run.unresolved(construct, fi.where(sp[0]), "cannot evaluate: %s" % e)
            continue
        want_sp = Rat(hi - lo) / Rat(r)
        run.ob(construct, Rat.lift(spv) == want_sp, fi.where(sp[0]), "%sspacing = %r (required (max-min)/resolution)" % (ax, spv),
               "pixel size inconsistent with the window: the returned pixel centres do not tile the window")
        sps = S(ax + "spacing")
        ok = isinstance(cv, Fn) and cv.name == "linspace" and Rat.lift(cv.args[0]) == Rat(lo + half * sps) and \
            Rat.lift(cv.args[1]) == Rat(hi - half * sps) and Rat.lift(cv.args[2]) == Rat(r)
        run.ob("%s::%scenters" % (MAP, ax), ok, fi.where(cen[0]), "%scenters = %r (required linspace(min + spacing/2, max - spacing/2, n))" % (ax, cv),
               "the returned pixel coordinates are the pixel edges / shifted by half a pixel: every pixel shows the value of a "
               "neighbouring sample point")


def check_kernel_call_scaling(run, tree):
    """C03.R7: every length-like argument of the kernel call is divided by the same scale; axis pairing of the arguments."""
    fi = tree.func(MAP)
    call = None
    for c in calls_in(fi.node):
        r = tree.resolve_call(fi, c)
        if isinstance(r, FuncInfo) and r.qual == KERNEL:
            call = c
    if call is None:
        run.violated(MAP + "::kernel-call", fi.where(), "map no longer calls evaluate_on_grid", "no sampling")
        return None
    kws = {k.arg: k.value for k in call.keywords}
    length_like = [p for p in params(tree.func(KERNEL)) if p not in ("cell_values", "ndim")]
    divisors = {}
    for p in length_like:
        if p not in kws:
            run.violated("%s::kernel-call::%s" % (MAP, p), fi.where(call), "argument %s is not passed by keyword" % p, "positional mix-up")
            continue
        e = kws[p]
        divs = set()
        for n in ast.walk(e):
            if isinstance(n, ast.BinOp) and isinstance(n.op, ast.Div):
                divs.add(norm(n.right))
        divisors[p] = divs
    alld = set().union(*divisors.values()) if divisors else set()
    ok = len(alld) == 1 and all(len(d) == 1 for d in divisors.values())
    run.ob(MAP + "::kernel-call::one-length-scale", ok, fi.where(call),
           "divisors used: %s%s" % (sorted(alld), "; unscaled: %s" % sorted(p for p, d in divisors.items() if not d) if not ok else ""),
           "cell positions and pixel positions reach the kernel in different length scales")
    return call, kws


PAIRING = {
    # kernel argument -> (local name that must appear, basis vector it is projected on)
    "cell_positions_in_new_basis_x": ("datax", "u"), "cell_positions_in_new_basis_y": ("datay", "v"),
    "cell_positions_in_new_basis_z": ("dataz", "n"),
}


def check_axis_pairing(run, tree):
    """The projections, grid edges, spacings and pixel positions are paired axis by axis (x<->u, y<->v, z<->n)."""
    fi = tree.func(MAP)
    res = check_kernel_call_scaling(run, tree)
    if not res:
        return
    call, kws = res
    local = {}
    for n in walk_no_nested(fi.node):
        if isinstance(n, ast.Assign) and len(n.targets) == 1 and isinstance(n.targets[0], ast.Name):
            local.setdefault(n.targets[0].id, []).append(n.value)
    basis_of = {}
    for nm, vals in local.items():
        for v in vals:
            if isinstance(v, ast.Attribute) and is_name(v.value, "basis") and v.attr in "nuv":
                basis_of[nm] = v.attr

    def names_in(e):
        return {n.id for n in ast.walk(e) if isinstance(n, ast.Name)}
    for ax, b in (("x", "u"), ("y", "v"), ("z", "n")):
        construct = "%s::axis-pairing[%s<->%s]" % (MAP, ax, b)
        problems = []
        # projection
        e = kws.get("cell_positions_in_new_basis_%s" % ax)
        proj = [nm for nm in names_in(e) if nm in local] if e is not None else []
        ok_proj = False
        for nm in proj:
            for v in local.get(nm, []):
                if isinstance(v, ast.Call) and isinstance(v.func, ast.Attribute) and v.func.attr == "dot" and v.args and \
                        isinstance(v.args[0], ast.Name) and basis_of.get(v.args[0].id) == b and is_name(v.func.value, "coords"):
                    ok_proj = True
        if not ok_proj:
            problems.append("new-basis %s coordinate is not coords.dot(basis.%s)" % (ax, b))
        for prefix, want in (("grid_lower_edge_in_new_basis_", ax + "min"), ("grid_spacing_in_new_basis_", ax + "spacing"),
                             ("cell_positions_in_original_basis_", "coords.%s" % ax)):
            e = kws.get(prefix + ax)
            if e is None or want not in norm(e):
                problems.append("%s%s = %s (expected %s)" % (prefix, ax, norm(e) if e is not None else "-", want))
        run.ob(construct, not problems, fi.where(call), "; ".join(problems) or "projection, lower edge, spacing and original coordinate paired",
               "cells are placed on the image with the %s and another axis swapped: pixels show the wrong cells" % ax)
    # pixel positions = xgrid*u + ygrid*v + zgrid*n
    pp = local.get("pixel_positions", [])
    ok = False
    if len(pp) == 1:
        t = norm(pp[0])
        arr_basis = {}
        for nm, vals in local.items():
            for v in vals:
                if isinstance(v, ast.Call) and norm(v.func) == "np.array" and v.args:
                    srcs = {n.id for n in ast.walk(v.args[0]) if isinstance(n, ast.Name)}
                    bs = {basis_of[s] for s in srcs if s in basis_of}
                    if len(bs) == 1:
                        arr_basis[nm] = bs.pop()
        want_pairs = {("xgrid", "u"), ("ygrid", "v"), ("zgrid", "n")}
        got = set()
        for n in ast.walk(pp[0]):
            if isinstance(n, ast.BinOp) and isinstance(n.op, ast.Mult):
                ln = {x.id for x in ast.walk(n.left) if isinstance(x, ast.Name)}
                rn = {x.id for x in ast.walk(n.right) if isinstance(x, ast.Name)}
                for g in ("xgrid", "ygrid", "zgrid"):
                    for side_g, side_b in ((ln, rn), (rn, ln)):
                        if g in side_g:
                            for a in side_b:
                                if a in arr_basis:
                                    got.add((g, arr_basis[a]))
        ok = got == want_pairs
        detail = "pixel_positions pairs %s" % sorted(got)
    else:
        detail = "pixel_positions assignment not found"
    run.ob(MAP + "::pixel-positions", ok, fi.where(pp[0]) if pp else fi.where(), detail,
           "the sample point of pixel (i,j) is not origin + x_i*u + y_j*v (+ z_k*n)")
    gp = kws.get("grid_positions_in_original_basis")
    run.ob(MAP + "::kernel-call::grid-positions", gp is not None and "pixel_positions" in norm(gp), fi.where(call),
           "grid_positions_in_original_basis = %s" % (norm(gp) if gp is not None else "-"), "", nontrivial=False)
    cs = kws.get("cell_sizes")
    half = False
    if cs is not None:
        for nm in {n.id for n in ast.walk(cs) if isinstance(n, ast.Name)}:
            for v in local.get(nm, []):
                t = norm(v).replace(" ", "")
                if "cell_size[" in t and ("*0.5" in t or "0.5*" in t or "/2" in t):
                    half = True
    run.ob(MAP + "::kernel-call::cell-half-size", half, fi.where(call), "cell_sizes passed to the kernel is %s" % (
        "half the cell size (the kernel compares |offset| with it)" if half else "not the half size: " + (norm(cs) if cs is not None else "-")),
           "containment tested against the full size: pixels up to one cell away take the value")


def check_nan_mask(run, tree):
    """C03.R6: NaN means 'no cell' end to end."""
    fi = tree.func(MAP)
    txt = [norm(s) for s in walk_no_nested(fi.node) if isinstance(s, ast.stmt)]
    mask = [t for t in txt if t.startswith("mask = ")]
    ok = any(t.replace(" ", "") in ("mask=np.isnan(binned[-1,...])",) or ("np.isnan(" in t and "binned" in t) for t in mask)
    run.ob(MAP + "::mask-is-isnan", ok, fi.where(), "mask = %s" % (mask or "?"), "pixels without a containing cell are not masked")
    mw = [c for c in calls_in(fi.node) if norm(c.func).endswith("masked_where")]
    ok2 = len(mw) >= 2 and all(c.args and norm(c.args[0]) in ("mask", "mask_vec") for c in mw)
    run.ob(MAP + "::layers-masked", ok2, fi.where(), "%d masked_where calls with the NaN mask" % len(mw), "a layer is returned unmasked")
    # slot bookkeeping: scalar layers occupy 1 slot, vector layers 3, in both loops
    appends = {"vec": 0, "scalar": 0}
    for n in walk_no_nested(fi.node):
        if isinstance(n, ast.If) and "'vec'" in norm(n.test) and "to_render" in norm(n.test):
            appends["vec"] = sum(1 for c in calls_in(ast.Module(body=n.body, type_ignores=[])) if norm(c.func) == "to_binning.append")
            appends["scalar"] = sum(1 for c in calls_in(ast.Module(body=n.orelse, type_ignores=[])) if norm(c.func) == "to_binning.append")
    incs = sorted({norm(s) for s in walk_no_nested(fi.node) if isinstance(s, ast.AugAssign) and is_name(s.target, "counter")})
    ok3 = appends == {"vec": 3, "scalar": 1} and "counter += 1" in incs and "counter += 3" in incs
    run.ob(MAP + "::slot-bookkeeping", ok3, fi.where(), "slots filled per layer %s; counter increments %s" % (appends, incs),
           "after a vector layer every following layer shows another layer's values")
