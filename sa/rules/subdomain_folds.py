"""C16: extract_sphere / extract_box interpreted (ModelEval) over a scenario dataset built from the repository's own
Dataset/Datagroup/Vector classes with token Arrays; the selection mask is compared semantically (polynomial atoms)."""
from __future__ import annotations

from ..models import ModelEval, PyObj, Marker, Raised
from ..peval import Unsupported, ProgramRaised
from ..poly import Poly, Fn
from ..source import AnalysisError
from .core_models import RawTok, ArrTok, OpTok, core_hooks, make_vector, vector_components
from .core_folds import DS_Q, call_method, new_group, _ev, pub

ERR = (Unsupported, AnalysisError)
FUNCS = {"sphere": "spatial/subdomain.py::extract_sphere", "box": "spatial/subdomain.py::extract_box"}


# ---------------------------------------------------------------------------- semantic form of a mask
class NotAMask(Exception):
    pass


def sem(o):
    """origin tree of a numeric token -> Poly"""
    if isinstance(o, (int, float)) and not isinstance(o, bool):
        return Poly.const(o)
    if isinstance(o, str):
        return Poly.sym(o)
    if isinstance(o, tuple) and o:
        h = o[0]
        if h == "num":
            return Poly.const(o[1])
        if h in ("zeros", "zeros_like") and len(o) == 1:
            return Poly.const(0)         # an accumulator started at zero (Vector.dot)
        if h == "op":
            _, op, a, b = o
            if op in ("__sub__", "__isub__"):
                return sem(a) - sem(b)
            if op in ("__add__", "__iadd__", "__radd__"):
                return sem(a) + sem(b)
            if op == "__rsub__":
                return sem(b) - sem(a)
            if op in ("__mul__", "__rmul__", "__imul__"):
                return sem(a) * sem(b)
            if op in ("__truediv__", "__itruediv__"):
                d = sem(b)
                if d.is_const() and d.const_value() != 0:
                    return sem(a) * Poly.const(1) / d
                raise NotAMask("division by a non-constant")
            if op == "__neg__":
                return -sem(a)
            if op == "__pow__" and isinstance(b, int) and b >= 0:
                return sem(a) ** b
        if h in ("+", "-", "*") and len(o) == 3:
            a, b = sem(o[1]), sem(o[2])
            return a + b if h == "+" else a - b if h == "-" else a * b
        if h == "/" and len(o) == 3:
            d = sem(o[2])
            if d.is_const() and d.const_value() != 0:
                return sem(o[1]) / d
        if h == "neg":
            return -sem(o[1])
        if h == "sqrt":
            inner, outside = pull_units(sem(o[1]))
            return Poly.sym(Fn("sqrt", inner)) * outside
        if h == "abs":
            return Poly.sym(Fn("abs", sem(o[1])))
        if h == "raw" and len(o) == 3:
            # the number of a physical quantity expressed in unit o[2]: quantity / unit
            return sem(o[1]) * unit_pow(o[2], -1)
        if h == "wrapraw" and len(o) == 3:
            return sem(o[1]) * unit_pow(o[2], 1)
        if h == "to" and len(o) == 3:
            return sem(o[1])          # the same physical quantity
    raise NotAMask("not a numeric expression: %r" % (o,))


def unit_pow(u, e):
    from fractions import Fraction
    if u in ("dimensionless", None):
        return Poly.const(1)
    p = Poly()
    p.t = {((("unit", repr(u)), e),): Fraction(1)}
    return p


def _unit_part(mono):
    return tuple(sorted(((s_, e) for s_, e in mono if isinstance(s_, tuple) and s_ and s_[0] == "unit"), key=repr))


def pull_units(p):
    """p = U * q with U a monomial in unit symbols common to all terms and of even exponents -> (q, sqrt(U)) for sqrt(p)"""
    parts = {_unit_part(m) for m in p.t}
    if len(parts) != 1:
        return p, Poly.const(1)
    up = next(iter(parts))
    if not up or any(e % 2 for _, e in up):
        return p, Poly.const(1)
    from fractions import Fraction
    q = Poly()
    q.t = {tuple(x for x in m if not (isinstance(x[0], tuple) and x[0] and x[0][0] == "unit")): c for m, c in p.t.items()}
    out = Poly()
    out.t = {tuple((s_, e // 2) for s_, e in up): Fraction(1)}
    return q, out


def strip_common_unit(p):
    """a polynomial all of whose terms carry the same unit factor compares with 0 like the polynomial without it (units are positive)"""
    parts = {_unit_part(m) for m in p.t}
    if len(parts) == 1 and next(iter(parts)):
        q = Poly()
        q.t = {tuple(x for x in m if not (isinstance(x[0], tuple) and x[0] and x[0][0] == "unit")): c for m, c in p.t.items()}
        return q
    return p




def _atom(kind, a, b):
    """a (<|<=) b with |x| on the left split into the two one-sided atoms"""
    if isinstance(a, tuple) and a and a[0] in ("abs",) or (isinstance(a, tuple) and len(a) == 4 and a[0] == "op" and a[1] == "abs"):
        inner = a[1] if a[0] == "abs" else a[2]
        return frozenset([(kind, strip_common_unit(sem(inner) - sem(b))), (kind, strip_common_unit(-sem(inner) - sem(b)))])
    return frozenset([(kind, strip_common_unit(sem(a) - sem(b)))])


def mask_atoms(o):
    """origin tree of a boolean token -> frozenset of atoms ('lt'|'le', Poly) meaning Poly < 0 / Poly <= 0, all ANDed"""
    if isinstance(o, tuple) and o and o[0] == "raw" and len(o) == 3:
        return mask_atoms(o[1])
    if isinstance(o, tuple) and o and o[0] in ("&",) and len(o) == 3:
        return mask_atoms(o[1]) | mask_atoms(o[2])
    if isinstance(o, tuple) and o and o[0] in ("<", "<=", ">", ">=") and len(o) == 3:
        k = "lt" if o[0] in ("<", ">") else "le"
        return _atom(k, o[1], o[2]) if o[0] in ("<", "<=") else _atom(k, o[2], o[1])
    if isinstance(o, tuple) and o and o[0] == "op":
        _, op, a, b = o
        if op in ("__and__", "__iand__", "__rand__"):
            return mask_atoms(a) | mask_atoms(b)
        if op == "__lt__":
            return _atom("lt", a, b)
        if op == "__gt__":
            return _atom("lt", b, a)
        if op == "__le__":
            return _atom("le", a, b)
        if op == "__ge__":
            return _atom("le", b, a)
        if op == "__invert__":
            # ~(A | B) = ~A & ~B;  ~(a > b) is NOT the same selection as a <= b: a NaN coordinate fails every comparison, so it passes every
            # negated one - kept apart as the atoms 'not-lt' / 'not-le'
            return _negated_atoms(a)
    raise NotAMask("not a conjunction of comparisons: %r" % (o,))


def _negated_atoms(o):
    if isinstance(o, tuple) and o and o[0] == "raw" and len(o) == 3:
        return _negated_atoms(o[1])
    if isinstance(o, tuple) and o and o[0] == "|" and len(o) == 3:
        return _negated_atoms(o[1]) | _negated_atoms(o[2])
    if isinstance(o, tuple) and o and o[0] == "op":
        _, op, a, b = o
        if op in ("__or__", "__ior__", "__ror__"):
            return _negated_atoms(a) | _negated_atoms(b)
        if op in ("__lt__", "__gt__", "__le__", "__ge__"):
            return frozenset(("not-" + k, p_) for k, p_ in _disjunct_atoms(op, a, b))
    if isinstance(o, tuple) and o and o[0] in ("<", "<=", ">", ">=") and len(o) == 3:
        return frozenset(("not-" + k, p_) for k, p_ in _disjunct_atoms({"<": "__lt__", ">": "__gt__", "<=": "__le__", ">=": "__ge__"}[o[0]], o[1], o[2]))
    raise NotAMask("not a conjunction of comparisons: negation of %r" % (o,))


def _is_abs(a):
    return isinstance(a, tuple) and a and (a[0] == "abs" or (len(a) == 4 and a[0] == "op" and a[1] == "abs"))


def _disjunct_atoms(op, a, b):
    """atoms whose DISJUNCTION is the comparison (|x| > h  =  x > h or -x > h); a comparison with |x| on the small side is a conjunction and is refused"""
    k = "lt" if op in ("__lt__", "__gt__") else "le"
    small, big = (a, b) if op in ("__lt__", "__le__") else (b, a)           # small (<|<=) big
    if _is_abs(small):
        raise NotAMask("negation of |x| < h (a disjunction of negated atoms)")
    if _is_abs(big):
        inner = big[1] if big[0] == "abs" else big[2]
        return [(k, strip_common_unit(sem(small) - sem(inner))), (k, strip_common_unit(sem(small) + sem(inner)))]
    return [(k, strip_common_unit(sem(small) - sem(big)))]


def expected_atoms(kind, p):
    d = {c: Poly.sym(p + "." + c) - Poly.sym("o." + c) for c in "xyz"}
    if kind == "sphere":
        s = d["x"] * d["x"] + d["y"] * d["y"] + d["z"] * d["z"]
        return frozenset([("lt", Poly.sym(Fn("sqrt", s)) - Poly.sym("radius"))])
    out = set()
    for c in "xyz":
        half = Poly.sym("d" + c) * Poly.const(0.5)
        out.add(("le", d[c] - half))
        out.add(("le", -half - d[c]))
    return frozenset(out)


def show_atoms(atoms):
    return " AND ".join(sorted(("%r %s 0" % (p, "<" if k == "lt" else "<=")) if not k.startswith("not-") else
                               ("not(%r %s 0) [true for NaN]" % (p, "<" if k == "not-lt" else "<=")) for k, p in atoms))


# ---------------------------------------------------------------------------- scenario
class Scenario:
    """mesh (positions pm, 4 rows), hydro (no positions, 4 rows -> mesh positions), part (own positions pp, 4 rows: as many as
    the mesh), sink (own positions ps, 2 rows), other (no positions, 5 rows -> ignored)"""

    def __init__(self, tree, mesh_name, inside, with_mesh=True, alias=False):
        self.tree, self.inside = tree, inside
        self.any_calls = []
        self.warned = []
        self.hooks = core_hooks({"numpy.abs": lambda x: OpTok("abs", x, None) if isinstance(x, ArrTok) else RawTok(("abs", x.origin), x.shape) if isinstance(x, RawTok) else abs(x),
                                 "numpy.absolute": lambda x: OpTok("abs", x, None) if isinstance(x, ArrTok) else RawTok(("abs", x.origin), x.shape),
                                 "numpy.logical_and": lambda a, b: a & b, "numpy.logical_and.reduce": lambda xs, *a, **k: _reduce(lambda p, q: p & q, list(xs)),
                                 "numpy.any": self._any, "numpy.all": self._all, "numpy.count_nonzero": self._count, "warnings.warn": lambda *a, **k: self.warned.append(a)})
        hooks = self.hooks
        ev = _ev(tree, hooks, DS_Q + ".__init__")
        self.ds = ev.instantiate(tree.cls(DS_Q), [], {}, None)
        self.mesh_name = mesh_name
        self.layout = []
        if with_mesh:
            self._group(mesh_name, 4, pos="pm", members={"density": "rho"})
            self._group("hydro", 4, pos=None, members={"pressure": "prs"}, vector=("velocity", "vel"))
        self._group("part", 4, pos="pp", members={"mass": "mp"})
        self._group("sink", 2, pos="ps", members={"msink": "ms"})
        if with_mesh:
            self._group("other", 5, pos=None, members={"foo": "foo"})
        if alias:
            # the SAME Datagroup object stored under a second key (ds["tracers"] = ds["part"]): the result is keyed like the input
            part = self._groups(self.ds)["part"] if hasattr(self, "_groups") else self.ds._attrs["groups"]["part"]
            call_method(self.tree, self.hooks, self.ds, "__setitem__", "tracers", part)
            self.layout.append(("tracers", 4, "pp"))
        self.ds._attrs["meta"] = {"time": "T", "ndim": 3}
        self.radius = ArrTok("radius", "cm", ())
        self.sizes = {c: ArrTok("d" + c, u, ()) for c, u in zip("xyz", ("cm", "m", "km"))}
        self.origin, _ = make_vector(tree, {c: "o." + c for c in "xyz"}, unit="cm", shape=(), hooks=hooks)

    def _group(self, name, n, pos, members, vector=None):
        g = new_group(self.tree, self.hooks)
        if pos:
            if name == "part":
                # a position built from x and y, its z component assigned afterwards (pos.z = z, as client code does for 3-D data):
                # the Vector is what its components are NOW
                v, _ = make_vector(self.tree, {c: pos + "." + c for c in "xy"}, unit="m", shape=(n,), hooks=self.hooks)
                _ev(self.tree, self.hooks).obj_setattr(v, "z", ArrTok(pos + ".z", "m", (n,)))
            else:
                v, _ = make_vector(self.tree, {c: pos + "." + c for c in "xyz"}, unit="m", shape=(n,), hooks=self.hooks)
            call_method(self.tree, self.hooks, g, "__setitem__", "position", v)
        for k, tag in members.items():
            call_method(self.tree, self.hooks, g, "__setitem__", k, ArrTok(tag, "g", (n,)))
        if vector:
            v, _ = make_vector(self.tree, {c: vector[1] + "." + c for c in "xyz"}, unit="m", shape=(n,), hooks=self.hooks)
            call_method(self.tree, self.hooks, g, "__setitem__", vector[0], v)
        call_method(self.tree, self.hooks, self.ds, "__setitem__", name, g)
        self.layout.append((name, n, pos))

    def _how_many(self, c):
        """'all' | 'some' | 'none' of the rows selected by mask c, per the scenario"""
        o = getattr(c, "origin", c)
        txt = repr(o)
        tags = [t for t in ("pm", "pp", "ps") if ("'%s." % t) in txt]
        self.any_calls.append((o, tags))
        if len(tags) != 1:
            raise Unsupported("reduction of a mask that depends on %s" % (tags or "no positions"))
        v = self.inside[tags[0]]
        return {True: "some", False: "none"}.get(v, v)

    def _any(self, c, *a, **k):
        return self._how_many(c) != "none"

    def _all(self, c, *a, **k):
        return self._how_many(c) == "all"

    def _count(self, c, *a, **k):
        h = self._how_many(c)
        return 0 if h == "none" else c.shape[0] if h == "all" and getattr(c, "shape", None) else 1

    def snapshot(self):
        out = {"keys": list(self._groups(self.ds)), "meta": dict(self.ds._attrs.get("meta", {})), "meta_id": id(self.ds._attrs.get("meta"))}
        for name, g in self._groups(self.ds).items():
            cont = g._attrs["_container"]
            out[name] = (id(g), id(pub(self.tree, self.hooks, g, "parent")), pub(self.tree, self.hooks, g, "name"), [(k, id(v), member_state(self, v)) for k, v in cont.items()])
        return out

    @staticmethod
    def _groups(ds):
        for k in ("groups", "_groups", "_container"):
            if isinstance(ds._attrs.get(k), dict):
                return ds._attrs[k]
        raise Unsupported("backing dict of the Dataset not found")


def member_state(sc, m):
    if isinstance(m, PyObj):
        return {c: (a.origin, a.unit.name) for c, a in vector_components(sc.tree, m, sc.hooks).items()}
    return (m.origin, m.unit.name)


def _reduce(f, xs, *init):
    xs = list(xs)
    acc = init[0] if init else xs.pop(0)
    for x in xs:
        acc = f(acc, x) if callable(f) and not isinstance(f, Marker) else None
    return acc


def run_extract(sc, kind):
    from . import core_models as cm
    fi = sc.tree.func(FUNCS[kind])
    ev = ModelEval(sc.tree, fi, {}, sc.hooks)
    cm.RAW_UNITS[0] = True        # raw numbers remember the unit they are expressed in
    # mask.all() / mask.any() written as methods are answered like np.all(mask) / np.any(mask): from what the scenario says about that mask
    cm.REDUCE_HOOK[0] = lambda which, m: sc._all(m) if which == "all" else sc._any(m)
    try:
        if kind == "sphere":
            return ev.invoke(fi, [sc.ds, sc.radius, sc.origin], {}, None)
        return ev.invoke(fi, [sc.ds, sc.sizes["x"], sc.sizes["y"], sc.sizes["z"], sc.origin], {}, None)
    finally:
        cm.RAW_UNITS[0] = False
        cm.REDUCE_HOOK[0] = None


def check_extract(run, tree, mesh_name):
    for kind, q in FUNCS.items():
        fi = tree.func(q)
        run.analysed(fi)
        scenarios = [("mesh and sinks inside, particles outside", {"pm": True, "pp": False, "ps": True}, True),
                     ("only particles inside", {"pm": False, "pp": True, "ps": False}, True),
                     ("every row of the mesh inside, some sinks", {"pm": "all", "pp": False, "ps": True}, True),
                     ("dataset without a mesh group; every group has its own positions", {"pm": False, "pp": True, "ps": True}, False),
                     ("one group object stored under two keys", {"pm": True, "pp": True, "ps": False}, True, True)]
        for label, inside, with_mesh, *more in scenarios:
            construct = "%s[%s]" % (q, label)
            try:
                sc = Scenario(tree, mesh_name, inside, with_mesh, alias=bool(more))
                before = sc.snapshot()
                try:
                    res = run_extract(sc, kind)
                except (Raised, ProgramRaised) as e:
                    run.violated(construct, fi.where(), "raises %s" % e,
                                 "every dataset produced by load() (KeyError on a group name the loader does not produce), or a dataset whose groups all "
                                 "carry positions depends on a mesh group being present")
                    continue
                after = sc.snapshot()
                problems = []
                if after != before:
                    diff = [k for k in before if before[k] != after.get(k)]
                    problems.append("the input dataset is modified (%s)" % ", ".join(map(str, diff)))
                if not (isinstance(res, PyObj) and res._cls.qual == DS_Q) or res is sc.ds:
                    problems.append("returns %s" % ("the input dataset" if res is sc.ds else repr(res)))
                    run.ob(construct, False, fi.where(), "; ".join(problems), "extract_%s" % kind)
                    continue
                groups = sc._groups(res)
                want_groups = [name for name, n, pos in sc.layout if (pos or "pm") and inside[pos or "pm"] and not (pos is None and n != 4)]
                if list(groups) != want_groups:
                    problems.append("groups in the result: %s (required %s: groups with no row inside are omitted, groups without positions and "
                                    "with another length than the mesh are ignored)" % (list(groups), want_groups))
                ing = sc._groups(sc.ds)
                for name, g in groups.items():
                    if name not in ing:
                        continue
                    pos = dict((n_, p) for n_, _, p in sc.layout)[name] or "pm"
                    if g is ing[name]:
                        problems.append("group %r of the result IS the input group object" % name)
                        continue
                    if pub(sc.tree, sc.hooks, g, "parent") is not res:
                        problems.append("group %r of the result is not linked to the result dataset" % name)
                    cont = g._attrs["_container"]
                    incont = ing[name]._attrs["_container"]
                    if list(cont) != list(incont):
                        problems.append("group %r: members %s (required %s)" % (name, list(cont), list(incont)))
                    masks = set()
                    for k, m in cont.items():
                        st = member_state(sc, m)
                        ist = member_state(sc, incont[k]) if k in incont else None
                        pairs = [(st, ist)] if not isinstance(st, dict) else [(st[c], (ist or {}).get(c)) for c in st]
                        for (o, u), src in pairs:
                            if not (isinstance(o, tuple) and len(o) == 3 and o[0] == "idx" and src is not None and o[1] == src[0]):
                                problems.append("%s.%s is %r, not a row selection of the input member" % (name, k, o))
                            else:
                                masks.add(o[2] if not isinstance(o[2], list) else tuple(o[2]))
                                if u != src[1]:
                                    problems.append("%s.%s: unit %s (input %s)" % (name, k, u, src[1]))
                    if len(masks) > 1:
                        problems.append("group %r: members selected with %d different masks" % (name, len(masks)))
                    for mk in masks:
                        try:
                            from .core_models import unintern
                            atoms = mask_atoms(unintern(mk))
                        except NotAMask as e:
                            raise Unsupported("mask of group %r: %s" % (name, e))
                        want = expected_atoms(kind, pos)
                        if atoms != want:
                            problems.append("group %r selected with [%s]; required [%s]" % (name, show_atoms(atoms), show_atoms(want)))
                meta = res._attrs.get("meta")
                if meta != sc.ds._attrs.get("meta"):
                    problems.append("metadata of the result: %r" % (meta,))
                elif meta is sc.ds._attrs.get("meta"):
                    problems.append("the result shares its metadata dict with the input")
                run.ob(construct, not problems, fi.where(), "; ".join(problems[:4]) or
                       "groups %s, each member a row selection of the input member with the one mask [%s]; input untouched; metadata copied" % (
                           list(groups), show_atoms(expected_atoms(kind, "<pos>"))[:160]),
                       "extract_%s returns rows outside the region / drops rows inside, masks a group with the positions of another group, "
                       "leaves members misaligned, or modifies the input" % kind)
            except ERR as e:
                run.unresolved(construct, fi.where(), "cannot fold: %s" % e)
