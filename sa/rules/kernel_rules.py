"""Symbolic (D1) evaluation of plot/utils.py::evaluate_on_grid: per-cell pixel footprint, containment guard, store."""
from __future__ import annotations

import ast

from ..peval import Evaluator, Model, Unsupported, ReturnValue
from ..poly import Poly
from ..source import norm
from .common import params

KERNEL = "plot/utils.py::evaluate_on_grid"
AXES = ("x", "y", "z")


class Sym(Model):
    """symbolic array: indexing yields a polynomial symbol named after the array, the index text and the axis"""

    def __init__(self, name):
        self.name = name

    def __repr__(self):
        return "Sym(%s)" % self.name


class Wrapped:
    """int(e) / max(e, 0) / min(e, n) / abs(e) wrappers around a polynomial expression"""

    def __init__(self, op, *args):
        self.op, self.args = op, args

    def __eq__(self, o):
        return isinstance(o, Wrapped) and self.op == o.op and len(self.args) == len(o.args) and all(
            (a == b) for a, b in zip(self.args, o.args))

    def __hash__(self):
        return hash(self.op)

    def __add__(self, o):
        return Wrapped("add", self, o)

    __radd__ = __add__

    def __sub__(self, o):
        return Wrapped("sub", self, o)

    def __rsub__(self, o):
        return Wrapped("sub", o, self)

    def __mul__(self, o):
        return Wrapped("mul", self, o)

    __rmul__ = __mul__

    def __repr__(self):
        return "%s(%s)" % (self.op, ", ".join(map(repr, self.args)))


class Cmp:
    def __init__(self, op, a, b):
        self.op, self.a, self.b = op, a, b

    def __repr__(self):
        return "(%r %s %r)" % (self.a, self.op, self.b)


class Conj:
    def __init__(self, terms):
        self.terms = terms


class _SkipRest(Exception):
    """raised by a guarded `continue`: the remaining statements of the block it sits in are not executed on that path"""


class KernelSym(Evaluator):
    def __init__(self, tree, fi, env, none_axes):
        super().__init__(env)
        self.tree, self.fi, self.none_axes = tree, fi, none_axes
        self.loops = []      # (var, lo, hi)
        self.stores = []     # (target text, index tuple, value, guard stack)
        self.guards = []
        self.frames = []     # one per enclosing loop: {"base": len(guards) at loop entry, "cont": guards added by `if c: continue` clauses}
        self.path = []       # conditions assumed on THIS path of the kernel (an if/else on a symbolic test: both paths are explored)

    def ev_Name(self, node):
        if node.id in self.env:
            return self.env[node.id]
        if node.id in ("int", "max", "min", "range", "len", "abs", "float"):
            return ("builtin", node.id)
        if node.id in ("True", "False"):
            return node.id == "True"
        r = self.tree.resolve_name(self.fi.module, node.id)
        if isinstance(r, tuple) and r[0] == "ext":
            return ("ext", r[1])
        if hasattr(r, "node") and hasattr(r, "qual") and isinstance(r.node, ast.FunctionDef):
            return ("pkg", r)
        raise Unsupported("name %s" % node.id)

    def ev_Attribute(self, node):
        d = self.tree.dotted(self.fi.module, node)
        if d:
            return ("ext", d)
        base = self.ev(node.value)
        if isinstance(base, Sym) and node.attr == "shape":
            return ("shape", base.name)
        if isinstance(base, Sym) and node.attr == "dtype":
            return ("dtype-of-input", base.name)
        raise Unsupported("attribute %s" % norm(node))

    def subscript(self, node, base, index):
        if isinstance(base, Sym):
            idx = index if isinstance(index, tuple) else (index,)
            parts = []
            for i in idx:
                if isinstance(i, Poly) and len(i.symbols()) == 1 and i == Poly.sym(next(iter(i.symbols()))):
                    parts.append(next(iter(i.symbols())))
                elif isinstance(i, Poly) and i.is_const():
                    parts.append(str(int(i.const_value())))
                elif isinstance(i, int):
                    parts.append(str(i))
                elif isinstance(i, slice):
                    parts.append(":")
                else:
                    raise Unsupported("index %r" % (i,))
            return Poly.sym("%s[%s]" % (base.name, ",".join(parts)))
        if isinstance(base, tuple) and base[0] == "shape":
            if isinstance(index, slice):
                n = index.stop
                return tuple(Poly.sym("%s.shape[%d]" % (base[1], i)) for i in range(int(n if not isinstance(n, Poly) else n.const_value())))
            if isinstance(index, Poly):
                index = int(index.const_value())
            return Poly.sym("%s.shape[%d]" % (base[1], index))
        return super().subscript(node, base, index)

    def constant(self, node):
        if isinstance(node.value, bool) or node.value is None:
            return node.value
        if isinstance(node.value, (int, float)):
            return Poly.const(node.value)
        return node.value

    def ev_index(self, s):
        if isinstance(s, ast.Slice):
            return slice(self.ev(s.lower) if s.lower else None, self.ev(s.upper) if s.upper else None, None)
        return super().ev_index(s)

    def binop(self, node, op, a, b):
        if isinstance(op, ast.BitAnd) and all(isinstance(x, (bool, Cmp, Conj)) for x in (a, b)):
            # flag &= test: the conjunction of the tests (no short-circuit, which does not matter for pure comparisons)
            if a is False or b is False:
                return False
            terms = []
            for x in (a, b):
                terms += x.terms if isinstance(x, Conj) else [x] if isinstance(x, Cmp) else []
            return Conj(terms) if terms else True
        if isinstance(op, ast.FloorDiv):
            return Wrapped("floordiv", a, b)
        if isinstance(op, ast.Mod):
            return Wrapped("mod", a, b)
        if isinstance(a, Wrapped) or isinstance(b, Wrapped):
            name = {ast.Add: "add", ast.Sub: "sub", ast.Mult: "mul"}.get(type(op))
            if name:
                return Wrapped(name, a, b)
            raise Unsupported("arithmetic on a clamped value")
        return super().binop(node, op, a, b)

    def compare(self, node, op, a, b):
        if isinstance(op, (ast.Is, ast.IsNot)):
            if b is None and isinstance(a, Sym):
                return isinstance(op, ast.IsNot)
            if b is None and a is None:
                return isinstance(op, ast.Is)
            raise Unsupported("identity test")
        name = {ast.LtE: "<=", ast.Lt: "<", ast.GtE: ">=", ast.Gt: ">"}.get(type(op))
        if name is None:
            raise Unsupported("comparison %s" % norm(node))
        return Cmp(name, a, b)

    def ev_BoolOp(self, node):
        vals = [self.ev(v) for v in node.values]
        if isinstance(node.op, ast.And):
            terms = []
            for v in vals:
                if v is True:
                    continue
                if v is False:
                    return False
                if isinstance(v, Conj):
                    terms.extend(v.terms)
                elif isinstance(v, Cmp):
                    terms.append(v)
                else:
                    raise Unsupported("conjunct %r" % (v,))
            return Conj(terms)
        raise Unsupported("disjunction in the kernel guard")

    def truth(self, v, node=None):
        if isinstance(v, bool):
            return v
        raise Unsupported("undecided test %s" % (norm(node) if node is not None else v))

    NEGATED = {"<=": "not <=", "<": "not <", ">=": "not >=", ">": "not >", "not <=": "<=", "not <": "<", "not >=": ">=", "not >": ">",
               "isnan": "not isnan", "not isnan": "isnan", "isfinite": "not isfinite", "not isfinite": "isfinite"}

    def ev_UnaryOp(self, node):
        if isinstance(node.op, ast.Not):
            v = self.ev(node.operand)
            if isinstance(v, bool):
                return not v
            if isinstance(v, Cmp):
                # `not (a <= b)`: kept as the negation of that test (NOT rewritten to a > b: the two differ when a value is NaN)
                return Cmp(self.NEGATED[v.op], v.a, v.b)
            raise Unsupported("negation of %s" % norm(node.operand))
        return super().ev_UnaryOp(node)

    def all_guards(self):
        out = []
        for f in self.frames:
            out.extend(f["cont"])
        return out + list(self.guards)

    def _continue(self, st):
        """`continue` under the guards pushed since the loop was entered: the rest of the loop body runs under their negation"""
        if not self.frames:
            raise Unsupported("continue outside a loop")
        f = self.frames[-1]
        local = self.guards[f["base"]:]
        terms = [t for g in local for t in g.terms]
        if len(terms) != 1:
            raise Unsupported("continue under %d conditions" % len(terms))
        t = terms[0]
        f["cont"].append(Conj([Cmp(self.NEGATED[t.op], t.a, t.b)]))
        raise _SkipRest()

    def call(self, node, func, args, kwargs):
        if isinstance(func, tuple):
            if func[0] == "builtin":
                n = func[1]
                if n == "int":
                    return Wrapped("int", args[0])
                if n in ("max", "min") and len(args) == 2:
                    return Wrapped(n, args[0], args[1])
                if n == "len":
                    if isinstance(args[0], Sym):
                        return Poly.sym("len(%s)" % args[0].name)
                if n == "range":
                    return ("range",) + tuple(args)
                if n == "abs":
                    return Wrapped("abs", args[0])
            if func[0] == "ext":
                d = func[1]
                if d in ("numpy.sqrt", "math.sqrt"):
                    a = args[0]
                    if isinstance(a, Poly) and len(a.symbols()) == 1 and a == Poly.sym(next(iter(a.symbols()))):
                        return Poly.sym("sqrt(%s)" % next(iter(a.symbols())))
                    return Poly.sym("sqrt(%s)" % norm(node.args[0]))
                if d in ("numpy.abs", "numpy.absolute", "numpy.fabs"):
                    return Wrapped("abs", args[0])
                if d in ("numpy.full", "numpy.zeros", "numpy.empty"):
                    shape = kwargs.get("shape", args[0] if args else None)
                    fill = kwargs.get("fill_value", args[1] if len(args) > 1 else None)
                    pos = 2 if d == "numpy.full" else 1
                    return ("alloc", shape, fill, kwargs.get("dtype", args[pos] if len(args) > pos else None))
                if d in ("numpy.floor",):
                    return Wrapped("floor", args[0])
                if d == "numpy.nan":
                    return "nan"
                if d in ("numpy.isnan", "math.isnan", "numpy.isfinite", "math.isfinite") and len(args) == 1:
                    # a test on a VALUE (not on the geometry): kept as a condition of whatever it guards
                    return Cmp(d.split(".")[-1], args[0], None)
                if d in ("numba.prange",):
                    return ("range",) + tuple(args)
                if d in ("numba.get_num_threads", "numba.np.ufunc.parallel.get_num_threads"):
                    return Poly.sym("nthreads")
            if func[0] == "pkg":
                # a package helper (e.g. an index-range function factored out of the kernel): inlined
                callee = func[1]
                pn_ = [a.arg for a in callee.node.args.args]
                env = dict(zip(pn_, args))
                env.update(kwargs)
                if len(env) != len(pn_):
                    raise Unsupported("call %s: arguments do not bind" % norm(node.func))
                sub = KernelSym(self.tree, callee, env, self.none_axes)
                try:
                    sub.exec_block(callee.node.body)
                except ReturnValue as r:
                    if sub.stores:
                        raise Unsupported("helper %s stores into an array" % callee.qual)
                    return r.value
                return None
        raise Unsupported("call %s" % norm(node.func))

    def exec_stmt(self, st):
        if isinstance(st, ast.For):
            it = self.ev(st.iter)
            if not (isinstance(it, tuple) and it[0] == "range" and isinstance(st.target, ast.Name)) or len(it) > 3:
                raise Unsupported("loop %s" % norm(st.iter))
            lo, hi = (Poly.const(0), it[1]) if len(it) == 2 else (it[1], it[2])
            self.loops.append((st.target.id, lo, hi))
            self.env[st.target.id] = Poly.sym(st.target.id)
            self.frames.append({"base": len(self.guards), "cont": []})
            try:
                self.exec_block(st.body)
            except _SkipRest:
                raise Unsupported("unconditional continue")
            finally:
                self.frames.pop()
            return
        if isinstance(st, ast.Continue):
            self._continue(st)
        if isinstance(st, ast.If):
            t = self.ev(st.test)
            if isinstance(t, bool):
                self.exec_block(st.body if t else st.orelse)       # a _SkipRest from a decided branch ends the enclosing block too
                return
            if isinstance(t, (Conj, Cmp)) and st.orelse:
                # a two-way branch on a symbolic comparison (a fast path for small cells): each way is a path of its own, explored by
                # run_kernel_paths; the assumption is recorded as a PATH condition (not as a guard of the stores)
                from ..models import decide
                way = decide("kernel branch %s" % norm(st.test), "branch %s" % norm(st.test), per_occurrence=False)
                terms = t.terms if isinstance(t, Conj) else [t]
                if way:
                    self.path.extend(terms)
                elif len(terms) == 1:
                    self.path.append(Cmp(self.NEGATED[terms[0].op], terms[0].a, terms[0].b))
                else:
                    self.path.append(Cmp("not all of", tuple(terms), None))
                self.exec_block(st.body if way else st.orelse)
                return
            if isinstance(t, (Conj, Cmp)) and not st.orelse:
                self.guards.append(t if isinstance(t, Conj) else Conj([t]))
                try:
                    self.exec_block(st.body)
                except _SkipRest:
                    pass                                           # the rest of THIS body is skipped; what follows the `if` runs under the negation
                finally:
                    self.guards.pop()
                return
            raise Unsupported("branch %s" % norm(st.test))
        if isinstance(st, (ast.Assign, ast.AugAssign)) and isinstance((st.targets[0] if isinstance(st, ast.Assign) else st.target), ast.Subscript):
            tgt = st.targets[0] if isinstance(st, ast.Assign) else st.target
            base = norm(tgt.value)
            idx = self.ev_index(tgt.slice)
            val = self.ev(st.value)
            self.stores.append((base, idx, val, self.all_guards(), isinstance(st, ast.AugAssign), st))
            return
        if isinstance(st, ast.Return):
            raise ReturnValue(self.ev(st.value) if st.value is not None else None)
        return super().exec_stmt(st)

    def ev_Constant(self, node):
        return self.constant(node)

    def ev_Attribute_ext(self, node):
        return None


def run_kernel(tree, ndim_mode=3):
    """Evaluate evaluate_on_grid symbolically.  ndim_mode: which of the optional original-basis axes are given."""
    fi = tree.func(KERNEL)
    pn = params(fi)
    env = {}
    none_axes = {1: ("y", "z"), 2: ("z",), 3: ()}[ndim_mode]
    for p in pn:
        if p == "ndim":
            env[p] = Poly.sym("ndim")
        elif p.startswith("grid_lower_edge") or p.startswith("grid_spacing"):
            env[p] = Poly.sym(p)
        elif p.startswith("cell_positions_in_original_basis_") and p[-1] in none_axes:
            env[p] = None
        else:
            env[p] = Sym(p)
    ev = KernelSym(tree, fi, env, none_axes)
    try:
        ev.exec_block(fi.node.body)
    except ReturnValue as r:
        ev.returned = r.value
    return fi, ev, env


def run_kernel_paths(tree, ndim_mode=3):
    """every path of the kernel through its two-way branches on symbolic tests: [(label, fi, ev, env)]"""
    from ..models import explore
    out = []
    for assume, (fi, ev, env) in explore(lambda: run_kernel(tree, ndim_mode), limit=4):
        label = "" if not assume else " [path: %s]" % ", ".join(repr(t) for t in ev.path)
        out.append((label, fi, ev, env))
    return out


# =============================================================================== iteration space of the cell loop(s)
def concrete(e, vals):
    """Evaluate a loop-bound expression (Poly / Wrapped / int) with integer values for its symbols."""
    if isinstance(e, bool):
        raise Unsupported("boolean bound")
    if isinstance(e, (int, float)):
        return e
    if isinstance(e, Poly):
        missing = [s_ for s_ in e.symbols() if s_ not in vals]
        if missing:
            raise Unsupported("loop bound depends on %s" % missing)
        v = e.evaluate(vals)
        return int(v) if float(v).is_integer() else float(v)
    if isinstance(e, Wrapped):
        a = [concrete(x, vals) for x in e.args]
        if e.op == "int":
            return int(a[0])
        if e.op == "max":
            return max(a)
        if e.op == "min":
            return min(a)
        if e.op == "floordiv":
            if a[1] == 0:
                raise ZeroDivisionError
            return a[0] // a[1]
        if e.op == "mod":
            return a[0] % a[1]
        if e.op == "add":
            return a[0] + a[1]
        if e.op == "sub":
            return a[0] - a[1]
        if e.op == "mul":
            return a[0] * a[1]
        if e.op == "abs":
            return abs(a[0])
    raise Unsupported("loop bound %r" % (e,))


def cell_iteration_space(cell_loops, ncells_sym, ncells, nthreads):
    """All values taken by the innermost cell-loop variable, in nesting order, for concrete sizes."""
    out = []

    def rec(i, vals):
        if i == len(cell_loops):
            out.append(vals[cell_loops[-1][0]])
            return
        var, lo, hi = cell_loops[i]
        for x in range(int(concrete(lo, vals)), int(concrete(hi, vals))):
            v2 = dict(vals)
            v2[var] = x
            rec(i + 1, v2)
    rec(0, {ncells_sym: ncells, "nthreads": nthreads})
    return out
