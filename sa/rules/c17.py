"""C17 — in-place updates, copies and views follow a fixed aliasing contract."""
from __future__ import annotations

import ast

from ..source import norm, const_value, walk_no_nested
from ..specs import operators as optab
from . import coretypes as ct
from . import array_folds as af
from .common import (calls_in, is_name, params, single_return, root_name, returns_of, stores_in, flatten_targets,
                     attr_chain, bind_call)

EXPLANATION = (
    "Static rules: (R1) each in-place operator of Array equals its out-of-place sibling plus out=self, and each in-place "
    "operator of Vector forwards the in-place dunder to every component; (R2) with out= numpy writes into the existing "
    "buffer, the derived unit is stored on the out object and that same object is returned; (R3) neither _binary_op ever "
    "stores through the right operand; (R4) Array.copy allocates a fresh buffer, Vector.copy copies every component, "
    "__copy__/__deepcopy__ delegate to copy(), containers define no shallow __deepcopy__; (R5) Datagroup.copy/Dataset.copy "
    "re-insert the same member objects; (R6) Array.__getitem__ wraps the numpy index result without copying and "
    "Vector.__getitem__ indexes every component.")
NOT_DECIDED = ("numpy's view-versus-copy semantics per index kind; representability of an in-place result in the "
               "destination dtype (the property's own premise)")
TRUSTED = ("CPython ast", "numpy semantics of out= and of basic slicing", "copy.deepcopy default behaviour for objects "
           "without __deepcopy__")

ARRAY, VECTOR = "core/array.py::Array", "core/vector.py::Vector"
VBINOP = "core/vector.py::_binary_op"


def r1_inplace_twins(run, tree):
    run.rule("C17.R1", "in-place twins: same ufunc and strictness as the sibling, out=self; Vector forwards in-place dunders",
             "sibling agreement", "S4", floor=8)
    inplace = {k: v for k, v in optab.ARITH.items() if v[2]}
    af.check_operator_table_fold(run, tree, inplace)
    ci = tree.cls(ARRAY)
    for ip, op in optab.INPLACE_OF.items():
        a, b = tree.method(ci, ip), tree.method(ci, op)
        if a is None or b is None:
            continue
        sa_, sb_ = ct.dunder_semantics(tree, a), ct.dunder_semantics(tree, b)
        if sa_ and sb_:
            run.ob("%s.%s~%s" % (ARRAY, ip, op), (sa_["ufunc"], sa_["strict"]) == (sb_["ufunc"], sb_["strict"]), a.where(),
                   "%s uses (%s, strict=%s); %s uses (%s, strict=%s)" % (ip, sa_["ufunc"], sa_["strict"], op, sb_["ufunc"],
                                                                         sb_["strict"]), "x %s= y differs from x = x %s y" % (op, op))
    from . import core_folds as cf
    cf.check_vector_lifting(run, tree, ["__iadd__", "__isub__", "__imul__", "__itruediv__"], want_kinds=False)


def r2_out(run, tree):
    run.rule("C17.R2", "out=: buffer written by numpy, unit stored on the out object, same object returned", "D7 fold of _wrap_numpy with out=", "",
             floor=4)
    af.check_wrap_numpy_fold(run, tree, want=("out", "out-alias"))


def r3_rhs_not_written(run, tree):
    run.rule("C17.R3", "the right operand is never written", "effect rule", "", floor=2)
    for q in (ct.BINOP, VBINOP):
        fi = tree.func(q)
        run.analysed(fi)
        pn = params(fi)
        R = pn[2]
        bad = []
        for tgt, st in stores_in(fi.node):
            for t in flatten_targets(tgt):
                if isinstance(t, (ast.Attribute, ast.Subscript)) and root_name(t) == R:
                    bad.append(st)
        for n in walk_no_nested(fi.node):
            if isinstance(n, ast.Call) and isinstance(n.func, ast.Attribute) and root_name(n.func.value) == R and \
                    n.func.attr in ct.MUTATORS:
                bad.append(n)
            if isinstance(n, ast.Call):
                for k in n.keywords:
                    if k.arg == "out" and root_name(k.value) == R:
                        bad.append(n)
        run.ob(q + "::rhs-not-written", not bad, fi.where(bad[0]) if bad else fi.where(),
               "stores through %s: %s" % (R, norm(bad[0])[:80] if bad else "none"), "x += y modifies y")


def _is_copy_of(expr, chain_root, attr=None):
    """expr is <chain>.copy() or np.copy(<chain>) / np.array(<chain>, copy=True)"""
    if isinstance(expr, ast.Call):
        f = expr.func
        if isinstance(f, ast.Attribute) and f.attr in ("copy", "__copy__", "__deepcopy__") and not isinstance(f.value, ast.Name) \
                or (isinstance(f, ast.Attribute) and f.attr == "copy" and isinstance(f.value, ast.Name) and f.value.id not in
                    ("np", "numpy", "copy")):
            return root_name(f.value) == chain_root
        if isinstance(f, ast.Attribute) and f.attr in ("copy", "array", "deepcopy") and isinstance(f.value, ast.Name) and \
                f.value.id in ("np", "numpy", "copy") and expr.args:
            if f.attr == "array" and any(k.arg == "copy" and const_value(k.value) is False for k in expr.keywords):
                return False
            return root_name(expr.args[0]) == chain_root
    return False


def r4_deep_copies(run, tree):
    run.rule("C17.R4", "copy()/deepcopy of Array and Vector allocate fresh buffers", "origin rule", "", floor=5)
    # Array.copy
    ci = tree.cls(ARRAY)
    fi = tree.method(ci, "copy")
    construct = ARRAY + ".copy"
    if fi is None:
        run.violated(construct, ci.module.rel, "Array.copy is not defined", "copy.copy(a)")
    else:
        run.analysed(fi)
        ret = single_return(fi)
        ok, detail = False, "body is not a single constructor call"
        if isinstance(ret, ast.Call):
            vals = None
            for k in ret.keywords:
                if k.arg == "values":
                    vals = k.value
            if vals is None and ret.args:
                vals = ret.args[0]
            ok = vals is not None and _is_copy_of(vals, params(fi)[0])
            detail = "values=%s" % (norm(vals) if vals is not None else "?")
            unit = [k.value for k in ret.keywords if k.arg == "unit"]
            name = [k.value for k in ret.keywords if k.arg == "name"]
            run.ob(construct + "::unit-and-name", bool(unit) and bool(name) and "unit" in norm(unit[0]) and "name" in norm(name[0]),
                   fi.where(), "copy carries unit=%s name=%s" % (norm(unit[0]) if unit else "-", norm(name[0]) if name else "-"),
                   "a.copy() loses the unit or the name", nontrivial=False)
        run.ob(construct + "::fresh-buffer", ok, fi.where(), detail,
               "b = a.copy(); b *= 2 changes a (or a later in-place update of a shows through b)")
    # Vector.copy
    vi = tree.cls(VECTOR)
    fi = tree.method(vi, "copy")
    construct = VECTOR + ".copy"
    if fi is None:
        run.violated(construct, vi.module.rel, "Vector.copy is not defined", "copy.copy(v)")
    else:
        run.analysed(fi)
        ret = single_return(fi)
        ok = False
        if isinstance(ret, ast.Call):
            for k in ret.keywords:
                if k.arg is None and isinstance(k.value, ast.DictComp):
                    dc = k.value
                    g = dc.generators[0]
                    over_all = norm(g.iter) == "%s._xyz.items()" % params(fi)[0] and not g.ifs
                    tv = g.target.elts[1].id if isinstance(g.target, ast.Tuple) and len(g.target.elts) == 2 and isinstance(
                        g.target.elts[1], ast.Name) else None
                    ok = over_all and tv is not None and _is_copy_of(dc.value, tv)
        run.ob(construct + "::every-component-copied", ok, fi.where(), "returns %s" % (norm(ret)[:90] if ret is not None else "?"),
               "w = v.copy(); w.x *= 2 changes v.x")
    # Base.__copy__/__deepcopy__
    base = tree.cls("core/base.py::Base")
    for m in ("__copy__", "__deepcopy__"):
        fi = tree.method(base, m)
        construct = "core/base.py::Base.%s" % m
        if fi is None:
            # default copy.copy would share the buffer
            run.violated(construct, base.module.rel, "%s is not defined: the copy module's default %s" % (
                m, "shares the buffer" if m == "__copy__" else "is used"), "copy.copy(a) shares data with a")
            continue
        ret = single_return(fi)
        ok = isinstance(ret, ast.Call) and isinstance(ret.func, ast.Attribute) and ret.func.attr == "copy" and is_name(
            ret.func.value, params(fi)[0]) and not ret.args
        run.ob(construct, ok, fi.where(), "returns %s" % (norm(ret) if ret is not None else "?"),
               "copy.%s(a) is not independent of a" % ("copy" if m == "__copy__" else "deepcopy"))
    # the classes themselves must not override them with something shallower
    for cq in (ARRAY, VECTOR):
        c = tree.cls(cq)
        for m in ("__copy__", "__deepcopy__"):
            if m in c.methods:
                ret = single_return(c.methods[m])
                ok = isinstance(ret, ast.Call) and isinstance(ret.func, ast.Attribute) and ret.func.attr == "copy"
                run.ob("%s.%s" % (cq, m), ok, c.methods[m].where(), "override returns %s" % (norm(ret) if ret is not None else "?"),
                       "deepcopy not independent")
    # containers: deepcopy must be the default (recursive) one or an explicit deep one
    for cq in ("core/datagroup.py::Datagroup", "core/dataset.py::Dataset", "io/ramses.py::RamsesDataset"):
        try:
            c = tree.cls(cq)
        except Exception:
            continue
        if "__deepcopy__" in c.methods:
            fi = c.methods["__deepcopy__"]
            src = " ".join(norm(s) for s in fi.node.body)
            ok = "deepcopy" in src
            run.ob(cq + ".__deepcopy__", ok, fi.where(), "custom __deepcopy__ %s" % (
                "recurses with deepcopy" if ok else "does not deep-copy the members: " + src[:80]),
                   "deepcopy(group)['a'] *= 2 changes group['a']")
        else:
            run.holds(cq + ".__deepcopy__", c.module.rel, "no custom __deepcopy__: copy.deepcopy recurses into the members, "
                      "whose __deepcopy__ is copy()", nontrivial=False)


def r5_shallow_container_copies(run, tree):
    run.rule("C17.R5", "container copy() is shallow: the same member objects are re-inserted", "origin rule", "", floor=2)
    dg = tree.cls("core/datagroup.py::Datagroup")
    fi = tree.method(dg, "copy")
    construct = "core/datagroup.py::Datagroup.copy"
    if fi is None:
        run.violated(construct, dg.module.rel, "copy not defined", "group.copy()")
    else:
        run.analysed(fi)
        ret = single_return(fi)
        ok, detail = False, norm(ret)[:90] if ret is not None else "?"
        if isinstance(ret, ast.Call):
            src = norm(ret)
            deep = any(isinstance(n, ast.Call) and isinstance(n.func, ast.Attribute) and n.func.attr in
                       ("copy", "deepcopy", "__deepcopy__") for n in ast.walk(ret) if n is not ret)
            covers = "%s.items()" % params(fi)[0] in src or "%s._container" % params(fi)[0] in src
            nofilter = not any(isinstance(n, ast.comprehension) and n.ifs for n in ast.walk(ret))
            ok = (not deep) and covers and nofilter
            detail = "%s%s%s" % (src[:90], "; members are copied" if deep else "", "" if covers and nofilter else
                                 "; not all members are carried over")
        run.ob(construct, ok, fi.where(), detail, "g2 = g.copy(); g2['a'] *= 2 is not seen through g['a'] (copy() of a "
               "container is documented shallow), or a member is missing from the copy")
    ds = tree.cls("core/dataset.py::Dataset")
    fi = tree.method(ds, "copy")
    construct = "core/dataset.py::Dataset.copy"
    if fi is None:
        run.violated(construct, ds.module.rel, "copy not defined", "dataset.copy()")
    else:
        run.analysed(fi)
        src = " ".join(norm(s) for s in fi.node.body)
        deep = ".copy()" in src.replace("meta.copy()", "") or "deepcopy" in src
        covers = "%s.items()" % params(fi)[0] in src or "%s.groups" % params(fi)[0] in src
        meta = "meta.copy()" in src or "dict(%s.meta)" % params(fi)[0] in src
        run.ob(construct, (not deep) and covers, fi.where(), "groups %s; %s" % (
            "copied (not shallow)" if deep else "shared", "all groups carried" if covers else "groups not carried over"),
               "ds2 = ds.copy(); ds2['mesh']['a'] *= 2 not visible through ds")
        run.ob(construct + "::meta", meta, fi.where(), "meta %s" % ("copied" if meta else "shared or dropped"),
               "ds.copy().meta['x'] = 1 changes ds.meta")


def r6_views(run, tree):
    run.rule("C17.R6", "slices are views: Array.__init__ keeps the buffer it is given, __getitem__ wraps the numpy index result without copying",
             "D7 fold of Array.__init__/__getitem__ over buffer tokens", "", floor=8)
    af.check_constructor_fold(run, tree)
    af.check_index_gate_fold(run, tree)
    from . import core_folds as cf
    cf.check_vector_unary_and_maps(run, tree)
    cf.check_group_copy(run, tree)


RULES = [r1_inplace_twins, r2_out, r3_rhs_not_written, r4_deep_copies, r5_shallow_container_copies, r6_views]
