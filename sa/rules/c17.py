"""C17 — in-place updates, copies and views follow a fixed aliasing contract."""
from __future__ import annotations

import ast

from ..specs import operators as optab
from . import coretypes as ct
from . import array_folds as af
from . import core_folds as cf

EXPLANATION = '(R1) in-place dunders: same operation/strictness as the out-of-place sibling, out=self; Vector forwards them per component; (R2) out=: numpy receives the buffer of the out Array, the unit is stored on it and the same object returned; (R3) operands unchanged by every binary operator (Array and Vector); (R4) copy()/copy.copy/deepcopy of Array and Vector on fresh buffers (copy protocol resolved through the MRO), deepcopy of containers independent, container copy() shallow with its own metadata dict; (R6) Array.__init__ keeps the buffer it is given, __getitem__ wraps the numpy index result, Vector maps per component. (R7) end to end: x op= y for Arrays of rank 0, 1, 2 and empty ones keeps object and buffer; Vector op= with Vector / Array / array-valued / scalar Quantity operands applied twice leaves the operand denoting the same quantity; (R4) a deep copy shares nothing mutable with the original (reachability over the whole object graph). (R8) conversion history; the operator table is folded over plain operand kinds (a private rewrite of the operand such as 1.0/other is reported); deepcopy honours the memo handed to __deepcopy__. R7 also folds Array op= Vector (the name is bound to the Vector a op v) and Vectors built from raw buffers of different dtypes (no component buffer is replaced by a cast); weak references are atomic under deepcopy. (R8) a Vector is its current components (shared with C06.R4/C09.R2); R4 fills the metadata in place (a class-level dict would be shared with the deep copy); R7 includes float32 data.'
NOT_DECIDED = "numpy's own view/copy rules for fancy indexing; buffers shared through numpy operations outside osyris"
TRUSTED = ('CPython ast', 'numpy out= semantics', 'the interpreter sa/models.py (ModelEval) and its library models')

ARRAY, VECTOR = "core/array.py::Array", "core/vector.py::Vector"
VBINOP = "core/vector.py::_binary_op"

TECHNIQUE = 'static analysis: abstract interpretation over buffer tokens with object identity (aliasing) tracked'

def r1_inplace_twins(run, tree):
    run.rule("C17.R1", "in-place twins: same ufunc and strictness as the sibling, out=self; Vector forwards in-place dunders",
             "sibling agreement", "S4", floor=8)
    inplace = {k: v for k, v in optab.ARITH.items() if v[2]}
    af.check_operator_table_fold(run, tree, inplace)
    ci = tree.cls(ARRAY)
    for ip, op in optab.INPLACE_OF.items():
        a, b = tree.method(ci, ip), tree.method(ci, op)
        if a is None or b is None:
            continue
        sa_, sb_ = ct.dunder_semantics(tree, a), ct.dunder_semantics(tree, b)
        if sa_ and sb_:
            run.ob("%s.%s~%s" % (ARRAY, ip, op), (sa_["ufunc"], sa_["strict"]) == (sb_["ufunc"], sb_["strict"]), a.where(),
                   "%s uses (%s, strict=%s); %s uses (%s, strict=%s)" % (ip, sa_["ufunc"], sa_["strict"], op, sb_["ufunc"],
                                                                         sb_["strict"]), "x %s= y differs from x = x %s y" % (op, op))
    from . import core_folds as cf
    cf.check_vector_lifting(run, tree, ["__iadd__", "__isub__", "__imul__", "__itruediv__"], want_kinds=False)


def r2_out(run, tree):
    run.rule("C17.R2", "out=: buffer written by numpy, unit stored on the out object, same object returned", "D7 fold of _wrap_numpy with out=", "",
             floor=4)
    af.check_wrap_numpy_fold(run, tree, want=("out", "out-alias"))


def r3_rhs_not_written(run, tree):
    run.rule("C17.R3", "the right operand is never written (Array and Vector binary operators, every operand kind)",
             "D7 folds of _binary_op (core/array.py) and of the Vector operators: operand state before/after", "", floor=10)
    af.check_binary_op_fold(run, tree)
    cf.check_vector_lifting(run, tree, ["__iadd__", "__isub__", "__imul__", "__itruediv__", "__add__", "__mul__"], want_kinds=False)


def r4_deep_copies(run, tree):
    run.rule("C17.R4", "copy()/copy.copy/deepcopy of Array and Vector allocate fresh buffers; deepcopy of containers is independent; "
             "container copy() is shallow (same member objects, new container, own metadata dict)",
             "D7 fold of the copy methods and of the copy protocol (__copy__/__deepcopy__ resolved through the MRO) over buffer tokens", "", floor=12)
    cf.check_copies_fold(run, tree)


def r6_views(run, tree):
    run.rule("C17.R6", "slices are views: Array.__init__ keeps the buffer it is given, __getitem__ wraps the numpy index result without copying",
             "D7 fold of Array.__init__/__getitem__ over buffer tokens", "", floor=8)
    af.check_constructor_fold(run, tree)
    af.check_index_gate_fold(run, tree)
    from . import core_folds as cf
    cf.check_vector_unary_and_maps(run, tree)
    cf.check_group_copy(run, tree)
    cf.check_group_slice_views(run, tree)


def r7_end_to_end(run, tree):
    run.rule("C17.R7", "end to end: x op= y on Arrays of every rank (0-d and empty included) keeps the object and its buffer and gives x the quantity x op y; "
             "Vector op= updates the component buffers seen through every reference; the right operand (Vector, Array, array-valued or scalar Quantity "
             "in another unit) denotes the same quantity afterwards, also when the operation is repeated", "D7 fold of core/array.py and core/vector.py with numpy ufuncs (out= writes into the buffer it is given) and pint units as models", "", floor=32)
    from . import quantity_stack as qs
    qs.check_inplace_stack(run, tree)
    qs.check_inplace_mixed_stack(run, tree)
    qs.check_vector_lifting_stack(run, tree)       # v op= y: what the name and every older reference hold afterwards (values AND unit)


def r_conversion_history(run, tree):
    run.rule("C17.R8", "a conversion is computed from the operand as it is NOW: converting, changing the buffer in place, converting again gives the new values (no memo of an earlier conversion; shared with C02.R7/C08.R6)",
             "D7 history fold of Array.to with symbolic buffers", "", floor=1)
    from . import quantity_stack as qs
    qs.check_to_stack(run, tree, only=("history",))


def r8_current_components(run, tree):
    run.rule("C17.R8", "a Vector IS its current components: after v.y = a, in-place operators, copies and slices act on a (the Array object now stored), not on the component "
             "the Vector was built with (shared with C06.R4/C09.R2)", "D7 fold of the Vector class after a component re-assignment", "", floor=1)
    cf.check_vector_component_reassigned(run, tree)


RULES = [r1_inplace_twins, r2_out, r3_rhs_not_written, r4_deep_copies, r6_views, r7_end_to_end, r_conversion_history, r8_current_components]


def t_pair_space(run, tree):
    run.rule("C17.T1", "thorough: every in-place operator over all ordered pairs of 15 units: same object, same buffer, right operand untouched, refusal leaves both operands unchanged", "D7 fold of the whole Array class (and Vector.to) with dispatching numpy models and symbolic-scale units, over the complete product of the unit list", "", floor=1)
    from . import quantity_stack as qs
    qs.check_unit_pair_space(run, tree, kinds=("strict-in", "free-in"))


THOROUGH_RULES = [t_pair_space]
