"""C05 — 2-D histogram bins every point exactly once, independent of thread schedule."""
from __future__ import annotations

import ast
import math
from fractions import Fraction as F

from ..deps import DepAnalysis, clean, flat
from ..flow import enumerate_paths
from ..parloop import classify_writes, is_parallel, is_numba, prange_loops, FIXTURE
from ..peval import Evaluator, Model, Unsupported, ReturnValue, RaisedInModel
from ..poly import Poly, Rat, S
from ..source import norm, const_value, walk_no_nested, SourceTree, AnalysisError, FuncInfo
from .common import is_name, params, returns_of, calls_in, root_name

EXPLANATION = (
    "Static rules on plot/utils.py::hist2d and plot/histogram2d.py: (R1) parallel-loop write classification: no "
    "read-modify-write on a shared array element inside a numba prange body (a positive fixture is re-checked on every run); "
    "(R2-R4) the kernel's per-point logic is folded over a finite set of sample points that covers every ordering of a "
    "coordinate against the bin edges (below the range by less than one bin, on the lower edge, inside, in the last bin, "
    "above) on an asymmetric grid: exactly one counts/values update at (floor((y-ymin)/dy), floor((x-xmin)/dx)) for in-range "
    "points, none otherwise, values and counts under the same guard, arrays shaped (layers, ny, nx); (R5) explicit limits "
    "given as a Quantity are converted to the unit of the axis (pint Unit has no .units), the automatic range strictly "
    "contains the data extremes (polynomial evaluation of the padding code), log axes transform data and explicit limits "
    "alike; (R6) dependence analysis: every x-axis argument of the kernel depends only on x inputs and every y-axis "
    "argument only on y inputs; (R7) the default layer counts points, 'mean' divides the summed layer by the counts, the "
    "mask is counts == 0.")
NOT_DECIDED = ("float rounding at bin edges; NaN/inf conversion semantics inside numba (numba casts NaN to an out-of-range "
               "integer on the supported platforms); exact floating-point sums")
TRUSTED = ("CPython ast", "numba prange semantics (reductions only on scalars and whole arrays)", "numpy/numba floor and int "
           "conversion semantics for finite values", "pint: Unit has no .units attribute")
TECHNIQUE = ("static analysis: parallel-loop write classification, finite-case folding of the kernel's index logic, "
             "dependence analysis (axis separation), polynomial evaluation of the range padding")

KERNEL = "plot/utils.py::hist2d"
H2D = "plot/histogram2d.py::histogram2d"
PL = "plot/histogram2d.py::_parse_limit"


def r1_no_shared_rmw(run, tree):
    run.rule("C05.R1", "no shared read-modify-write inside a prange body", "parallel-loop write classification",
             "numba parallel semantics", floor=2)
    # positive fixture: the rule must fire on a known racy kernel
    ft = SourceTree.__new__(SourceTree)
    from ..source import ModuleInfo
    try:
        mi = ModuleInfo("fixture.py", "osyris.fixture", FIXTURE, False)
        ft.modules = {"fixture.py": mi}
        ft.by_modname = {"osyris.fixture": mi}
        ft.consulted = set()
        ft.overlay = {}
        ft._index(mi)
        ffi = mi.functions["racy"]
        kinds = [k for k, *_ in classify_writes(ft, ffi)]
        if not (is_parallel(ft, ffi) and "shared-rmw" in kinds):
            run.unresolved("fixture::racy", "", "the positive fixture is not recognised as a race: %s" % kinds)
        else:
            run.holds("fixture::racy-kernel-is-reported", "sa/parloop.py", "positive fixture classified shared-rmw",
                      nontrivial=False)
    except Exception as e:
        run.unresolved("fixture::racy", "", "fixture failed: %s" % e)
    fi = tree.func(KERNEL)
    run.analysed(fi)
    par = is_parallel(tree, fi)
    loops = prange_loops(tree, fi)
    if not is_numba(tree, fi):
        run.holds(KERNEL + "::not-compiled-parallel", fi.where(), "hist2d is not a numba-parallel function", nontrivial=False)
    writes = classify_writes(tree, fi) if par else []
    for kind, st, tgt, loop, guards in writes:
        if kind == "shared-rmw":
            run.violated("%s::shared-rmw::%s" % (KERNEL, norm(tgt)), fi.where(st),
                         "`%s` inside `for %s in prange(...)`: the index is data dependent, two threads can update the same "
                         "bin and one update is lost" % (norm(st), norm(loop.target)),
                         "any input where two points fall into one bin, with more than one numba thread: counts and sums "
                         "differ from run to run")
        elif kind == "shared-store":
            run.violated("%s::shared-store::%s" % (KERNEL, norm(tgt)), fi.where(st),
                         "`%s`: plain store to a shared element inside prange (last writer wins)" % norm(st),
                         "two points in one bin")
        elif kind == "unknown":
            run.unresolved("%s::write::%s" % (KERNEL, norm(tgt)), fi.where(st), "store target not understood")
    run.ob(KERNEL + "::accumulation-is-schedule-independent",
           not any(k in ("shared-rmw", "shared-store") for k, *_ in writes), fi.where(),
           "parallel=%s, %d prange loops, %d classified writes: %s" % (par, len(loops), len(writes),
                                                                       sorted({k for k, *_ in writes}) or "none (serial loop)"),
           "totals depend on the thread schedule")
    # every other numba-parallel function of the package: same classification (sweep)
    for f2 in tree.all_functions():
        if f2.qual == KERNEL or not is_parallel(tree, f2):
            continue
        for kind, st, tgt, loop, guards in classify_writes(tree, f2):
            if kind == "shared-rmw":
                run.violated("%s::shared-rmw::%s" % (f2.qual, norm(tgt)), f2.where(st), "`%s` inside prange" % norm(st),
                             "lost updates")


# ------------------------------------------------------------------------------------------ kernel folding (D7)
class Arr(Model):
    """checker-side accumulator model: records every element update together with the point being processed"""

    def __init__(self, name, shape, log, ctx):
        self.name, self.shape, self.log, self.ctx = name, tuple(shape), log, ctx
        self.reduced = 0

    def __getitem__(self, idx):
        return ("elem", self.name, idx)

    def __setitem__(self, idx, v):
        self.log.append((self, idx, ("=", v), self.ctx.get("point")))

    def sum(self, axis=None):
        if axis == 0:
            r = Arr(self.name, self.shape[1:], self.log, self.ctx)
            r.reduced = self.reduced + 1
            r.base = getattr(self, "base", self)
            return r
        raise Unsupported("sum(axis=%r) on an accumulator" % (axis,))


class Vec(Model):
    def __init__(self, name, data, ctx):
        self.name, self.data, self.ctx = name, data, ctx
        self.shape = (len(data),)

    def __getitem__(self, idx):
        if isinstance(idx, tuple):
            return ("col", self.name, idx[-1])
        if not isinstance(idx, int) or idx < 0 or idx >= len(self.data):
            raise Unsupported("index %r outside the input arrays" % (idx,))
        self.ctx["point"] = idx
        return self.data[idx]

    def __len__(self):
        return len(self.data)


class Vals(Model):
    def __init__(self, nlayers, n):
        self.shape = (nlayers, n)

    def __getitem__(self, idx):
        return ("col", "values", idx[-1] if isinstance(idx, tuple) else idx)


class KernelEval(Evaluator):
    def __init__(self, tree, fi, env, log, ctx, nthreads):
        super().__init__(env)
        self.tree, self.fi, self.log, self.ctx, self.nthreads = tree, fi, log, ctx, nthreads

    def ev_Name(self, node):
        if node.id in self.env:
            return self.env[node.id]
        if node.id in ("int", "float", "len", "range", "abs", "min", "max", "round"):
            return {"int": lambda v: int(v) if not isinstance(v, F) else math.trunc(v), "float": float, "len": len,
                    "range": range, "abs": abs, "min": min, "max": max, "round": round}[node.id]
        r = self.tree.resolve_name(self.fi.module, node.id)
        if isinstance(r, tuple) and r[0] == "ext":
            return self.ext(r[1], node)
        raise Unsupported("name %s" % node.id)

    def ext(self, d, node):
        if d in ("numba.prange",):
            return range
        if d in ("numba.get_num_threads", "numba.np.ufunc.parallel.get_num_threads"):
            return lambda: self.nthreads
        if d in ("numpy.floor", "math.floor"):
            return lambda v: math.floor(v)
        if d in ("numpy.ceil", "math.ceil"):
            return lambda v: math.ceil(v)
        if d in ("numpy.trunc", "math.trunc", "numpy.fix"):
            return lambda v: math.trunc(v)
        if d in ("numpy.rint", "numpy.round", "numpy.around"):
            return lambda v: round(v)
        if d in ("numpy.zeros", "numpy.empty"):
            return lambda shape=None, *a, **k: ("alloc", tuple(shape) if isinstance(shape, (tuple, list)) else (shape,))
        if d in ("numpy.float64", "numpy.int64", "numpy.float32", "numpy.int32"):
            return ("dtype", d)
        if d in ("numpy.isfinite",):
            return lambda v: True
        raise Unsupported("%s in the kernel" % d)

    def ev_Attribute(self, node):
        d = self.tree.dotted(self.fi.module, node)
        if d:
            return self.ext(d, node)
        return super().ev_Attribute(node)

    def attr(self, node, base):
        if isinstance(base, (Vec, Vals, Arr)) and node.attr == "shape":
            return base.shape
        return super().attr(node, base)

    def binop(self, node, op, a, b):
        if isinstance(a, tuple) or isinstance(b, tuple):
            if isinstance(op, ast.Add):
                return ("sum", a, b)
            raise Unsupported("operator on symbolic element")
        return super().binop(node, op, a, b)

    def assign(self, t, v):
        if isinstance(t, ast.Name) and isinstance(v, tuple) and v and v[0] == "alloc":
            v = Arr(t.id, v[1], self.log, self.ctx)
        return super().assign(t, v)

    def exec_stmt(self, st):
        if isinstance(st, ast.AugAssign) and isinstance(st.target, ast.Subscript):
            base = self.ev(st.target.value)
            idx = self.ev_index(st.target.slice)
            val = self.ev(st.value)
            if isinstance(base, Arr):
                self.log.append((base, idx, ("+=", val), self.ctx.get("point")))
                return
        return super().exec_stmt(st)


def fold_kernel(tree, fi, pts, xmin, xmax, nx, ymin, ymax, ny, nthreads=1, nlayers=2):
    log, ctx = [], {}
    pn = params(fi)
    if len(pn) != 9:
        raise Unsupported("hist2d signature changed: %s" % pn)
    env = {}
    ev = KernelEval(tree, fi, env, log, ctx, nthreads)
    args = [Vec("x", [p[0] for p in pts], ctx), Vec("y", [p[1] for p in pts], ctx), Vals(nlayers, len(pts)), xmin, xmax, nx, ymin, ymax, ny]
    ret = ev.run_function(fi.node, args)
    arrays = {k: v for k, v in env.items() if isinstance(v, Arr)}
    return log, arrays, ret


def r2_kernel_index_logic(run, tree):
    run.rule("C05.R2", "kernel index logic over all orderings of a coordinate against the bin edges (floor, range test, "
             "x/y pairing, shapes, same guard for values and counts), for several thread counts", "D7 finite-case folding", "", floor=12)
    fi = tree.func(KERNEL)
    run.analysed(fi)
    xmin, xmax, nx = F(0), F(10), 10          # dx = 1
    ymin, ymax, ny = F(100), F(108), 4        # dy = 2   (asymmetric: any x/y mix-up shows)
    cases = [
        ("inside", F(35, 10), F(1033, 10), (1, 3)),
        ("just below xmin (by half a bin)", F(-1, 2), F(101), None),
        ("just below ymin (by half a bin)", F(5), F(99), None),
        ("just below both lower limits", F(-1, 100), F(9999, 100), None),
        ("on the lower edges", F(0), F(100), (0, 0)),
        ("last bin in x", F(999, 100), F(101), (0, 9)),
        ("last bin in y", F(1, 2), F(1079, 10), (3, 0)),
        ("just above xmax", F(1001, 100), F(101), None),
        ("just above ymax", F(5), F(1081, 10), None),
        ("far below", F(-50), F(50), None),
        ("far above", F(70), F(170), None),
        ("x in range for the y grid only", F(5), F(5), None),
        ("second point in an occupied bin", F(36, 10), F(1034, 10), (1, 3)),
    ]
    pts = [(c[1], c[2]) for c in cases]
    shapes_checked = False
    for nthreads in (1, 2, 4, 5):
        tag = "" if nthreads == 1 else "[threads=%d]" % nthreads
        try:
            log, arrays, ret = fold_kernel(tree, fi, pts, xmin, xmax, nx, ymin, ymax, ny, nthreads)
        except (Unsupported, RaisedInModel, ZeroDivisionError, TypeError, IndexError) as e:
            run.unresolved("%s::fold%s" % (KERNEL, tag), fi.where(), "cannot fold the kernel over the sample points: %s: %s" % (type(e).__name__, e))
            continue
        # the returned arrays: (values, counts), possibly reduced over a leading per-thread axis
        if not (isinstance(ret, tuple) and len(ret) == 2 and all(isinstance(r, Arr) for r in ret)):
            run.unresolved("%s::return%s" % (KERNEL, tag), fi.where(), "kernel does not return (values, counts) accumulators")
            continue
        rv, rc = ret
        if not shapes_checked:
            shapes_checked = True
            ok = rc.shape == (ny, nx) and rv.shape == (2, ny, nx)
            run.ob(KERNEL + "::array-shapes", ok, fi.where(), "returned accumulators have shapes %s and %s (required (layers, ny, nx) and (ny, nx))" % (rv.shape, rc.shape),
                   "a non-square resolution indexes out of bounds or transposes the histogram")
        base_c, base_v = getattr(rc, "base", rc), getattr(rv, "base", rv)
        for i, (label, px, py, want) in enumerate(cases):
            construct = "%s::point[%s]%s" % (KERNEL, label, tag)
            cu = [(idx, v) for arr, idx, v, pt in log if arr is base_c and pt == i]
            vu = [(idx, v) for arr, idx, v, pt in log if arr is base_v and (v == ("+=", ("col", "values", i)))]
            other = [(arr.name, idx) for arr, idx, v, pt in log if pt == i and arr is not base_c and arr is not base_v]
            problems = []
            if want is None:
                if cu or vu:
                    problems.append("out-of-range point is accumulated at %s" % [tuple(idx[-2:]) for idx, _ in cu + vu])
            else:
                if len(cu) != 1 or tuple(cu[0][0][-2:]) != want or cu[0][1] != ("+=", 1):
                    problems.append("counts updated %s (required exactly once at %s with += 1)" % (
                        [(tuple(idx[-2:]), v) for idx, v in cu] or "never", want))
                ok_v = len(vu) == 1 and tuple(vu[0][0][-2:]) == want and isinstance(vu[0][0][-3], slice)
                if not ok_v:
                    problems.append("values updated %s (required once at [:, %s, %s] with += values[:, i])" % (
                        [tuple(idx[-2:]) for idx, _ in vu] or "never", want[0], want[1]))
            if other:
                problems.append("updates to arrays that are not returned: %s" % other[:2])
            run.ob(construct, not problems, fi.where(), "; ".join(problems) or ("binned at %s" % (want,) if want else "not binned"),
                   "a point %s is %s%s" % (label, "counted in the wrong bin / not exactly once" if want else "counted although it lies outside the range",
                                           " when numba runs %d threads (totals depend on the thread count)" % nthreads if nthreads > 1 else ""))


# ------------------------------------------------------------------------------------------ limits
def r5_limits(run, tree):
    run.rule("C05.R5", "limits: Quantity converted to the axis unit; automatic range strictly contains the data; log handling",
             "D6 attribute discipline + D7 + D1", "pint API", floor=6)
    fi = tree.func(PL)
    run.analysed(fi)
    pn = params(fi)
    if len(pn) != 4:
        run.unresolved(PL, fi.where(), "signature changed")
        return
    LIMIT, X, LOGX, RED = pn
    # (a) the Quantity branch converts to x.unit
    conv = None
    for n in walk_no_nested(fi.node):
        if isinstance(n, ast.Call) and isinstance(n.func, ast.Attribute) and n.func.attr == "to" and is_name(n.func.value, LIMIT):
            conv = n
    if conv is None:
        run.violated(PL + "::quantity-conversion", fi.where(), "a Quantity limit is not converted with .to(<axis unit>)",
                     "xmin=1*km on an axis in m is taken as 1")
    else:
        arg = conv.args[0] if conv.args else None
        ok = arg is not None and norm(arg) in ("%s.unit" % X, "%s._unit" % X)
        detail = "limit.to(%s)" % (norm(arg) if arg is not None else "")
        if arg is not None and norm(arg).startswith("%s.unit." % X):
            detail += ": Array.unit is a pint Unit, which has no attribute %s" % norm(arg).split(".")[-1]
        run.ob(PL + "::quantity-conversion", ok, fi.where(conv), detail,
               "every explicit limit given as a Quantity raises AttributeError / is converted to the wrong unit")
        # .magnitude taken after conversion
        par = [n for n in walk_no_nested(fi.node) if isinstance(n, ast.Attribute) and n.value is conv]
        run.ob(PL + "::magnitude-after-conversion", bool(par) and par[0].attr in ("magnitude", "m"), fi.where(conv),
               "converted limit used via .%s" % (par[0].attr if par else "?"), "a Quantity reaches the numba kernel")
    # (b) truth table of _parse_limit
    table = []
    for path in enumerate_paths(fi.node.body):
        conds = {}
        for it in path:
            if it[0] == "test":
                conds[norm(it[1])] = it[2]
        table.append((conds, path))
    auto_min = auto_max = explicit_log = False
    for conds, path in table:
        rets = [it[1] for it in path if it[0] == "stmt" and isinstance(it[1], ast.Return)]
        stmts = [norm(it[1]) for it in path if it[0] == "stmt"]
        if conds.get("%s is None" % LIMIT) is True:
            if conds.get("%s == 'min'" % RED) is True and any("finmin(%s.values)" % X in s for s in stmts) and "autox = True" in stmts:
                auto_min = True
            if conds.get("%s == 'max'" % RED) is True and any("finmax(%s.values)" % X in s for s in stmts) and "autox = True" in stmts:
                auto_max = True
        elif conds.get("%s is None" % LIMIT) is False and conds.get(LOGX) is True:
            if any(s == "%s = np.log10(%s)" % (LIMIT, LIMIT) for s in stmts):
                explicit_log = True
    run.ob(PL + "::automatic-min", auto_min, fi.where(), "missing lower limit -> finite minimum of the data, flagged automatic: %s" % auto_min,
           "automatic lower limit is not the finite minimum")
    run.ob(PL + "::automatic-max", auto_max, fi.where(), "missing upper limit -> finite maximum of the data, flagged automatic: %s" % auto_max,
           "automatic upper limit is not the finite maximum")
    run.ob(PL + "::explicit-limit-on-log-axis", explicit_log, fi.where(), "explicit limit on a log axis is log10-transformed: %s" % explicit_log,
           "xmin=10 on a log axis is compared with log10 of the data")
    check_padding(run, tree)


class PadEval(Evaluator):
    """D1 evaluation of the statements of histogram2d that compute the final limits, in the mode
    'all limits automatic, non-degenerate range': symbols mx < Mx (data extremes)."""

    def __init__(self, tree, fi, env, flags):
        super().__init__(env)
        self.tree, self.fi, self.flags = tree, fi, flags

    def ev_Name(self, node):
        if node.id in self.env:
            return self.env[node.id]
        if node.id == "abs":
            return lambda v: v  # only used in the degenerate branch
        raise Unsupported("name %s" % node.id)

    def compare(self, node, op, a, b):
        if isinstance(a, Poly) and isinstance(b, Poly) and isinstance(op, (ast.Eq, ast.NotEq)):
            eq = (a == b)
            if not eq and (a - b).symbols():
                eq = False  # distinct symbols: the non-degenerate mode
            return eq if isinstance(op, ast.Eq) else not eq
        return super().compare(node, op, a, b)

    def call(self, node, func, args, kwargs):
        callee = self.tree.resolve_call(self.fi, node)
        if isinstance(callee, FuncInfo):
            sub = PadEval(self.tree, callee, {}, self.flags)
            return sub.run_function(callee.node, args, kwargs)
        if callable(func):
            return func(*args, **kwargs)
        raise Unsupported("call %s" % norm(node.func))

    def ev_Call(self, node):
        callee = self.tree.resolve_call(self.fi, node)
        if isinstance(callee, FuncInfo):
            args = self.ev_seq(node.args)
            kwargs = {k.arg: self.ev(k.value) for k in node.keywords if k.arg}
            sub = PadEval(self.tree, callee, {}, self.flags)
            return sub.run_function(callee.node, args, kwargs)
        return super().ev_Call(node)


def check_padding(run, tree):
    fi = tree.func(H2D)
    run.analysed(fi)
    LIMS = ("xmin", "xmax", "ymin", "ymax")
    for auto_label, autos in (("all-automatic", (True, True, True, True)), ("only-upper-automatic", (False, True, False, True)),
                              ("only-lower-automatic", (True, False, True, False))):
        env = {"xmin": S("mx"), "xmax": S("Mx"), "ymin": S("my"), "ymax": S("My")}
        flag_names = {}
        # find the flag names bound by the _parse_limit calls
        started = False
        slice_stmts = []
        for st in fi.node.body:
            if isinstance(st, ast.Assign) and isinstance(st.value, ast.Call) and isinstance(tree.resolve_call(fi, st.value), FuncInfo) \
                    and tree.resolve_call(fi, st.value).qual == PL and isinstance(st.targets[0], ast.Tuple):
                tl, tf = st.targets[0].elts
                flag_names[tl.id] = tf.id
                started = True
                continue
            if not started:
                continue
            names = {n.id for n in ast.walk(st) if isinstance(n, ast.Name)}
            targets = set()
            for n in ast.walk(st):
                if isinstance(n, (ast.Assign, ast.AugAssign)):
                    for t in (n.targets if isinstance(n, ast.Assign) else [n.target]):
                        for x in ast.walk(t):
                            if isinstance(x, ast.Name):
                                targets.add(x.id)
            if targets and targets <= (set(LIMS) | {"dx", "dy"}):
                slice_stmts.append(st)
            elif any(isinstance(n, ast.Call) and norm(n.func) in ("np.linspace", "np.logspace") for n in ast.walk(st)):
                break
        if set(flag_names) != set(LIMS):
            run.unresolved(H2D + "::limit-flags", fi.where(), "could not pair the four limits with their automatic flags: %s" % flag_names)
            return
        for lim, a in zip(LIMS, autos):
            env[flag_names[lim]] = a
        ev = PadEval(tree, fi, env, flag_names)
        try:
            ev.exec_block(slice_stmts)
        except (Unsupported, RaisedInModel, ReturnValue) as e:
            run.unresolved(H2D + "::padding[%s]" % auto_label, fi.where(), "cannot evaluate the limit computation: %s" % e)
            continue
        for lim, a, (lo, hi) in zip(LIMS, autos, (("mx", "Mx"), ("mx", "Mx"), ("my", "My"), ("my", "My"))):
            v = env[lim]
            base = S(lo) if lim.endswith("min") else S(hi)
            construct = "%s::final-%s[%s]" % (H2D, lim, auto_label)
            if not isinstance(v, Poly):
                run.unresolved(construct, fi.where(), "final %s is %r" % (lim, v))
                continue
            diff = v - base
            span = S(hi) - S(lo)
            # diff must be c*span with sign(c): lower: c <= 0 (auto: c<0 not required), upper: auto -> c > 0; explicit: c == 0
            c = None
            if diff.t == {}:
                c = F(0)
            else:
                co = diff.coeff_of(hi, 1)
                if co.is_const() and (diff - co * span).t == {}:
                    c = co.const_value()
            if c is None:
                run.violated(construct, fi.where(), "final %s = %r is not of the form limit + c*(max-min)" % (lim, v),
                             "the grid does not span the data / the requested range")
                continue
            if not a:
                run.ob(construct, c == 0, fi.where(), "explicit %s is changed by %s*(max-min)" % (lim, c),
                       "an explicit %s is moved: points outside the requested range are counted (or points inside dropped)" % lim)
            elif lim.endswith("max"):
                run.ob(construct, c > 0, fi.where(), "automatic upper limit = data max + %s*(max-min)" % c,
                       "the point(s) at the data maximum fall on the open upper edge and are binned nowhere")
            else:
                run.ob(construct, c <= 0, fi.where(), "automatic lower limit = data min + %s*(max-min)" % c,
                       "the point(s) at the data minimum fall below the grid")


def r6_axis_separation(run, tree):
    run.rule("C05.R6", "axis separation: x-axis kernel arguments depend only on x inputs, y-axis only on y inputs",
             "D4 dependence analysis (interprocedural)", "", floor=6)
    fi = tree.func(H2D)
    an = DepAnalysis(tree)
    an.analyse(fi)
    run.analysed(fi)
    site = None
    for cid, (node, f, args, kw) in an.call_args.items():
        callee = tree.resolve_call(f, node)
        if f.qual == fi.qual and isinstance(callee, FuncInfo) and callee.qual == KERNEL:
            site = (node, args, kw, callee)
    if site is None:
        run.unresolved(H2D + "::kernel-call", fi.where(), "call of hist2d not found")
        return
    node, args, kw, callee = site
    pn = params(callee)
    vals = dict(zip(pn, args))
    vals.update(kw)
    X_IN = {"x", "xmin", "xmax", "logx"}
    Y_IN = {"y", "ymin", "ymax", "logy"}

    def roots(v):
        return {lab.split(".")[0].split("[")[0] for lab in clean(v)}
    for name, own, other, need in (("x", X_IN, Y_IN, {"x"}), ("xmin", X_IN, Y_IN, {"x", "xmin"}), ("xmax", X_IN, Y_IN, {"x", "xmax"}),
                                   ("y", Y_IN, X_IN, {"y"}), ("ymin", Y_IN, X_IN, {"y", "ymin"}), ("ymax", Y_IN, X_IN, {"y", "ymax"})):
        if name not in vals:
            run.unresolved("%s::kernel-arg[%s]" % (H2D, name), fi.where(node), "argument not passed")
            continue
        r = roots(vals[name])
        cross = sorted(r & other)
        missing = sorted(need - r)
        run.ob("%s::kernel-arg[%s]" % (H2D, name), not cross and not missing, fi.where(node),
               "depends on %s%s%s" % (sorted(r), "; crosses to the other axis through %s" % cross if cross else "",
                                      "; does not depend on %s" % missing if missing else ""),
               "the %s passed to the kernel is influenced by the other axis' limits/flags (e.g. padded under the wrong "
               "automatic flag) or ignores its own input" % name)
    for name, need in (("nx", "resolution"), ("ny", "resolution")):
        if name in vals:
            r = roots(vals[name])
            run.ob("%s::kernel-arg[%s]" % (H2D, name), need in r, fi.where(node), "depends on %s" % sorted(r),
                   "the resolution argument is ignored", nontrivial=False)


def r7_layer_semantics(run, tree):
    run.rule("C05.R7", "layer semantics: default layer counts points; mean = sum / counts; mask = (counts == 0)", "path rule", "",
             floor=4)
    fi = tree.func(H2D)
    src_stmts = list(walk_no_nested(fi.node))
    # default layer
    default_ok = False
    for n in src_stmts:
        if isinstance(n, ast.If) and norm(n.test) in ("len(layers) == 0", "not layers"):
            body = " ".join(norm(s) for s in n.body)
            default_ok = "np.ones_like(xvals)" in body or "np.ones(" in body
    run.ob(H2D + "::default-layer", default_ok, fi.where(), "without layers the binned quantity is %s" % (
        "an array of ones (counts)" if default_ok else "not an array of ones"), "the default histogram is not the number of points per bin")
    # kernel results
    res = None
    for n in src_stmts:
        if isinstance(n, ast.Assign) and isinstance(n.value, ast.Call) and isinstance(tree.resolve_call(fi, n.value), FuncInfo) and \
                tree.resolve_call(fi, n.value).qual == KERNEL and isinstance(n.targets[0], ast.Tuple) and len(n.targets[0].elts) == 2:
            res = (n.targets[0].elts[0].id, n.targets[0].elts[1].id)
    if res is None:
        run.unresolved(H2D + "::kernel-result", fi.where(), "`binned, counts = hist2d(...)` not found")
        return
    B, C = res
    mask_ok = any(isinstance(n, ast.Assign) and norm(n.value) in ("%s == 0" % C, "%s < 1" % C, "%s <= 0" % C) for n in src_stmts)
    run.ob(H2D + "::mask", mask_ok, fi.where(), "mask = %s" % ("counts == 0" if mask_ok else "something else"),
           "bins without points are not masked (or bins with points are)")
    mean_ok = False
    for n in src_stmts:
        if isinstance(n, ast.If) and isinstance(n.test, ast.Compare) and const_value(n.test.comparators[0]) == "mean":
            for s in ast.walk(n):
                if isinstance(s, ast.AugAssign) and isinstance(s.op, ast.Div) and is_name(s.value, C) and root_name(s.target) == B:
                    mean_ok = "operations[" in norm(n.test) or "operation" in norm(n.test)
    run.ob(H2D + "::mean", mean_ok, fi.where(), "operation 'mean' %s" % ("divides the summed layer by the counts" if mean_ok else
                                                                        "is not sum/counts"), "a 'mean' layer shows the sum")
    masked = [n for n in src_stmts if isinstance(n, ast.Call) and norm(n.func).endswith("masked_where") and n.args and
              norm(n.args[0]) == "mask"]
    run.ob(H2D + "::mask-applied", bool(masked), fi.where(), "%d layers masked with the counts mask" % len(masked),
           "empty bins shown as 0", nontrivial=False)
    # the per-layer operation is the merged one
    ops_ok = any(isinstance(n, ast.Call) and isinstance(n.func, ast.Attribute) and n.func.attr == "append" and
                 norm(n.func.value) == "operations" and norm(n.args[0]).endswith(".operation") for n in src_stmts)
    run.ob(H2D + "::operation-from-merged-layer", ops_ok, fi.where(), "operations collected from the merged layers: %s" % ops_ok,
           "a layer-level operation='mean' is ignored", nontrivial=False)


RULES = [r1_no_shared_rmw, r2_kernel_index_logic, r5_limits, r6_axis_separation, r7_layer_semantics]
