"""C05 — 2-D histogram bins every point exactly once, independent of thread schedule."""
from __future__ import annotations

import ast
import math
from fractions import Fraction as F

from ..parloop import classify_writes, is_parallel, is_numba, prange_loops, FIXTURE
from ..models import explore, Undecided
from ..peval import Evaluator, Model, Unsupported, RaisedInModel
from ..source import FuncInfo, norm, SourceTree
from .common import params

EXPLANATION = "(C05.R8) drawing wrappers never modify the arrays they draw (the returned data is the drawn data): provenance analysis from each wrapper, incl. library calls with copy=False. (R1) every write inside a prange body of plot/utils.py classified: no shared read-modify-write (private histograms reduced after the loop), batch mode followed over several thread counts; (R2) kernel index logic over all orderings of a coordinate against the bin edges; (R5) histogram2d/_parse_limit/finmin/finmax interpreted over token Arrays with symbolic numpy values: explicit limits converted to the axis unit and log10'd on log axes, a missing limit is the FINITE min/max and the automatic range strictly contains the data; (R6) axis separation, default layer = ones, one kernel slot per layer, mean = slot/counts, mask = (counts == 0). Automatic limits are folded under both assumptions about NaNs in the data (an unfiltered minimum is exposed when only infinities are present); the kernel fold inlines helpers, follows per-thread accumulator views and runs both sides of a size threshold for every thread count. (R7) Vector inputs are binned by a norm that is total (rows of exact zeros give 0, not nan); flat accumulators reshaped on return are read back in (ny, nx). R2 also requires accumulators typed independently of the input (float64); R5 covers explicit limits equal to 0. The same Array object may appear in several layers (each keeps its slot and reduction); a test on a layer value inside the kernel (np.isnan) is explored both ways: the point is binned either way."
NOT_DECIDED = 'floating-point edge effects at bin boundaries; numba scheduling (covered by the write classification, not by execution)'
TRUSTED = ('CPython ast', 'numba prange semantics', 'the interpreter sa/models.py and sa/symnp.py')
TECHNIQUE = 'static analysis: parallel-loop write classification, finite ordering tables, abstract interpretation of histogram2d over symbolic numpy values'

KERNEL = "plot/utils.py::hist2d"
H2D = "plot/histogram2d.py::histogram2d"
PL = "plot/histogram2d.py::_parse_limit"

from . import hist_folds as hf


def r1_no_shared_rmw(run, tree):
    run.rule("C05.R1", "no shared read-modify-write inside a prange body", "parallel-loop write classification",
             "numba parallel semantics", floor=2)
    # positive fixture: the rule must fire on a known racy kernel
    ft = SourceTree.__new__(SourceTree)
    from ..source import ModuleInfo
    try:
        mi = ModuleInfo("fixture.py", "osyris.fixture", FIXTURE, False)
        ft.modules = {"fixture.py": mi}
        ft.by_modname = {"osyris.fixture": mi}
        ft.consulted = set()
        ft.overlay = {}
        ft._index(mi)
        ffi = mi.functions["racy"]
        kinds = [k for k, *_ in classify_writes(ft, ffi)]
        if not (is_parallel(ft, ffi) and "shared-rmw" in kinds):
            run.unresolved("fixture::racy", "", "the positive fixture is not recognised as a race: %s" % kinds)
        else:
            run.holds("fixture::racy-kernel-is-reported", "sa/parloop.py", "positive fixture classified shared-rmw",
                      nontrivial=False)
    except Exception as e:
        run.unresolved("fixture::racy", "", "fixture failed: %s" % e)
    from .common import check_memoised_results_immutable
    check_memoised_results_immutable(run, tree, ["plot/histogram2d.py::histogram2d", "plot/histogram1d.py::histogram1d"],
                                     "the second histogram2d call of the same resolution starts from the sums and counts of the first: counts are not conserved")
    fi = tree.func(KERNEL)
    run.analysed(fi)
    par = is_parallel(tree, fi)
    loops = prange_loops(tree, fi)
    if not is_numba(tree, fi):
        run.holds(KERNEL + "::not-compiled-parallel", fi.where(), "hist2d is not a numba-parallel function", nontrivial=False)
    writes = classify_writes(tree, fi) if par else []
    for kind, st, tgt, loop, guards in writes:
        if kind == "shared-rmw":
            run.violated("%s::shared-rmw::%s" % (KERNEL, norm(tgt)), fi.where(st),
                         "`%s` inside `for %s in prange(...)`: the index is data dependent, two threads can update the same "
                         "bin and one update is lost" % (norm(st), norm(loop.target)),
                         "any input where two points fall into one bin, with more than one numba thread: counts and sums "
                         "differ from run to run")
        elif kind == "shared-store":
            run.violated("%s::shared-store::%s" % (KERNEL, norm(tgt)), fi.where(st),
                         "`%s`: plain store to a shared element inside prange (last writer wins)" % norm(st),
                         "two points in one bin")
        elif kind == "unknown":
            run.unresolved("%s::write::%s" % (KERNEL, norm(tgt)), fi.where(st), "store target not understood")
    run.ob(KERNEL + "::accumulation-is-schedule-independent",
           not any(k in ("shared-rmw", "shared-store") for k, *_ in writes), fi.where(),
           "parallel=%s, %d prange loops, %d classified writes: %s" % (par, len(loops), len(writes),
                                                                       sorted({k for k, *_ in writes}) or "none (serial loop)"),
           "totals depend on the thread schedule")
    # every other numba-parallel function of the package: same classification (sweep)
    for f2 in tree.all_functions():
        if f2.qual == KERNEL or not is_parallel(tree, f2):
            continue
        for kind, st, tgt, loop, guards in classify_writes(tree, f2):
            if kind == "shared-rmw":
                run.violated("%s::shared-rmw::%s" % (f2.qual, norm(tgt)), f2.where(st), "`%s` inside prange" % norm(st),
                             "lost updates")


# ------------------------------------------------------------------------------------------ kernel folding (D7)
class Arr(Model):
    """checker-side accumulator model: records every element update together with the point being processed"""

    def __init__(self, name, shape, log, ctx):
        self.name, self.shape, self.log, self.ctx = name, tuple(shape), log, ctx
        self.reduced = 0

    def __getitem__(self, idx):
        if isinstance(idx, int) and not isinstance(idx, bool) and len(self.shape) >= 3:
            return ArrView(self, (idx,))           # the accumulator of one thread, handed to a helper
        return ("elem", self.name, idx)

    def __setitem__(self, idx, v):
        self.log.append((self, idx, ("=", v), self.ctx.get("point")))

    def reshape(self, *shape, **k):
        """a row-major view with another shape: updates recorded with flat indices are read back in the new shape"""
        if len(shape) == 1 and isinstance(shape[0], (tuple, list)):
            shape = tuple(shape[0])
        n_old = 1
        for d in self.shape:
            n_old *= d
        n_new = 1
        for d in shape:
            n_new *= d
        if n_old != n_new:
            raise Unsupported("reshape %r -> %r" % (self.shape, shape))
        r = Arr(self.name, shape, self.log, self.ctx)
        r.reduced = self.reduced
        r.base = getattr(self, "base", self)
        r.flat_from = self.shape
        return r

    def sum(self, axis=None):
        if axis == 0:
            r = Arr(self.name, self.shape[1:], self.log, self.ctx)
            r.reduced = self.reduced + 1
            r.base = getattr(self, "base", self)
            return r
        raise Unsupported("sum(axis=%r) on an accumulator" % (axis,))


class ArrView(Model):
    """arr[t]: a view of the leading (per-thread) axis; updates are recorded on the base array with the index prefixed"""

    def __init__(self, base, prefix):
        self.base, self.prefix = base, tuple(prefix)
        self.shape = base.shape[len(prefix):]

    def full(self, idx):
        return self.prefix + (tuple(idx) if isinstance(idx, tuple) else (idx,))

    def __getitem__(self, idx):
        return ("elem", self.base.name, self.full(idx))

    def __setitem__(self, idx, v):
        self.base.log.append((self.base, self.full(idx), ("=", v), self.base.ctx.get("point")))


class SizeThreshold(Model):
    """a module-level numeric constant a size is compared with (a 'use the parallel path above N points' switch): the comparison is not
    decided by the handful of sample points - the fold is run under both outcomes"""

    def __init__(self, name, value, ctx):
        self.name, self.value, self.ctx = name, value, ctx

    def _large(self):
        a = self.ctx.get("assume_large")
        if a is None:
            self.ctx["threshold_seen"] = self.name
            raise Unsupported("size threshold %s" % self.name)
        return a

    # n > T, n >= T  <=> large ; n < T, n <= T <=> not large   (python calls the reflected method on T)
    def __lt__(self, n):
        return self._large()

    def __le__(self, n):
        return self._large()

    def __gt__(self, n):
        return not self._large()

    def __ge__(self, n):
        return not self._large()


class Vec(Model):
    def __init__(self, name, data, ctx):
        self.name, self.data, self.ctx = name, data, ctx
        self.shape = (len(data),)

    def __getitem__(self, idx):
        if isinstance(idx, tuple):
            return ("col", self.name, idx[-1])
        if not isinstance(idx, int) or idx < 0 or idx >= len(self.data):
            raise Unsupported("index %r outside the input arrays" % (idx,))
        self.ctx["point"] = idx
        return self.data[idx]

    def __len__(self):
        return len(self.data)


class Vals(Model):
    def __init__(self, nlayers, n):
        self.shape = (nlayers, n)

    def __getitem__(self, idx):
        return ("col", "values", idx[-1] if isinstance(idx, tuple) else idx)


class KernelEval(Evaluator):
    def __init__(self, tree, fi, env, log, ctx, nthreads):
        super().__init__(env)
        self.tree, self.fi, self.log, self.ctx, self.nthreads = tree, fi, log, ctx, nthreads

    def ev_Name(self, node):
        if node.id in self.env:
            return self.env[node.id]
        if node.id in ("int", "float", "len", "range", "abs", "min", "max", "round"):
            return {"int": lambda v: int(v) if not isinstance(v, F) else math.trunc(v), "float": float, "len": len,
                    "range": range, "abs": abs, "min": min, "max": max, "round": round}[node.id]
        r = self.tree.resolve_name(self.fi.module, node.id)
        if isinstance(r, tuple) and r[0] == "ext":
            return self.ext(r[1], node)
        if isinstance(r, tuple) and r[0] == "value" and isinstance(r[2], ast.Constant) and isinstance(r[2].value, (int, float)) and not isinstance(r[2].value, bool):
            return SizeThreshold(node.id, r[2].value, self.ctx)
        if isinstance(r, FuncInfo):
            # a package helper called from the kernel: interpreted with the same log (numba inlines / compiles it the same way)
            helper = r

            def call_helper(*args, **kwargs):
                sub = KernelEval(self.tree, helper, {}, self.log, self.ctx, self.nthreads)
                return sub.run_function(helper.node, list(args), kwargs)
            return call_helper
        raise Unsupported("name %s" % node.id)

    def ext(self, d, node):
        if d in ("numba.prange",):
            return range
        if d in ("numba.get_num_threads", "numba.np.ufunc.parallel.get_num_threads"):
            return lambda: self.nthreads
        if d in ("numpy.floor", "math.floor"):
            return lambda v: math.floor(v)
        if d in ("numpy.ceil", "math.ceil"):
            return lambda v: math.ceil(v)
        if d in ("numpy.trunc", "math.trunc", "numpy.fix"):
            return lambda v: math.trunc(v)
        if d in ("numpy.rint", "numpy.round", "numpy.around"):
            return lambda v: round(v)
        if d in ("numpy.zeros", "numpy.empty"):
            return lambda shape=None, dtype=None, *a, **k: ("alloc", tuple(shape) if isinstance(shape, (tuple, list)) else (shape,), dtype)
        if d in ("numpy.float64", "numpy.int64", "numpy.float32", "numpy.int32"):
            return ("dtype", d)
        if d in ("numpy.isfinite",):
            return lambda v: True
        if d in ("numpy.isnan", "math.isnan"):
            # the coordinates of the sample points are finite numbers; a layer VALUE may be NaN or not (not known): explored both ways
            return lambda v: False if isinstance(v, (int, float, F)) else Undecided("isnan(a layer value of the point)", per_occurrence=False)
        if d in ("numpy.any", "numpy.all"):
            return lambda v, *a, **k: v if isinstance(v, (bool, Undecided)) else (_ for _ in ()).throw(Unsupported("%s(%r) in the kernel" % (d, v)))
        raise Unsupported("%s in the kernel" % d)

    def ev_Attribute(self, node):
        d = self.tree.dotted(self.fi.module, node)
        if d:
            return self.ext(d, node)
        return super().ev_Attribute(node)

    def attr(self, node, base):
        if isinstance(base, (Vec, Vals, Arr)) and node.attr == "shape":
            return base.shape
        if isinstance(base, (Vec, Vals)) and node.attr == "dtype":
            return ("dtype-of-input", "values" if isinstance(base, Vals) else getattr(base, "name", "coordinates"))
        if isinstance(base, Arr) and node.attr == "dtype":
            return getattr(base, "dtype", None) or ("dtype", "numpy.float64")
        return super().attr(node, base)

    def binop(self, node, op, a, b):
        if isinstance(a, tuple) or isinstance(b, tuple):
            if isinstance(op, ast.Add):
                return ("sum", a, b)
            raise Unsupported("operator on symbolic element")
        return super().binop(node, op, a, b)

    def assign(self, t, v):
        if isinstance(t, ast.Name) and isinstance(v, tuple) and v and v[0] == "alloc":
            dt = v[2] if len(v) > 2 else None
            v = Arr(t.id, v[1], self.log, self.ctx)
            v.dtype = dt
        return super().assign(t, v)

    def exec_stmt(self, st):
        if isinstance(st, ast.FunctionDef):
            # a helper defined inside the kernel (numba compiles closures that only read the enclosing variables): interpreted with the same
            # log, seeing the enclosing variables as they are when it is called
            outer = self

            def closure(*args, **kwargs):
                sub = KernelEval(outer.tree, outer.fi, dict(outer.env), outer.log, outer.ctx, outer.nthreads)
                return sub.run_function(st, list(args), kwargs)
            self.env[st.name] = closure
            return
        if isinstance(st, ast.AugAssign) and isinstance(st.target, ast.Subscript):
            base = self.ev(st.target.value)
            idx = self.ev_index(st.target.slice)
            val = self.ev(st.value)
            if isinstance(base, Arr):
                self.log.append((base, idx, ("+=", val), self.ctx.get("point")))
                return
            if isinstance(base, ArrView):
                self.log.append((base.base, base.full(idx), ("+=", val), self.ctx.get("point")))
                return
        return super().exec_stmt(st)


def fold_kernel(tree, fi, pts, xmin, xmax, nx, ymin, ymax, ny, nthreads=1, nlayers=2, assume_large=None):
    log, ctx = [], {"assume_large": assume_large}
    pn = params(fi)
    if len(pn) != 9:
        raise Unsupported("hist2d signature changed: %s" % pn)
    env = {}
    ev = KernelEval(tree, fi, env, log, ctx, nthreads)
    args = [Vec("x", [p[0] for p in pts], ctx), Vec("y", [p[1] for p in pts], ctx), Vals(nlayers, len(pts)), xmin, xmax, nx, ymin, ymax, ny]
    ret = ev.run_function(fi.node, args)
    arrays = {k: v for k, v in env.items() if isinstance(v, Arr)}
    return log, arrays, ret


def r2_kernel_index_logic(run, tree):
    run.rule("C05.R2", "kernel index logic over all orderings of a coordinate against the bin edges (floor, range test, "
             "x/y pairing, shapes, same guard for values and counts), for several thread counts", "D7 finite-case folding", "", floor=12)
    fi = tree.func(KERNEL)
    run.analysed(fi)
    xmin, xmax, nx = F(0), F(10), 10          # dx = 1
    ymin, ymax, ny = F(100), F(108), 4        # dy = 2   (asymmetric: any x/y mix-up shows)
    cases = [
        ("inside", F(35, 10), F(1033, 10), (1, 3)),
        ("just below xmin (by half a bin)", F(-1, 2), F(101), None),
        ("just below ymin (by half a bin)", F(5), F(99), None),
        ("just below both lower limits", F(-1, 100), F(9999, 100), None),
        ("on the lower edges", F(0), F(100), (0, 0)),
        ("last bin in x", F(999, 100), F(101), (0, 9)),
        ("last bin in y", F(1, 2), F(1079, 10), (3, 0)),
        ("just above xmax", F(1001, 100), F(101), None),
        ("just above ymax", F(5), F(1081, 10), None),
        ("far below", F(-50), F(50), None),
        ("far above", F(70), F(170), None),
        ("x in range for the y grid only", F(5), F(5), None),
        ("second point in an occupied bin", F(36, 10), F(1034, 10), (1, 3)),
    ]
    pts = [(c[1], c[2]) for c in cases]
    shapes_checked = False
    variants = [(n_, None) for n_ in (1, 2, 4, 5)]
    try:
        fold_kernel(tree, fi, pts, xmin, xmax, nx, ymin, ymax, ny, 2)
    except Unsupported as e:
        if str(e).startswith("size threshold"):
            # the kernel switches on the number of points: both sides of the switch, for every thread count
            variants = [(n_, big) for n_ in (1, 2, 4, 5) for big in (False, True)]
    except Exception:
        pass
    def folds():
        # a test on a layer value inside the kernel (np.isnan(values[:, i])) is explored both ways: the point must be binned in both
        for nthreads, big in variants:
            tag = ("" if nthreads == 1 else "[threads=%d]" % nthreads) + ("" if big is None else "[%s the size threshold]" % ("above" if big else "below"))
            try:
                branches = explore(lambda: fold_kernel(tree, fi, pts, xmin, xmax, nx, ymin, ymax, ny, nthreads, assume_large=big), limit=4)
            except (Unsupported, RaisedInModel, ZeroDivisionError, TypeError, IndexError) as e:
                run.unresolved("%s::fold%s" % (KERNEL, tag), fi.where(), "cannot fold the kernel over the sample points: %s: %s" % (type(e).__name__, e))
                continue
            for assume, res in branches:
                yield nthreads, big, tag + ("" if not assume else "[assuming %s]" % ", ".join("%s%s" % ("" if v else "not ", k) for k, v in sorted(assume.items()))), res
    for nthreads, big, tag, (log, arrays, ret) in folds():
        # the returned arrays: (values, counts), possibly reduced over a leading per-thread axis
        if not (isinstance(ret, tuple) and len(ret) == 2 and all(isinstance(r, Arr) for r in ret)):
            run.unresolved("%s::return%s" % (KERNEL, tag), fi.where(), "kernel does not return (values, counts) accumulators")
            continue
        rv, rc = ret
        if not shapes_checked:
            shapes_checked = True
            ok = rc.shape == (ny, nx) and rv.shape == (2, ny, nx)
            run.ob(KERNEL + "::array-shapes", ok, fi.where(), "returned accumulators have shapes %s and %s (required (layers, ny, nx) and (ny, nx))" % (rv.shape, rc.shape),
                   "a non-square resolution indexes out of bounds or transposes the histogram")
        base_c, base_v = getattr(rc, "base", rc), getattr(rv, "base", rv)
        if (nthreads, big) == variants[0]:
            # sums are accumulated in double precision whatever the layers hold: an accumulator typed after its input wraps (int8 flags,
            # int32 ids) or loses precision (float32) - the default layer (ones_like(x)) counts points in the dtype of x
            dts = {nm: getattr(getattr(a_, "base", a_), "dtype", None) for nm, a_ in (("values", rv), ("counts", rc))}
            bad = {nm: d_ for nm, d_ in dts.items() if isinstance(d_, tuple) and d_ and d_[0] == "dtype-of-input"}
            unknown = {nm: d_ for nm, d_ in dts.items() if d_ is not None and not (isinstance(d_, tuple) and d_ and d_[0] in ("dtype", "dtype-of-input"))
                       and d_ not in (float, int)}
            if unknown:
                run.unresolved(KERNEL + "::accumulator-dtype", fi.where(), "dtype of the accumulators not understood: %r" % (unknown,))
            else:
                ok_dt = not bad and dts["values"] in (None, float, ("dtype", "numpy.float64"))
                run.ob(KERNEL + "::accumulator-dtype", ok_dt, fi.where(), "accumulators allocated as %s" % {k_: (v_[1] if isinstance(v_, tuple) else v_) for k_, v_ in dts.items()},
                       "layers (or x, for the default counts layer) stored as int8/int16/float32: per-bin sums wrap around or saturate")

        def unflat(view, idx):
            """an index recorded on the flat accumulator -> the index in the returned (reshaped) array"""
            old = getattr(view, "flat_from", None)
            if old is None:
                return idx
            idx = idx if isinstance(idx, tuple) else (idx,)
            lead = idx[:-1]
            f = idx[-1]
            if not isinstance(f, int):
                return idx
            tail = view.shape[len(lead):]
            out = []
            for d in reversed(tail):
                out.append(f % d)
                f //= d
            return tuple(lead) + tuple(reversed(out))
        log = [(arr, unflat(rc if arr is base_c else rv, idx) if arr in (base_c, base_v) else idx, v, pt) for arr, idx, v, pt in log]
        for i, (label, px, py, want) in enumerate(cases):
            construct = "%s::point[%s]%s" % (KERNEL, label, tag)
            cu = [(idx, v) for arr, idx, v, pt in log if arr is base_c and pt == i]
            vu = [(idx, v) for arr, idx, v, pt in log if arr is base_v and (v == ("+=", ("col", "values", i)))]
            other = [(arr.name, idx) for arr, idx, v, pt in log if pt == i and arr is not base_c and arr is not base_v]
            problems = []
            if want is None:
                if cu or vu:
                    problems.append("out-of-range point is accumulated at %s" % [tuple(idx[-2:]) for idx, _ in cu + vu])
            else:
                if len(cu) != 1 or tuple(cu[0][0][-2:]) != want or cu[0][1] != ("+=", 1):
                    problems.append("counts updated %s (required exactly once at %s with += 1)" % (
                        [(tuple(idx[-2:]), v) for idx, v in cu] or "never", want))
                ok_v = len(vu) == 1 and tuple(vu[0][0][-2:]) == want and isinstance(vu[0][0][-3], slice)
                if not ok_v:
                    problems.append("values updated %s (required once at [:, %s, %s] with += values[:, i])" % (
                        [tuple(idx[-2:]) for idx, _ in vu] or "never", want[0], want[1]))
            if other:
                problems.append("updates to arrays that are not returned: %s" % other[:2])
            run.ob(construct, not problems, fi.where(), "; ".join(problems) or ("binned at %s" % (want,) if want else "not binned"),
                   "a point %s is %s%s" % (label, "counted in the wrong bin / not exactly once" if want else "counted although it lies outside the range",
                                           " when numba runs %d threads (totals depend on the thread count)" % nthreads if nthreads > 1 else ""))


# ------------------------------------------------------------------------------------------ indices are range-checked AS INTEGERS
_INT_CONV = {"int", "floor", "trunc", "rint", "int64", "int32", "intp", "floor_divide", "astype"}
_CLAMP = {"min", "max", "minimum", "maximum", "clip"}


def _call_name(n):
    f = n.func
    return f.attr if isinstance(f, ast.Attribute) else f.id if isinstance(f, ast.Name) else ""


def _is_int_conv(e):
    """does the expression produce its value through a float -> integer conversion (int(), np.floor, .astype(int), //)?"""
    for n in ast.walk(e):
        if isinstance(n, ast.Call) and _call_name(n) in _INT_CONV:
            return True
        if isinstance(n, ast.BinOp) and isinstance(n.op, ast.FloorDiv):
            return True
    return False


def _returns_int(tree, fi, e, depth=0):
    """e is a call of a package function whose returned value comes from a float->integer conversion (a helper such as _bin_index)"""
    if not isinstance(e, ast.Call) or depth > 3:
        return False
    try:
        g = tree.resolve_call(fi, e)
    except Exception:
        return False
    gnode = g.node if isinstance(g, FuncInfo) else None
    if gnode is None and isinstance(e.func, ast.Name):
        # a function defined inside the kernel (def helper(...) / helper = lambda ...)
        for n in ast.walk(fi.node):
            if isinstance(n, ast.FunctionDef) and n.name == e.func.id and n is not fi.node:
                gnode = n
            elif isinstance(n, ast.Assign) and isinstance(n.value, ast.Lambda) and any(isinstance(t, ast.Name) and t.id == e.func.id for t in n.targets):
                return _is_int_conv(n.value.body)
    if gnode is None:
        return False
    if not isinstance(g, FuncInfo):
        g = fi
    local = {}
    for n in ast.walk(gnode):
        if isinstance(n, ast.Assign):
            for t in n.targets:
                if isinstance(t, ast.Name):
                    local.setdefault(t.id, []).append(n.value)
    def conv(x, d=0):
        if _is_int_conv(x) or _returns_int(tree, g, x, depth + 1):
            return True
        return d < 4 and any(conv(v, d + 1) for m in ast.walk(x) if isinstance(m, ast.Name) for v in local.get(m.id, []))
    return any(isinstance(n, ast.Return) and n.value is not None and conv(n.value) for n in ast.walk(gnode))


def r_index_checked_as_integer(run, tree):
    """The kernel is compiled without bounds checking.  A bin index obtained from floating-point arithmetic is only known to be in range
    when the INTEGER is compared against the bounds (or clamped): a test on the coordinates (x < xmax) does not bound
    int((x - xmin) / dx) - the division can round up to nx for a point just below xmax - and the exact-rational fold of R2 cannot see it.
    Rule: every name used as an index of a stored accumulator element that is derived from a float->integer conversion is - itself, or a
    name on its derivation chain after the conversion, or a name derived from it - the operand of a comparison or of a clamp (min/max/clip)
    somewhere in the kernel.  (Which comparison, and against what, is the business of the fold R2.)"""
    run.rule("C05.R9", "bin indices computed from floating-point coordinates are range-checked (or clamped) as integers before an accumulator is updated",
             "def-use sweep over the kernel and the functions it calls", "numba: no bounds checks, float rounding", floor=1)
    todo, seen = [tree.func(KERNEL)], set()
    while todo:
        fi = todo.pop()
        if fi is None or fi.qual in seen:
            continue
        seen.add(fi.qual)
        run.analysed(fi)
        for n in ast.walk(fi.node):
            if isinstance(n, ast.Call):
                try:
                    g = tree.resolve_call(fi, n)
                except Exception:
                    g = None
                if g is not None and getattr(g, "qual", None) and g.qual.startswith("plot/"):
                    todo.append(g)
        defs = {}            # name -> [value expressions]
        for n in ast.walk(fi.node):
            if isinstance(n, ast.Assign):
                for t in n.targets:
                    if isinstance(t, ast.Name):
                        defs.setdefault(t.id, []).append(n.value)
                    elif isinstance(t, (ast.Tuple, ast.List)) and isinstance(n.value, (ast.Tuple, ast.List)) and len(t.elts) == len(n.value.elts):
                        for a_, b_ in zip(t.elts, n.value.elts):
                            if isinstance(a_, ast.Name):
                                defs.setdefault(a_.id, []).append(b_)
            elif isinstance(n, ast.AugAssign) and isinstance(n.target, ast.Name):
                defs.setdefault(n.target.id, []).append(n.value)
            elif isinstance(n, ast.NamedExpr):
                defs.setdefault(n.target.id, []).append(n.value)
        names_in = lambda e: {m.id for m in ast.walk(e) if isinstance(m, ast.Name)}
        int_typed = set()
        changed = True
        while changed:                 # names whose value comes from a conversion, or from integer-typed names only through arithmetic
            changed = False
            for v, exprs in defs.items():
                if v in int_typed:
                    continue
                if any(_is_int_conv(e) or (names_in(e) & int_typed and not isinstance(e, ast.Call)) or _returns_int(tree, fi, e) for e in exprs):
                    int_typed.add(v)
                    changed = True
        checked = set()
        for n in ast.walk(fi.node):
            if isinstance(n, ast.Compare):
                checked |= names_in(n)
            elif isinstance(n, ast.Call) and _call_name(n) in _CLAMP:
                checked |= names_in(n)
        for v, exprs in defs.items():          # v = min(max(i, 0), n - 1): v is clamped by construction
            if any(isinstance(e, ast.Call) and _call_name(e) in _CLAMP for e in exprs):
                checked.add(v)

        def related(v, depth=0, seen_=None):
            """v, the integer-typed names it is computed from, and the names computed from it"""
            seen_ = seen_ if seen_ is not None else set()
            if v in seen_:
                return seen_
            seen_.add(v)
            for e in defs.get(v, []):
                for u in names_in(e) & int_typed:
                    related(u, depth + 1, seen_)
            for w, exprs in defs.items():
                if any(v in names_in(e) for e in exprs) and w in int_typed:
                    related(w, depth + 1, seen_)
            return seen_
        for st in ast.walk(fi.node):
            tgt = st.target if isinstance(st, ast.AugAssign) else st.targets[0] if isinstance(st, ast.Assign) and len(st.targets) == 1 else None
            if not isinstance(tgt, ast.Subscript):
                continue
            sl = tgt.slice
            elts = sl.elts if isinstance(sl, ast.Tuple) else [sl]
            for e in elts:
                if isinstance(e, ast.Slice):
                    continue
                idx_names = names_in(e) & int_typed
                inline = _is_int_conv(e) and not idx_names
                bad = [v for v in sorted(idx_names) if not (related(v) & checked)]
                construct = "%s::index-checked-as-integer::%s[%s]" % (fi.qual, norm(tgt.value), norm(e))
                if not idx_names and not inline:
                    continue
                run.ob(construct, not bad and not inline, fi.where(st),
                       ("`%s`: index `%s` comes from a float->integer conversion and no integer on its chain is ever compared or clamped" % (norm(st), (bad or [norm(e)])[0])) if (bad or inline)
                       else "index %s: compared or clamped as an integer" % sorted(idx_names),
                       "a point one rounding step below xmax (or ymax): (x - xmin) / dx rounds up to nx, the unchecked index writes into the next row (or past the array)")


# ------------------------------------------------------------------------------------------ limits
def r5_limits(run, tree):
    run.rule("C05.R5", "limits: Quantity converted to the axis unit; explicit limits log10'd on log axes and otherwise untouched; a missing limit is "
             "the FINITE min/max of the data and the automatic range strictly contains the data", "D7 fold of histogram2d/_parse_limit/finmin/finmax "
             "with symbolic numpy values + D1 on the scalars", "pint API", floor=6)
    hf.check_hist2d(run, tree, aspects=("limits",))


def r6_r7_layers(run, tree):
    run.rule("C05.R6", "axis separation (x kernel arguments from x only, y from y only); default layer counts points; one slot per layer; "
             "mean = sum / counts; mask = (counts == 0)", "D7 fold of histogram2d", "", floor=2)
    hf.check_hist2d(run, tree, aspects=("layers",))
    hf.check_hist2d_history(run, tree)


def r_norm_corners(run, tree):
    run.rule("C05.R7", "the coordinates and layer values of Vector inputs are their norms: a point whose vector is exactly zero has the finite coordinate 0 and is binned (shared with C09.R9)", "D7 fold of Vector.norm over small concrete vectors", "", floor=4)
    from . import quantity_stack as qs
    qs.check_norm_corner_cases(run, tree)


def r_wrappers_pure(run, tree):
    from . import c19
    run.rule("C05.R8", "drawing the result does not change it: no drawing wrapper of plot/wrappers.py stores into, masks in place or otherwise mutates the arrays it is handed "
             "(they are the arrays of the returned Plot.layers)", "D3 provenance from every wrapper with (x, y, z) parameters", "", floor=6)
    c19.check_wrappers_pure(run, tree)


def r_layer_views(run, tree):
    from . import layer_folds as lf
    run.rule("C05.R9", "component views and copies of a Layer keep its options and have dictionaries of their own (shared with C19/C03/C11): histogram2d(x, y, layer, layer.x) "
             "bins the vector layer and its component separately", "D7 fold of the Layer class", "", floor=4)
    lf.check_layer_copies(run, tree)


RULES = [r_layer_views, r_wrappers_pure, r1_no_shared_rmw, r2_kernel_index_logic, r_index_checked_as_integer, r5_limits, r6_r7_layers, r_norm_corners]
