"""End-to-end fold of osyris' quantity arithmetic: core/array.py (Array, _binary_op, _wrap_numpy, to), core/base.py (numpy
protocols) and core/vector.py are ALL interpreted; only numpy's ufuncs and pint's units are models.  Raw buffers hold exact
rational values over symbols (A, B, ...), units are monomials of base units with symbolic positive scales (k_m, k_cm, ...), so the
PHYSICAL value of any result (values x scale of its unit) can be compared with the physical values of the operands."""
from __future__ import annotations

from fractions import Fraction

from ..models import ModelEval, PyObj, Marker, Raised
from ..peval import Model, Unsupported, ProgramRaised
from ..poly import Poly, Rat, Fn
from ..source import AnalysisError
from .array_folds import DT, issubdtype, can_cast, isscalar
from .core_models import ARRAY_Q, VECTOR_Q

ERR = (Unsupported, AnalysisError)
BASE_DIM = {"m": "L", "cm": "L", "km": "L", "s": "T", "g": "M", "rad": None, "deg": None, "percent": None}
DERIVED = {"Hz": {"s": -1}}          # a differently NAMED unit of exactly the size of 1/s


def rat(x):
    if isinstance(x, Rat):
        return x
    if isinstance(x, Poly):
        return Rat(x)
    if isinstance(x, bool):
        raise Unsupported("boolean in arithmetic")
    if isinstance(x, (int, float, Fraction)):
        return Rat(Poly.const(x))
    raise Unsupported("not a number: %r" % (x,))


class UU(Model):
    def truth(self):
        return True          # a pint Unit object is always truthy (no __bool__/__len__)

    kinds = ("Unit",)

    def __init__(self, mono):
        self.mono = {k: Fraction(v) for k, v in mono.items() if v}

    @staticmethod
    def parse(text):
        if isinstance(text, UU):
            return text
        if text in (None, "", "dimensionless"):
            return UU({})
        out, sign, cur = {}, 1, ""
        for ch in str(text).replace("**", "^") + "*":
            if ch in "*/":
                tok = cur.strip()
                if tok and tok != "1":
                    base, _, e = tok.partition("^")
                    if base.strip() not in BASE_DIM and base.strip() not in DERIVED:
                        raise Unsupported("unit %r is not in the model" % base)
                    out[base.strip()] = out.get(base.strip(), 0) + sign * (Fraction(e) if e else 1)
                sign = -1 if ch == "/" else 1
                cur = ""
            else:
                cur += ch
        return UU(out)

    def expanded(self):
        d = {}
        for b, e in self.mono.items():
            for bb, ee in DERIVED.get(b, {b: 1}).items():
                d[bb] = d.get(bb, 0) + e * ee
        return {k: v for k, v in d.items() if v}

    def dims(self):
        d = {}
        for b, e in self.expanded().items():
            if BASE_DIM[b] is not None:
                d[BASE_DIM[b]] = d.get(BASE_DIM[b], 0) + e
        return {k: v for k, v in d.items() if v}

    @property
    def dimensionless(self):
        return not self.dims()

    def scale(self):
        r = rat(1)
        for b, e in self.expanded().items():
            if e.denominator != 1:
                raise Unsupported("fractional power of a unit")
            k = rat(Poly.sym("k_" + b))
            r = r * (k ** int(e)) if e > 0 else r / (k ** int(-e))
        return r

    def __eq__(self, o):
        return isinstance(o, UU) and o.mono == self.mono

    def __ne__(self, o):
        return not self.__eq__(o)

    def __hash__(self):
        return hash(tuple(sorted(self.mono.items())))

    def __mul__(self, o):
        if isinstance(o, UU):
            d = dict(self.mono)
            for k, v in o.mono.items():
                d[k] = d.get(k, 0) + v
            return UU(d)
        return QQ(o, self)

    def __rmul__(self, k):
        return QQ(k, self)

    def __truediv__(self, o):
        if isinstance(o, UU):
            d = dict(self.mono)
            for k, v in o.mono.items():
                d[k] = d.get(k, 0) - v
            return UU(d)
        raise Unsupported("unit / %r" % (o,))

    def __pow__(self, e):
        return UU({k: v * Fraction(e) for k, v in self.mono.items()})

    def is_compatible_with(self, other, *a, **k):
        o = other.units if isinstance(other, QQ) else UU.parse(other)
        return o.dims() == self.dims()

    def __repr__(self):
        return "UU(%s)" % ("*".join("%s^%s" % kv for kv in sorted(self.mono.items())) or "1")


class QQ(Model):
    kinds = ("Quantity",)

    def __init__(self, mag, units):
        self.magnitude, self.units = mag, units
        self.m, self.u = mag, units

    def to(self, unit):
        u = UU.parse(unit)
        if u.dims() != self.units.dims():
            raise Raised("DimensionalityError", None, "cannot convert %r to %r" % (self.units, u))
        f = self.units.scale() / u.scale()
        mag = self.magnitude
        return QQ(mag * f if isinstance(mag, RawV) else rat(mag) * f, u)

    def m_as(self, unit):
        return self.to(unit).magnitude

    def __truediv__(self, o):
        if isinstance(o, QQ):
            return QQ(_div(self.magnitude, o.magnitude), self.units / o.units)
        return QQ(_div(self.magnitude, o), self.units)

    def __mul__(self, o):
        if isinstance(o, QQ):
            return QQ(_mul(self.magnitude, o.magnitude), self.units * o.units)
        return QQ(_mul(self.magnitude, o), self.units)

    __rmul__ = __mul__


def _mul(a, b):
    if isinstance(a, RawV) or isinstance(b, RawV):
        return (a if isinstance(a, RawV) else b) * (b if isinstance(a, RawV) else a)
    return rat(a) * rat(b)


def _div(a, b):
    if isinstance(a, RawV):
        return a / b
    if isinstance(b, RawV):
        return RawV(rat(a) / b.r)
    return rat(a) / rat(b)


def bshape(*shapes):
    """numpy broadcasting of shapes; ValueError (as numpy) when they do not broadcast"""
    n = max((len(s_) for s_ in shapes), default=0)
    out = []
    for i in range(n):
        dims = {s_[len(s_) - n + i] for s_ in shapes if len(s_) - n + i >= 0} - {1}
        if len(dims) > 1:
            raise Raised("ValueError", None, "operands could not be broadcast together with shapes %s" % " ".join(map(str, shapes)))
        out.append(dims.pop() if dims else 1)
    return tuple(out)


def _shape_of(o):
    return tuple(o.shape) if isinstance(o, RawV) else ()


class RawV(Model):
    """ndarray / number: an exact rational value (element-wise semantics), a dtype, and an identity (the buffer)"""
    kinds = ("ndarray",)

    def __init__(self, r, dtype="float64", shape=(3,), contiguous=True):
        self.r = rat(r) if not isinstance(r, tuple) else r
        self.dtype = DT(dtype) if isinstance(dtype, str) else dtype
        self.shape = shape
        self.contiguous = contiguous       # False: a strided view (a[::2], x[:, 0]) - numpy.require / ascontiguousarray COPY it

    @property
    def flags(self):
        from .core_models import NdFlags
        return NdFlags(self)

    @property
    def size(self):
        n = 1
        for d in self.shape:
            if not isinstance(d, int):
                raise Unsupported("size of an array of shape %r" % (self.shape,))
            n *= d
        return n

    @property
    def ndim(self):
        return len(self.shape)

    def item(self, *a):
        """ndarray.item(): the ONE element as a python scalar - the shape is gone"""
        if a:
            raise Unsupported("ndarray.item%r" % (a,))
        if self.size != 1:
            raise Raised("ValueError", None, "can only convert an array of size 1 to a Python scalar")
        return RawV(self.r, self.dtype, ())

    def _v(self, o):
        if isinstance(o, RawV):
            return o.r
        return rat(o.r if hasattr(o, "r") and isinstance(getattr(o, "r"), Rat) else o)

    def __mul__(self, o):
        return RawV(self.r * self._v(o), "float64", bshape(self.shape, _shape_of(o)))

    __rmul__ = __mul__

    def __truediv__(self, o):
        return RawV(self.r / self._v(o), "float64", bshape(self.shape, _shape_of(o)))

    def __add__(self, o):
        return RawV(self.r + self._v(o), "float64", bshape(self.shape, _shape_of(o)))

    def __sub__(self, o):
        return RawV(self.r - self._v(o), "float64", bshape(self.shape, _shape_of(o)))

    def __neg__(self):
        return RawV(-self.r, self.dtype, self.shape)

    # numpy arrays are updated in place by op=
    def __imul__(self, o):
        if bshape(self.shape, _shape_of(o)) != tuple(self.shape):
            raise Raised("ValueError", None, "non-broadcastable output operand with shape %s doesn't match the broadcast shape %s" % (self.shape, bshape(self.shape, _shape_of(o))))
        self.r = self.r * self._v(o)
        return self

    def __itruediv__(self, o):
        if bshape(self.shape, _shape_of(o)) != tuple(self.shape):
            raise Raised("ValueError", None, "non-broadcastable output operand with shape %s doesn't match the broadcast shape %s" % (self.shape, bshape(self.shape, _shape_of(o))))
        self.r = self.r / self._v(o)
        return self

    def __iadd__(self, o):
        if bshape(self.shape, _shape_of(o)) != tuple(self.shape):
            raise Raised("ValueError", None, "non-broadcastable output operand with shape %s doesn't match the broadcast shape %s" % (self.shape, bshape(self.shape, _shape_of(o))))
        self.r = self.r + self._v(o)
        return self

    def __isub__(self, o):
        if bshape(self.shape, _shape_of(o)) != tuple(self.shape):
            raise Raised("ValueError", None, "non-broadcastable output operand with shape %s doesn't match the broadcast shape %s" % (self.shape, bshape(self.shape, _shape_of(o))))
        self.r = self.r - self._v(o)
        return self

    def __getitem__(self, idx):
        if idx == () and not self.shape:
            return self
        if isinstance(idx, int) and not isinstance(idx, bool) and self.shape:
            if not -self.shape[0] <= idx < self.shape[0]:
                raise Raised("IndexError", None, "index out of bounds")
            if isinstance(self.r, tuple):
                raise Unsupported("element of %r" % (self.r,))
            return RawV(self.r.subs({s: Poly.sym("%s[%d]" % (s, idx)) for s in (self.r.n.symbols() | self.r.d.symbols()) if isinstance(s, str) and not s.startswith("k_")}), self.dtype, self.shape[1:])
        raise Unsupported("indexing %r in the quantity stack" % (idx,))

    def __len__(self):
        if not self.shape:
            raise TypeError("len() of unsized object")
        return self.shape[0]

    @property
    def ndim(self):
        return len(self.shape)

    def copy(self):
        return RawV(self.r, self.dtype, self.shape)

    def astype(self, t, *a, **k):
        tn = t.name if isinstance(t, DT) else getattr(t, "__name__", None) or str(t)
        tn = {"float": "float64", "int": "int64"}.get(tn, tn)
        if tn == self.dtype.name and k.get("copy") is False:
            return self                     # numpy: nothing to change, no copy
        if tn in ("float64", self.dtype.name) and not isinstance(self.r, tuple):
            return RawV(self.r, tn, self.shape)          # an exact cast: the same numbers in a NEW buffer
        return RawV(("cast", self.r, repr(t)), t if isinstance(t, DT) else "float64", self.shape)


NUMERIC = {"add": lambda a, b: a + b, "subtract": lambda a, b: a - b, "multiply": lambda a, b: a * b, "divide": lambda a, b: a / b,
           "true_divide": lambda a, b: a / b, "negative": lambda a: -a, "positive": lambda a: a}
PRED = {"less": "lt", "less_equal": "le", "greater": "gt", "greater_equal": "ge", "equal": "eq", "not_equal": "ne"}
UNIT_RULE = {"multiply": lambda a, b: a * b, "divide": lambda a, b: a / b, "true_divide": lambda a, b: a / b, "reciprocal": lambda a: UU({}) / a,
             "square": lambda a: a ** 2, "sqrt": lambda a: a ** Fraction(1, 2)}


def _is_int(x):
    if isinstance(x, RawV):
        return getattr(x.dtype, "kind", None) in ("i", "u")
    return isinstance(x, int) and not isinstance(x, bool)


class UFunc(Model):
    """a numpy ufunc: dispatches to Array.__array_ufunc__ when an osyris object is among its operands (as numpy does), otherwise
    computes on raw values / derives the unit of unit quantities"""

    def __init__(self, name, tree, hk):
        self.__name__, self.tree, self.hk = name, tree, hk
        self.calls = []
        self.reduce, self.accumulate, self.outer, self.at = (UMethod(self, m) for m in ("reduce", "accumulate", "outer", "at"))

    def __call__(self, *args, **kwargs):
        if kwargs.get("out") is not None and not isinstance(kwargs["out"], tuple):
            kwargs = dict(kwargs, out=(kwargs["out"],))         # numpy hands __array_ufunc__ a tuple whatever the caller wrote
        objs = [a for a in list(args) + list(kwargs.get("out") or ()) if isinstance(a, PyObj)]
        if objs:
            for o in objs:
                m = self.tree.method(o._cls, "__array_ufunc__")
                if m is None:
                    continue
                r = ModelEval(self.tree, m, {}, self.hk).invoke(m, [o, self, "__call__"] + list(args), kwargs, None)
                if not (isinstance(r, Marker) and r.kind == "builtin" and r.data and r.data[0] == "NotImplemented"):
                    return r
            raise Raised("TypeError", None, "operand type(s) do not implement __array_ufunc__")
        name = self.__name__
        self.calls.append((args, kwargs))
        if any(isinstance(a, QQ) for a in args):
            us = [a.units if isinstance(a, QQ) else a for a in args]
            if name == "power":
                e = us[1]
                if isinstance(e, RawV):
                    e = e.r.as_poly().const_value() if e.r.as_poly().is_const() else None
                if not isinstance(e, (int, float, Fraction)):
                    raise Unsupported("unit ** %r" % (us[1],))
                return QQ(1.0, us[0] ** e)
            if name in UNIT_RULE:
                return QQ(1.0, UNIT_RULE[name](*[u if isinstance(u, UU) else UU({}) for u in us]))
            raise Unsupported("np.%s applied to unit quantities" % name)
        vals = []
        for a in args:
            if isinstance(a, RawV):
                vals.append(a.r)
            else:
                vals.append(rat(a))
        import inspect
        if name in NUMERIC and len(vals) != len(inspect.signature(NUMERIC[name]).parameters):
            raise Raised("TypeError", None, "np.%s() takes %d positional arguments, %d given" % (name, len(inspect.signature(NUMERIC[name]).parameters), len(vals)))
        if name in PRED and len(vals) != 2:
            raise Raised("TypeError", None, "np.%s() takes 2 positional arguments" % name)
        if name in NUMERIC:
            res = NUMERIC[name](*vals)
            dtype = "float64"
        elif name == "power":
            e = vals[1].as_poly()
            if not (e.is_const() and float(e.const_value()).is_integer()):
                raise Unsupported("power with a non-integer exponent")
            if _is_int(args[0]) and _is_int(args[1]) and int(e.const_value()) < 0:
                raise Raised("ValueError", None, "Integers to negative integer powers are not allowed.")
            res = vals[0] ** int(e.const_value())
            dtype = "float64"
        elif name == "reciprocal":
            if _is_int(args[0]):
                res = ("integer-division 1 // x", vals[0])          # numpy: reciprocal of an integer array is integer division
            else:
                res = rat(1) / vals[0]
            dtype = "float64"
        elif name == "square":
            res = vals[0] * vals[0]
            dtype = "float64"
        elif name in PRED:
            res = (PRED[name], vals[0] - vals[1])
            dtype = "bool"
        elif name == "logical_not" and len(args) == 1 and isinstance(args[0], RawV) and isinstance(args[0].r, tuple) and args[0].r[0] in PRED.values():
            flip = {"lt": "ge", "ge": "lt", "gt": "le", "le": "gt", "eq": "ne", "ne": "eq"}
            res = (flip[args[0].r[0]], args[0].r[1])          # element-wise negation of a comparison (NaN aside)
            dtype = "bool"
        elif name in ("abs", "absolute", "fabs") and len(vals) == 1:
            res = rat(Poly.sym(Fn("abs", repr(vals[0]))))       # |x|: another value than x (x may be negative)
            dtype = "float64"
        else:
            raise Unsupported("np.%s is not in the model" % name)
        rshape = bshape(*[_shape_of(a) for a in args])
        out = kwargs.get("out")
        if name in NUMERIC and dtype == "float64" and name not in ("divide", "true_divide") and all(_is_int(a) for a in args):
            dtype = "int64"            # integers stay integers under + - * and negation
        if out:
            if len(out) != 1 or not isinstance(out[0], RawV):
                raise Raised("TypeError", None, "'out' must be a tuple of arrays")
            if dtype == "float64" and out[0].dtype.kind in ("i", "u"):
                raise Raised("UFuncTypeError", None, "Cannot cast ufunc '%s' output from dtype('float64') to dtype('%s') with casting rule 'same_kind'" % (name, out[0].dtype.name))
            if bshape(rshape, tuple(out[0].shape)) != tuple(out[0].shape):
                raise Raised("ValueError", None, "non-broadcastable output operand with shape %s doesn't match the broadcast shape %s" % (out[0].shape, rshape))
            out[0].r = res          # numpy writes into the buffer it is given (which keeps its own dtype)
            if dtype == "bool" or out[0].dtype.kind not in ("f", "i", "u"):
                out[0].dtype = DT(dtype)
            return out[0]
        return RawV(res, dtype, rshape)


def OUTER(x, y):
    """the outer product of two symbolic 1-d buffers, as a symbol that is bilinear in constant factors: outer(c*A, d*B) = c*d*outer(A, B)"""
    def split(r):
        syms = sorted((s_ for s_ in (r.n.symbols() | r.d.symbols()) if isinstance(s_, str) and not s_.startswith("k_")), key=str)
        if len(syms) != 1:
            raise Unsupported("outer product of %r" % (r,))
        coeff = r / rat(Poly.sym(syms[0]))
        if any(isinstance(s_, str) and not s_.startswith("k_") for s_ in (coeff.n.symbols() | coeff.d.symbols())):
            raise Unsupported("outer product of %r" % (r,))
        return syms[0], coeff
    (a, ca), (b, cb) = split(x), split(y)
    return rat(Poly.sym(Fn("outer", a, b))) * ca * cb


class UMethod(Model):
    """np.<ufunc>.reduce / .accumulate: numpy offers them to __array_ufunc__ with method="reduce"/"accumulate"; an object that answers
    NotImplemented makes numpy raise TypeError (the operation is refused)"""

    def __init__(self, uf, method):
        self.uf, self.method, self.__name__ = uf, method, method

    def __call__(self, *args, **kwargs):
        objs = [a for a in args if isinstance(a, PyObj)]
        uf = self.uf
        if objs:
            for o in objs:
                m = uf.tree.method(o._cls, "__array_ufunc__")
                r = ModelEval(uf.tree, m, {}, uf.hk).invoke(m, [o, uf, self.method] + list(args), kwargs, None)
                if not (isinstance(r, Marker) and r.kind == "builtin" and r.data and r.data[0] == "NotImplemented"):
                    return r
            raise Raised("TypeError", None, "operand does not support ufunc method %s" % self.method)
        a = args[0]
        if not isinstance(a, RawV) or isinstance(a.r, tuple) or not a.shape:
            raise Unsupported("np.%s.%s of %r" % (uf.__name__, self.method, a))
        if self.method == "reduce" and uf.__name__ in ("add", "multiply"):
            acc = a[0].r
            for i in range(1, a.shape[0]):
                acc = acc + a[i].r if uf.__name__ == "add" else acc * a[i].r
            return RawV(acc, "float64", a.shape[1:])
        if self.method == "outer" and uf.__name__ == "multiply" and len(args) == 2 and isinstance(args[1], RawV) and not isinstance(args[1].r, tuple):
            return RawV(OUTER(a.r, args[1].r), "float64", a.shape + args[1].shape)
        raise Unsupported("np.%s.%s is not in the model" % (uf.__name__, self.method))


class AFunc(Model):
    """a numpy array function (dispatched through __array_function__ with the caller's own args/kwargs, `out=` NOT normalised)"""

    def __init__(self, name, tree, hk):
        self.__name__, self.tree, self.hk = name, tree, hk

    def __call__(self, *args, **kwargs):
        cands = list(args) + ([kwargs["out"]] if "out" in kwargs else [])
        objs = [a for a in cands if isinstance(a, PyObj)]
        if objs:
            o = objs[0]
            m = self.tree.method(o._cls, "__array_function__")
            return ModelEval(self.tree, m, {}, self.hk).invoke(m, [o, self, (o._cls,), tuple(args), dict(kwargs)], {}, None)
        a = args[0]
        if not isinstance(a, RawV) or isinstance(a.r, tuple):
            raise Unsupported("np.%s of %r" % (self.__name__, a))
        extra = set(kwargs) - {"out"}
        if extra:
            raise Unsupported("np.%s(%s=)" % (self.__name__, sorted(extra)[0]))
        syms = {s_: Poly.sym(Fn(self.__name__, s_)) for s_ in (a.r.n.symbols() | a.r.d.symbols()) if isinstance(s_, str) and not s_.startswith("k_")}
        res = a.r.subs(syms)        # cumsum/sum are linear: f(c*A) = c*f(A)
        shape = a.shape if self.__name__ == "cumsum" else a.shape[1:]
        if "out" in kwargs:
            out = kwargs["out"]
            if not isinstance(out, RawV):
                raise Raised("TypeError", None, "output must be an array")
            out.r, out.dtype = res, DT("float64")
            return out
        return RawV(res, "float64", shape)


def stack_hooks(tree):
    hk = {"ext": {}, "globals": {}, "class": {}, "pkgfunc": {}}
    for name in list(NUMERIC) + list(PRED) + ["power", "reciprocal", "sqrt", "square", "logical_not", "logical_and", "abs", "absolute", "fabs"]:
        hk["ext"]["numpy." + name] = UFunc(name, tree, hk)
    for name in ("cumsum", "sum"):
        hk["ext"]["numpy." + name] = AFunc(name, tree, hk)
    hk["ext"]["numpy.issubdtype"] = issubdtype
    hk["ext"]["numpy.can_cast"] = can_cast
    hk["ext"]["numpy.isscalar"] = isscalar

    def _const(value):
        def make(shape, dtype=None, **k):
            dn = getattr(dtype, "__name__", None) or (dtype.data[0] if isinstance(dtype, Marker) and dtype.data else None) or str(dtype)
            return RawV(rat(value), "bool" if "bool" in str(dn) else ("int64" if "int" in str(dn) else "float64"), tuple(shape) if isinstance(shape, (tuple, list)) else (shape,))
        return make
    hk["ext"]["numpy.ones"], hk["ext"]["numpy.zeros"] = _const(1), _const(0)
    _contig = lambda x, *a, **k: x if not isinstance(x, RawV) or x.contiguous else RawV(x.r, x.dtype, x.shape)
    hk["ext"]["numpy.require"] = hk["ext"]["numpy.ascontiguousarray"] = _contig
    hk["ext"]["numpy.asarray"] = lambda v, *a, **k: v if isinstance(v, RawV) else RawV(rat(v), "float64" if isinstance(v, float) else "int64", ())
    units = lambda arg: UU.parse(arg) if not isinstance(arg, QQ) else (_ for _ in ()).throw(Raised("TypeError", None, "Cannot create unit from a Quantity"))
    for k in ("units/units.py::units", "__init__.py::units", "units/__init__.py::units"):
        hk["globals"][k] = units
    return hk


def arr(tree, hk, sym, unit, dtype="float64", shape=(3,), contiguous=True):
    ci = tree.cls(ARRAY_Q)
    ev = ModelEval(tree, tree.method(ci, "__init__"), {}, hk)
    return ev.instantiate(ci, [], {"values": RawV(Poly.sym(sym), dtype, shape, contiguous) if isinstance(sym, str) else sym, "unit": unit}, None)


def vec(tree, hk, tag, unit, n=3, dtypes=None, shape=(3,)):
    vi = tree.cls(VECTOR_Q)
    if dtypes:
        # built from raw buffers and a unit (the loader's way): every component wraps the buffer it is given, whatever its dtype
        raw = {c: RawV(Poly.sym(tag + c), dtypes.get(c, "float64")) for c in "xyz"[:n]}
        return ModelEval(tree, tree.method(vi, "__init__"), {}, hk).instantiate(vi, [], dict(raw, unit=unit), None)
    comps = {c: arr(tree, hk, tag + c, unit, dtype=(dtypes or {}).get(c, "float64"), shape=shape) for c in "xyz"[:n]}
    return ModelEval(tree, tree.method(vi, "__init__"), {}, hk).instantiate(vi, [], dict(comps), None)


def comps_of(tree, hk, v):
    m = tree.method(v._cls, "__init__")
    return ModelEval(tree, m, {}, hk).obj_getattr(v, "_xyz")


def check_inplace_stack(run, tree):
    """x op= y end to end (C17): Arrays of every rank including 0-d and empty ones stay the same object with the same buffer; a Vector's
    components are updated in their own buffers; the right operand (Array, Vector, array-valued Quantity in another unit) denotes the same
    quantity afterwards, so that a second x op= y adds the same amount"""
    fi = tree.func("core/array.py::_binary_op")
    vfi = tree.func("core/vector.py::_binary_op")
    run.analysed(fi)
    run.analysed(vfi)
    A, B = rat(Poly.sym("A")), rat(Poly.sym("B"))
    km, kcm, ks = (rat(Poly.sym("k_" + x)) for x in ("m", "cm", "s"))
    OPS = (("+=", "__iadd__", "cm", lambda pa, pb: pa + pb), ("-=", "__isub__", "cm", lambda pa, pb: pa - pb), ("*=", "__imul__", "s", lambda pa, pb: pa * pb), ("/=", "__itruediv__", "s", lambda pa, pb: pa / pb))
    for shape, sl in (((3,), "1-d"), ((), "0-d (scalar)"), ((0,), "empty"), ((2, 3), "2-d"), ((3,), "a strided view (x[::2])"), ((3,), "float32 data (b is float64)")):
        for sym, dunder, ub, want in OPS:
            construct = "core/array.py::Array[a [m] %s b [%s]; a is %s]" % (sym, ub, sl)
            try:
                hk = stack_hooks(tree)
                a, b = arr(tree, hk, "A", "m", shape=shape, contiguous="strided" not in sl, dtype="float32" if "float32" in sl else "float64"), arr(tree, hk, "B", ub, shape=shape)
                buf, pa, pb = a._attrs["_array"], phys(a), phys(b)
                try:
                    r = binop(tree, hk, a, dunder, b)
                    ok = r is a and a._attrs["_array"] is buf and phys(a) == want(pa, pb) and phys(b) == pb
                    detail = "returns %s; buffer %s; a denotes %r; b %s" % ("a" if r is a else "another object", "updated in place" if a._attrs["_array"] is buf else "replaced",
                                                                            phys(a), "untouched" if phys(b) == pb else "changed to %r" % (phys(b),))
                except (Raised, ProgramRaised) as e:
                    ok, detail = False, "raises %s" % e
                run.ob(construct, ok, fi.where(), detail, "x op= y rebinds x to a new object for some shapes (scalar or empty Arrays), so other references (the same Array in two Datagroups) "
                       "do not see the update; or gives another value than x op y; or changes y")
            except ERR as e:
                run.unresolved(construct, fi.where(), "cannot fold: %s" % e)
    # Vector on the left
    for sym, dunder, ub, want in OPS:
        for rk in ("Vector", "Array", "array-valued Quantity", "scalar Quantity", "Array; v has components of different dtypes (float64, float32, float64)"):
            construct = "core/vector.py::Vector[v [m] %s %s [%s], twice]" % (sym, rk, ub)
            try:
                hk = stack_hooks(tree)
                v = vec(tree, hk, "V", "m", dtypes={"y": "float32"} if "dtypes" in rk else None)
                rk = rk.split(";")[0]
                cs = comps_of(tree, hk, v)
                bufs = {c: cs[c]._attrs["_array"] for c in cs}
                p0 = {c: phys(cs[c]) for c in cs}
                if rk == "Vector":
                    y = vec(tree, hk, "W", ub)
                    py = lambda: {c: phys(a_) for c, a_ in comps_of(tree, hk, y).items()}
                elif rk == "Array":
                    y = arr(tree, hk, "B", ub)
                    py = lambda: {c: phys(y) for c in cs}
                else:
                    mag = RawV(Poly.sym("Q")) if rk.startswith("array") else 2.5
                    y = QQ(mag, UU.parse(ub))
                    py = lambda: {c: (y.magnitude.r if isinstance(y.magnitude, RawV) else rat(y.magnitude)) * y.units.scale() for c in cs}
                y0 = py()
                problems = []
                try:
                    cur = dict(p0)
                    for rep in (1, 2):
                        r = binop(tree, hk, v, dunder, y)
                        cur = {c: want(cur[c], y0[c]) for c in cur}
                        for who, ref in (("the result", r), ("the original reference", v)):
                            cs2 = comps_of(tree, hk, ref)
                            got = {c: phys(cs2[c]) for c in cs2}
                            if any(cs2[c]._attrs["_array"] is not bufs[c] for c in cs2):
                                problems.append("application %d: a component buffer of %s was replaced" % (rep, who))
                            if not all(got[c] == cur[c] for c in cur):
                                problems.append("application %d: %s denotes %r (required %r)" % (rep, who, got, cur))
                        v = r
                        if not all(py()[c] == y0[c] for c in y0):
                            problems.append("application %d: the right operand now denotes %r (was %r)" % (rep, py(), y0))
                        if problems:
                            break
                except (Raised, ProgramRaised) as e:
                    problems.append("raises %s" % e)
                run.ob(construct, not problems, vfi.where(), "; ".join(problems[:2]) or "v updated in its own buffers to v op y, twice; y denotes the same quantity throughout",
                       "v op= q rescales the caller's Quantity/Array in place (its buffer is shared with the wrapper built for the conversion), so the second v op= q adds another amount")
            except ERR as e:
                run.unresolved(construct, vfi.where(), "cannot fold: %s" % e)


def check_inplace_mixed_stack(run, tree):
    """Array on the left, Vector on the right: `a op= v` cannot update a in place (the result has components); the data model then binds
    a to a op v, which Vector.__rop__ computes - the name must end up holding the Vector, not the unchanged Array"""
    import ast as _ast
    fi = tree.func("core/array.py::_binary_op")
    vfi = tree.func("core/vector.py::_binary_op")
    OPS = (("+=", _ast.Add, "cm", lambda pa, pb: pa + pb), ("-=", _ast.Sub, "cm", lambda pa, pb: pa - pb), ("*=", _ast.Mult, "s", lambda pa, pb: pa * pb), ("/=", _ast.Div, "s", lambda pa, pb: pa / pb))
    for sym, op, ub, want in OPS:
        construct = "core/array.py::Array[a [m] %s v (Vector [%s])]" % (sym, ub)
        try:
            hk = stack_hooks(tree)
            a, v = arr(tree, hk, "A", "m"), vec(tree, hk, "V", ub)
            pa = phys(a)
            pv = {c: phys(x) for c, x in comps_of(tree, hk, v).items()}
            ev = ModelEval(tree, fi, {}, hk)
            try:
                r = ev.aug_op(None, op(), a, v)
                if isinstance(r, PyObj) and r._cls.qual == VECTOR_Q:
                    got = {c: phys(x) for c, x in comps_of(tree, hk, r).items()}
                    ok = all(got[c] == want(pa, pv[c]) for c in pv) and phys(a) == pa
                    detail = "a is bound to a Vector denoting %r (required %r)" % (got, {c: want(pa, pv[c]) for c in pv})
                else:
                    ok, detail = False, "a is bound to %s (required the Vector a %s v)" % ("the unchanged Array" if r is a else repr(r), sym[0])
            except (Raised, ProgramRaised) as e:
                ok, detail = False, "raises %s" % e
            run.ob(construct, ok, fi.where(), detail, "a %s v with a Vector on the right silently leaves a unchanged (the in-place method swallows NotImplemented)" % sym)
        except ERR as e:
            run.unresolved(construct, fi.where(), "cannot fold: %s" % e)


def phys(a):
    """physical value of an Array: values x scale of its unit"""
    v, u = a._attrs.get("_array"), a._attrs.get("_unit")
    if not (isinstance(v, RawV) and isinstance(u, UU)) or isinstance(v.r, tuple):
        raise Unsupported("not a numeric Array: %r / %r" % (v, u))
    return v.r * u.scale()


def binop(tree, hk, a, dunder, b):
    m = tree.method(a._cls, dunder)
    if m is None:
        raise Raised("TypeError", None, "%s not defined" % dunder)
    return ModelEval(tree, m, {}, hk).invoke(m, [a, b], {}, None)


def check_array_stack(run, tree, only=None):
    fi = tree.func("core/array.py::_binary_op")
    run.analysed(fi)
    run.analysed(tree.method(tree.cls(ARRAY_Q), "_wrap_numpy"))
    run.analysed(tree.method(tree.cls(ARRAY_Q), "to"))
    A, B = rat(Poly.sym("A")), rat(Poly.sym("B"))
    km, kcm, ks = (rat(Poly.sym("k_" + x)) for x in ("m", "cm", "s"))
    cases = [
        ("a [m] + b [cm]", "__add__", "cm", lambda: A * km + B * kcm, {"L": 1}, UU.parse("m")),
        ("a [m] - b [cm]", "__sub__", "cm", lambda: A * km - B * kcm, {"L": 1}, UU.parse("m")),
        ("a [m] * b [cm]", "__mul__", "cm", lambda: A * km * B * kcm, {"L": 2}, None),
        ("a [m] / b [cm]", "__truediv__", "cm", lambda: (A * km) / (B * kcm), {}, None),
        ("a [m] * b [s]", "__mul__", "s", lambda: A * km * B * ks, {"L": 1, "T": 1}, None),
        ("a [m] / b [s]", "__truediv__", "s", lambda: (A * km) / (B * ks), {"L": 1, "T": -1}, None),
        ("a [m] + b [s]", "__add__", "s", "raises DimensionalityError", None, None),
        ("a [m] - b [s]", "__sub__", "s", "raises DimensionalityError", None, None),
    ]
    if only == ("compare",):
        cases = []
    for label, dunder, ub, want, wdim, wunit in cases:
        construct = "core/array.py::Array[%s]" % label
        try:
            hk = stack_hooks(tree)
            a, b = arr(tree, hk, "A", "m"), arr(tree, hk, "B", ub)
            pa, pb = phys(a), phys(b)
            try:
                r = binop(tree, hk, a, dunder, b)
                got = phys(r) if isinstance(r, PyObj) else None
            except (Raised, ProgramRaised) as e:
                r, got = None, "raises " + getattr(e, "name", str(e))
            problems = []
            if isinstance(want, str):
                if got != want:
                    problems.append("%s (required %s)" % (got if isinstance(got, str) else "returns a value", want))
            else:
                if isinstance(got, str) or got is None:
                    problems.append(str(got))
                else:
                    if not (got == want()):
                        problems.append("physical value %r, required %r" % (got, want()))
                    u = r._attrs.get("_unit")
                    if u.dims() != wdim:
                        problems.append("unit %r has dimension %r (required %r)" % (u, u.dims(), wdim))
                    if wunit is not None and u != wunit:
                        problems.append("unit %r (required the unit of the left operand)" % (u,))
            if not (phys(a) == pa and phys(b) == pb):
                problems.append("an operand was modified")
            run.ob(construct, not problems, fi.where(), "; ".join(problems) or "result denotes the same physical quantity as the operation on the operands' quantities",
                   "%s: numbers in different units are combined, the unit does not follow, or incompatible dimensions are accepted" % label)
        except ERR as e:
            run.unresolved(construct, fi.where(), "cannot fold: %s" % e)
    # scalars, negation, integer power, comparisons, in-place
    extra = [
        ("2 * a", lambda t, h, a: binop(t, h, a, "__rmul__", 2.0), lambda pa: pa * 2),
        ("a * 2", lambda t, h, a: binop(t, h, a, "__mul__", 2.0), lambda pa: pa * 2),
        ("a / 2", lambda t, h, a: binop(t, h, a, "__truediv__", 2.0), lambda pa: pa / 2),
        ("-a", lambda t, h, a: ModelEval(t, t.method(a._cls, "__neg__"), {}, h).invoke(t.method(a._cls, "__neg__"), [a], {}, None), lambda pa: -pa),
        ("a ** 2", lambda t, h, a: binop(t, h, a, "__pow__", 2), lambda pa: pa * pa),
        ("2 / a", lambda t, h, a: binop(t, h, a, "__rtruediv__", 2.0), lambda pa: rat(2) / pa),
        ("a ** 3", lambda t, h, a: binop(t, h, a, "__pow__", 3), lambda pa: pa * pa * pa),
        ("a ** -1", lambda t, h, a: binop(t, h, a, "__pow__", -1), lambda pa: rat(1) / pa),
        ("a ** -1.0", lambda t, h, a: binop(t, h, a, "__pow__", -1.0), lambda pa: rat(1) / pa),
        ("a ** 1", lambda t, h, a: binop(t, h, a, "__pow__", 1), lambda pa: pa),
        ("a ** 2.0", lambda t, h, a: binop(t, h, a, "__pow__", 2.0), lambda pa: pa * pa),
        # integer data: numpy refuses integer ** negative integer, and computes integer ** -1.0 in floating point
        ("a ** -1, int64 data", lambda t, h, a: binop(t, h, a, "__pow__", -1), "raises ValueError"),
        ("a ** -1.0, int64 data", lambda t, h, a: binop(t, h, a, "__pow__", -1.0), lambda pa: rat(1) / pa),
        ("a ** 2, int64 data", lambda t, h, a: binop(t, h, a, "__pow__", 2), lambda pa: pa * pa),
        ("2 / a, int64 data", lambda t, h, a: binop(t, h, a, "__rtruediv__", 2), lambda pa: rat(2) / pa),
        # a fractional python number against integer data is the number itself (never cast to the data's integer type first)
        ("a * 2.5, int64 data", lambda t, h, a: binop(t, h, a, "__mul__", 2.5), lambda pa: pa * rat(5) / rat(2)),
        ("a / 2.5, int64 data", lambda t, h, a: binop(t, h, a, "__truediv__", 2.5), lambda pa: pa * rat(2) / rat(5)),
        ("2.5 * a, int64 data", lambda t, h, a: binop(t, h, a, "__rmul__", 2.5), lambda pa: pa * rat(5) / rat(2)),
    ]
    for label, do, want in (extra if only is None else []):
        construct = "core/array.py::Array[%s]" % label
        try:
            hk = stack_hooks(tree)
            a = arr(tree, hk, "A", "cm", dtype="int64" if "int64" in label else "float64")
            pa = phys(a)
            try:
                r = do(tree, hk, a)
                if isinstance(want, str):
                    ok, detail = False, "returns %r (required: %s, as numpy does on the raw values)" % (r._attrs.get("_array") if isinstance(r, PyObj) else r, want)
                else:
                    v = r._attrs.get("_array") if isinstance(r, PyObj) else None
                    if isinstance(v, RawV) and isinstance(v.r, tuple):
                        ok, detail = False, "computed as %s (required the floating-point value %r)" % (v.r[0], want(pa))
                    else:
                        got = phys(r)
                        ok = got == want(pa) and phys(a) == pa
                        detail = "physical value %r (required %r)" % (got, want(pa))
            except (Raised, ProgramRaised) as e:
                ok, detail = (isinstance(want, str) and want == "raises " + getattr(e, "name", "")), "raises %s" % e
            run.ob(construct, ok, fi.where(), detail, "%s is not %s of the quantity a" % (label, label))
        except ERR as e:
            run.unresolved(construct, fi.where(), "cannot fold: %s" % e)
    for label, dunder, kind in (("a [m] < b [cm]", "__lt__", "lt"), ("a [m] >= b [cm]", "__ge__", "ge"), ("a [m] == b [cm]", "__eq__", "eq")):
        construct = "core/array.py::Array[%s]" % label
        try:
            hk = stack_hooks(tree)
            a, b = arr(tree, hk, "A", "m"), arr(tree, hk, "B", "cm")
            try:
                r = binop(tree, hk, a, dunder, b)
                v, u = r._attrs.get("_array"), r._attrs.get("_unit")
                ok = isinstance(v, RawV) and isinstance(v.r, tuple) and v.r[0] == kind and v.r[1] * km == A * km - B * kcm and isinstance(u, UU) and not u.mono
                detail = "compares %r %s 0, labelled %r" % (v.r[1] if isinstance(v, RawV) and isinstance(v.r, tuple) else v, kind, u)
            except (Raised, ProgramRaised) as e:
                ok, detail = False, "raises %s" % e
            run.ob(construct, ok, fi.where(), detail, "%s compares raw numbers in different units, or the result carries a unit" % label)
        except ERR as e:
            run.unresolved(construct, fi.where(), "cannot fold: %s" % e)
    # one-element operands keep their shape through the conversion: () < (1,) is (1,), (3,) < (1, 1) is (1, 3)
    for label, sa_, sb_, want_shape in (("a [m, 0-d] < b [cm, shape (1,)]", (), (1,), (1,)), ("a [m, shape (3,)] < b [cm, shape (1, 1)]", (3,), (1, 1), (1, 3)),
                                        ("a [m, shape (1,)] < b [cm, 0-d]", (1,), (), (1,))):
        construct = "core/array.py::Array[%s]" % label
        try:
            hk = stack_hooks(tree)
            a, b = arr(tree, hk, "A", "m", shape=sa_), arr(tree, hk, "B", "cm", shape=sb_)
            try:
                r = binop(tree, hk, a, "__lt__", b)
                v = r._attrs.get("_array")
                ok = isinstance(v, RawV) and isinstance(v.r, tuple) and v.r[0] == "lt" and v.r[1] * km == A * km - B * kcm and tuple(v.shape) == want_shape
                detail = "compares %r lt 0, result shape %r (required %r)" % (v.r[1] if isinstance(v, RawV) and isinstance(v.r, tuple) else v, tuple(getattr(v, "shape", ())), want_shape)
            except (Raised, ProgramRaised) as e:
                ok, detail = False, "raises %s" % e
            run.ob(construct, ok, fi.where(), detail, "%s: a one-element operand in another unit loses its shape in the conversion, or is not converted" % label)
        except ERR as e:
            run.unresolved(construct, fi.where(), "cannot fold: %s" % e)
    # integer data (levels, cpu numbers) against a fractional bare number: level < 2.5 compares with 2.5
    for label, dunder, kind in (("a [dimensionless, int64 data] < 2.5", "__lt__", "lt"), ("a [dimensionless, int64 data] >= 2.5", "__ge__", "ge"), ("a [dimensionless, int64 data] == 2.5", "__eq__", "eq")):
        construct = "core/array.py::Array[%s]" % label
        try:
            hk = stack_hooks(tree)
            a = arr(tree, hk, "A", "dimensionless", dtype="int64")
            try:
                r = binop(tree, hk, a, dunder, 2.5)
                v, u = r._attrs.get("_array"), r._attrs.get("_unit")
                ok = isinstance(v, RawV) and isinstance(v.r, tuple) and v.r[0] == kind and v.r[1] == A - rat(5) / rat(2) and isinstance(u, UU) and not u.mono
                detail = "compares %r %s 0, labelled %r" % (v.r[1] if isinstance(v, RawV) and isinstance(v.r, tuple) else v, kind, u)
            except (Raised, ProgramRaised) as e:
                ok, detail = False, "raises %s" % e
            run.ob(construct, ok, fi.where(), detail, "%s: the number is rounded to the integer type of the data before the comparison (level < 2.5 selects level < 2)" % label)
        except ERR as e:
            run.unresolved(construct, fi.where(), "cannot fold: %s" % e)
    for label, dunder, want in () if only else (("a [m] += b [cm]", "__iadd__", lambda: A * km + B * kcm), ("a [m] *= b [s]", "__imul__", lambda: A * km * B * ks)):
        construct = "core/array.py::Array[%s]" % label
        try:
            hk = stack_hooks(tree)
            a, b = arr(tree, hk, "A", "m"), arr(tree, hk, "B", "cm" if "cm" in label else "s")
            buf, pb = a._attrs["_array"], phys(b)
            try:
                r = binop(tree, hk, a, dunder, b)
                ok = r is a and a._attrs["_array"] is buf and phys(a) == want() and phys(b) == pb
                detail = "returns %s; buffer %s; physical value %r" % ("the same object" if r is a else "another object", "updated in place" if a._attrs["_array"] is buf else "replaced", phys(a))
            except (Raised, ProgramRaised) as e:
                ok, detail = False, "raises %s" % e
            run.ob(construct, ok, fi.where(), detail, "x op= y does not update x in place (other references do not see the update), gives another value than x op y, or changes y")
        except ERR as e:
            run.unresolved(construct, fi.where(), "cannot fold: %s" % e)




def check_numpy_stack(run, tree, only=None):
    """numpy entry points end to end: repeated powers with different exponents (a memo keyed without the exponent would label the second
    wrongly), ufunc methods (reduce/accumulate: refused, or labelled for what they compute), array functions with out=<Array>"""
    ci = tree.cls(ARRAY_Q)
    wn = tree.method(ci, "_wrap_numpy")
    run.analysed(wn)
    A = rat(Poly.sym("A"))
    km, ks = rat(Poly.sym("k_m")), rat(Poly.sym("k_s"))
    construct = ARRAY_Q + "[history: a**2, a**3, b**2, np.sqrt(a*a)]"
    try:
        hk = stack_hooks(tree)
        a, b = arr(tree, hk, "A", "m"), arr(tree, hk, "B", "s")
        problems = []
        for label, obj, e, want in (("a**2", a, 2, A * A * km * km), ("a**3", a, 3, A * A * A * km * km * km), ("b**2", b, 2, rat(Poly.sym("B")) ** 2 * ks * ks), ("a**2 again", a, 2, A * A * km * km)):
            r = binop(tree, hk, obj, "__pow__", e)
            if not (phys(r) == want):
                problems.append("%s denotes %r (required %r)" % (label, phys(r), want))
        run.ob(construct, not problems, wn.where(), "; ".join(problems) or "each power is labelled with its own unit power",
               "a**3 evaluated after a**2 is labelled m**2 (unit of a remembered result reused for another exponent)")
    except (Raised, ProgramRaised) as e:
        run.violated(construct, wn.where(), "raises %s" % e, "integer powers of a quantity")
    except ERR as e:
        run.unresolved(construct, wn.where(), "cannot fold: %s" % e)
    if only == ("powers",):
        return
    NO_UNIT = "no single unit can label the result (its elements are a length, an area, a volume): the call must be refused"
    for uf, meth, want in (("multiply", "reduce", lambda el: el[0] * el[1] * el[2] * km ** 3), ("add", "reduce", lambda el: (el[0] + el[1] + el[2]) * km),
                           ("multiply", "accumulate", NO_UNIT), ("multiply", "outer", lambda el: rat(Poly.sym(Fn("outer", "A", "A"))) * km * km), ("add", "at", None)):
        construct = ARRAY_Q + "[np.%s.%s(a [m])]" % (uf, meth)
        try:
            hk = stack_hooks(tree)
            a = arr(tree, hk, "A", "m")
            el = [rat(Poly.sym("A[%d]" % i)) for i in range(3)]
            try:
                r = getattr(hk["ext"]["numpy." + uf], meth)(*([a, a] if meth == "outer" else [a]))
                if want is None:
                    raise Unsupported("np.%s.%s is accepted; the model does not say what it must compute" % (uf, meth))
                if isinstance(want, str):
                    ok, detail = False, "returns %r; %s" % (phys(r) if isinstance(r, PyObj) else r, want)
                else:
                    got = phys(r)
                    ok, detail = got == want(el), "denotes %r (required %r)" % (got, want(el))
            except (Raised, ProgramRaised) as e:
                ok, detail = True, "refused (%s)" % getattr(e, "name", e)
            run.ob(construct, ok, wn.where(), detail, "the product of n lengths is labelled as a length")
        except ERR as e:
            run.unresolved(construct, wn.where(), "cannot fold: %s" % e)
    for uf in ("add", "subtract", "multiply"):
        construct = ARRAY_Q + "[np.%s(a [m], b [m], out=buf [s])]" % uf
        try:
            hk = stack_hooks(tree)
            a, b, buf = arr(tree, hk, "A", "m"), arr(tree, hk, "B", "m"), arr(tree, hk, "Z", "s")
            B_ = rat(Poly.sym("B"))
            want = {"add": (A + B_) * km, "subtract": (A - B_) * km, "multiply": A * B_ * km * km}[uf]
            before = (buf._attrs["_array"].r, buf._attrs["_unit"])
            try:
                r = hk["ext"]["numpy." + uf](a, b, out=buf)
                ok = r is buf and phys(buf) == want
                detail = "returns %s; out denotes %r (required %r)" % ("out" if r is buf else "another object", phys(buf), want)
            except (Raised, ProgramRaised) as e:
                ok = (buf._attrs["_array"].r, buf._attrs["_unit"]) == before
                detail = "refused (%s); out %s" % (getattr(e, "name", e), "untouched" if ok else "already overwritten")
            run.ob(construct, ok, wn.where(), detail, "numpy writes metres into out but out keeps the unit it had (seconds): the unit is taken from the output buffer instead of the operands")
        except ERR as e:
            run.unresolved(construct, wn.where(), "cannot fold: %s" % e)
    for fn in ("cumsum", "sum"):
        construct = ARRAY_Q + "[np.%s(a [m], out=buf [s])]" % fn
        try:
            hk = stack_hooks(tree)
            a, buf = arr(tree, hk, "A", "m"), arr(tree, hk, "Z", "s")
            before = (buf._attrs["_array"].r, buf._attrs["_unit"])
            want = rat(Poly.sym(Fn(fn, "A"))) * km
            try:
                r = hk["ext"]["numpy." + fn](a, out=buf)
                ok = r is buf and phys(buf) == want
                detail = "returns %s; out denotes %r (required %r)" % ("out" if r is buf else "another object %r" % (r,), phys(buf), want)
            except (Raised, ProgramRaised) as e:
                ok = (buf._attrs["_array"].r, buf._attrs["_unit"]) == before
                detail = "refused (%s); out %s" % (getattr(e, "name", e), "untouched" if ok else "already overwritten: now %r %r" % (buf._attrs["_array"].r, buf._attrs["_unit"]))
            run.ob(construct, ok, wn.where(), detail, "numpy writes lengths into out but out keeps its old unit (seconds), or the call returns something else than out")
        except ERR as e:
            run.unresolved(construct, wn.where(), "cannot fold: %s" % e)
        construct = ARRAY_Q + "[np.%s(a [m])]" % fn
        try:
            hk = stack_hooks(tree)
            a = arr(tree, hk, "A", "m")
            try:
                r = hk["ext"]["numpy." + fn](a)
                ok, detail = phys(r) == rat(Poly.sym(Fn(fn, "A"))) * km, "denotes %r" % (phys(r),)
            except (Raised, ProgramRaised) as e:
                ok, detail = True, "refused (%s)" % getattr(e, "name", e)
            run.ob(construct, ok, wn.where(), detail, "np.%s of lengths is not a length" % fn)
        except ERR as e:
            run.unresolved(construct, wn.where(), "cannot fold: %s" % e)


def check_constructor_stack(run, tree):
    """Array(values=<python int>) keeps integers integer: the buffer handed to numpy.asarray is the caller's value"""
    ci = tree.cls(ARRAY_Q)
    init = tree.method(ci, "__init__")
    run.analysed(init)
    for label, value, want in (("python int", 3, "int64"), ("python float", 3.0, "float64")):
        construct = ARRAY_Q + ".__init__[%s]" % label
        try:
            hk = stack_hooks(tree)
            seen = []
            hk["ext"]["numpy.asarray"] = lambda v, *a, **k: (seen.append((v, a, k)), RawV(rat(v), "float64" if isinstance(v, float) else "int64", ()))[1]
            a = arr(tree, hk, value, "m")
            v = a._attrs.get("_array")
            ok = isinstance(v, RawV) and repr(v.dtype) == repr(DT(want)) and len(seen) == 1 and type(seen[0][0]) is type(value) and not seen[0][1] and not seen[0][2]
            run.ob(construct, ok, init.where(), "numpy.asarray receives %s; stored dtype %r" % (", ".join("%s %r%s" % (type(x[0]).__name__, x[0], " with %r %r" % (x[1], x[2]) if x[1] or x[2] else "") for x in seen), getattr(v, "dtype", None)),
                   "Array(3, unit=...) stores 3.0: integer data (levels, cpu numbers, counts) silently becomes floating point")
        except (Raised, ProgramRaised) as e:
            run.violated(construct, init.where(), "raises %s" % e, "constructing from a python number")
        except ERR as e:
            run.unresolved(construct, init.where(), "cannot fold: %s" % e)


def check_to_stack(run, tree, only=None):
    """Array.to and Vector.to end to end: the physical value is unchanged, the unit is the requested one; units of equal size but
    different name (ratio exactly 1) and members of the dimensionless family included; a second conversion after an in-place change of
    the buffer reflects the change"""
    ci = tree.cls(ARRAY_Q)
    to = tree.method(ci, "to")
    run.analysed(to)
    for label, u0, u1 in (("m -> cm", "m", "cm"), ("rad -> deg", "rad", "deg"), ("percent -> dimensionless", "percent", "dimensionless"), ("m/s -> cm/s", "m/s", "cm/s"),
                          ("Hz -> 1/s (same size, other unit)", "Hz", "1/s"), ("m*Hz -> m/s", "m*Hz", "m/s")):
        for kind in ("Array", "Vector") if only is None else ():
            construct = "%s.to[%s]" % (ARRAY_Q if kind == "Array" else VECTOR_Q, label)
            try:
                hk = stack_hooks(tree)
                if kind == "Array":
                    objs = [arr(tree, hk, "A", u0)]
                    res = ModelEval(tree, to, {}, hk).invoke(to, [objs[0], u1], {}, None)
                    outs = [res]
                else:
                    vi = tree.cls(VECTOR_Q)
                    comps = {c: arr(tree, hk, "A" + c, u0) for c in "xyz"}
                    v = ModelEval(tree, tree.method(vi, "__init__"), {}, hk).instantiate(vi, [], dict(comps), None)
                    vto = tree.method(vi, "to")
                    res = ModelEval(tree, vto, {}, hk).invoke(vto, [v, u1], {}, None)
                    xyz = ModelEval(tree, vto, {}, hk).obj_getattr(res, "_xyz")
                    objs = [ModelEval(tree, vto, {}, hk).obj_getattr(v, "_xyz")[c] for c in "xyz"]
                    outs = [xyz[c] for c in "xyz"]
                problems = []
                for o, r in zip(objs, outs):
                    if not (isinstance(r, PyObj) and phys(r) == phys(o)):
                        problems.append("physical value %r, was %r" % (phys(r) if isinstance(r, PyObj) else r, phys(o)))
                    elif r._attrs.get("_unit") != UU.parse(u1):
                        problems.append("labelled %r (required %s)" % (r._attrs.get("_unit"), u1))
                run.ob(construct, not problems, to.where(), "; ".join(problems[:2]) or "same physical quantity, labelled %s" % u1,
                       "x.to(u) changes the quantity or keeps the old label (units of the dimensionless family, units of equal size)")
            except (Raised, ProgramRaised) as e:
                run.violated(construct, to.where(), "raises %s" % e, "x.to(%s)" % u1)
            except ERR as e:
                run.unresolved(construct, to.where(), "cannot fold: %s" % e)
    # spellings of the target that are falsy / unusual python values: "" is a spelling of dimensionless
    for label, u0, u1, want in (('percent -> "" (the empty spelling of dimensionless)', "percent", "", "converted"), ('m -> ""', "m", "", "raises DimensionalityError"),
                                ("rad -> dimensionless", "rad", "dimensionless", "converted")) if only is None else ():
        construct = "%s.to[%s]" % (ARRAY_Q, label)
        try:
            hk = stack_hooks(tree)
            a = arr(tree, hk, "A", u0)
            pa = phys(a)
            try:
                r = ModelEval(tree, to, {}, hk).invoke(to, [a, u1], {}, None)
                got = "converted" if isinstance(r, PyObj) and phys(r) == pa and r._attrs.get("_unit") == UU.parse(u1) else "returns %r labelled %r" % (phys(r) if isinstance(r, PyObj) else r, r._attrs.get("_unit") if isinstance(r, PyObj) else None)
            except (Raised, ProgramRaised) as e:
                got = "raises " + getattr(e, "name", str(e))
            run.ob(construct, got == want and phys(a) == pa, to.where(), "%s (required: %s)" % (got, want),
                   'x.to("") returns x unconverted (an empty target taken for "no target"): percent stays percent, a length is accepted as dimensionless')
        except ERR as e:
            run.unresolved(construct, to.where(), "cannot fold: %s" % e)
    # Vectors of every shape and size: single (0-d) and empty Vectors keep all their components; a conversion into the unit the Vector
    # already has gives a result whose LABEL is its own (relabelling it does not relabel the original)
    vi_ = tree.cls(VECTOR_Q)
    vto_ = tree.method(vi_, "to")
    for label, shape, n in (("a single (0-d) 3-component Vector", (), 3), ("a single 2-component Vector", (), 2), ("an empty Vector", (0,), 3)) if only is None else ():
        construct = "%s.to[%s, m -> cm]" % (VECTOR_Q, label)
        try:
            hk = stack_hooks(tree)
            v = vec(tree, hk, "V", "m", n=n, shape=shape)
            want = {c: phys(a) for c, a in comps_of(tree, hk, v).items()}
            try:
                r = ModelEval(tree, vto_, {}, hk).invoke(vto_, [v, "cm"], {}, None)
                got = {c: (phys(a), a._attrs.get("_unit")) for c, a in comps_of(tree, hk, r).items()} if isinstance(r, PyObj) else r
                ok = isinstance(got, dict) and set(got) == set(want) and all(got[c][0] == want[c] and got[c][1] == UU.parse("cm") for c in want)
                detail = "components %s (required %s, each the same quantity in cm)" % (sorted(got) if isinstance(got, dict) else got, sorted(want))
            except (Raised, ProgramRaised) as e:
                ok, detail = False, "raises %s" % e
            run.ob(construct, ok, vto_.where(), detail, "a scalar or empty Vector loses its y and z components in .to() (components tested for truth: an Array of length 0 is falsy)")
        except ERR as e:
            run.unresolved(construct, vto_.where(), "cannot fold: %s" % e)
    if only is None:
        construct = "%s.to[history: w = v.to(<the unit v has>); w.unit = 'cm'; v keeps its label]" % VECTOR_Q
        try:
            hk = stack_hooks(tree)
            v = vec(tree, hk, "V", "m")
            pv = {c: phys(a) for c, a in comps_of(tree, hk, v).items()}
            try:
                w = ModelEval(tree, vto_, {}, hk).invoke(vto_, [v, "m"], {}, None)
                ev_ = ModelEval(tree, vto_, {}, hk)
                names_before = {c: a._attrs.get("name") for c, a in comps_of(tree, hk, v).items()}
                if w is not v:
                    ev_.obj_setattr(w, "unit", "cm")
                    ev_.obj_setattr(w, "name", "renamed")
                units_v = {c: a._attrs.get("_unit") for c, a in comps_of(tree, hk, v).items()}
                names_after = {c: a._attrs.get("name") for c, a in comps_of(tree, hk, v).items()}
                ok = w is v or (all(u == UU.parse("m") for u in units_v.values()) and names_after == names_before)
                detail = "after relabelling / renaming the result, v is labelled %r and its components are named %r (required m and %r)" % (units_v, names_after, names_before)
            except (Raised, ProgramRaised) as e:
                ok, detail = False, "raises %s" % e
            run.ob(construct, ok, vto_.where(), detail, "v.to(<same unit>) hands out the component Array OBJECTS of v: relabelling or renaming the result changes v")
        except ERR as e:
            run.unresolved(construct, vto_.where(), "cannot fold: %s" % e)
    # equal size, different unit (ratio exactly 1): k_deg := k_rad is not available symbolically; use an alias base with the same scale
    construct = ARRAY_Q + ".to[history: convert, change the buffer in place, convert again]"
    try:
        hk = stack_hooks(tree)
        b = arr(tree, hk, "B", "cm")
        ev = ModelEval(tree, to, {}, hk)
        r1 = ev.invoke(to, [b, "m"], {}, None)
        b._attrs["_array"].r = rat(Poly.sym("B2"))      # what `b *= 2` or b.values[0] = x does: same buffer object, new contents
        r2 = ev.invoke(to, [b, "m"], {}, None)
        ok = phys(r2) == phys(b) and r2 is not b
        run.ob(construct, ok, to.where(), "second conversion gives %r for a buffer now holding %r" % (phys(r2), phys(b)),
               "a + b with b converted a second time after `b *= 2` uses the old values of b (a memoised conversion)")
    except (Raised, ProgramRaised) as e:
        run.violated(construct, to.where(), "raises %s" % e, "repeated conversion")
    except ERR as e:
        run.unresolved(construct, to.where(), "cannot fold: %s" % e)


# =============================================================================== thorough tier: the whole unit-pair space
THOROUGH_UNITS = ("m", "cm", "km", "s", "g", "rad", "deg", "percent", "dimensionless", "m/s", "cm/s", "Hz", "1/s", "g/cm**3", "m**2")


def check_unit_pair_space(run, tree, kinds=("strict", "free", "cmp", "strict-in", "free-in")):
    """every ordered pair of %d units x every arithmetic, comparison and in-place operator: the result denotes the operation on the physical
    quantities (or DimensionalityError exactly when the dimensions differ and the operator needs a common unit); one obligation per
    operator, listing the failing pairs""" % len(THOROUGH_UNITS)
    fi = tree.func("core/array.py::_binary_op")
    run.analysed(fi)
    A, B = rat(Poly.sym("A")), rat(Poly.sym("B"))
    ops = [("+", "__add__", "strict", lambda pa, pb: pa + pb), ("-", "__sub__", "strict", lambda pa, pb: pa - pb),
           ("*", "__mul__", "free", lambda pa, pb: pa * pb), ("/", "__truediv__", "free", lambda pa, pb: pa / pb),
           ("<", "__lt__", "cmp", "lt"), ("==", "__eq__", "cmp", "eq"), (">=", "__ge__", "cmp", "ge"), ("!=", "__ne__", "cmp", "ne"),
           ("+=", "__iadd__", "strict-in", lambda pa, pb: pa + pb), ("-=", "__isub__", "strict-in", lambda pa, pb: pa - pb),
           ("*=", "__imul__", "free-in", lambda pa, pb: pa * pb), ("/=", "__itruediv__", "free-in", lambda pa, pb: pa / pb)]
    for sym, dunder, kind, want in ops:
        if kind not in kinds:
            continue
        construct = "core/array.py::Array[a %s b over %d x %d unit pairs]" % (sym, len(THOROUGH_UNITS), len(THOROUGH_UNITS))
        bad, unres, n = [], [], 0
        for u1 in THOROUGH_UNITS:
            for u2 in THOROUGH_UNITS:
                n += 1
                try:
                    hk = stack_hooks(tree)
                    a, b = arr(tree, hk, "A", u1), arr(tree, hk, "B", u2)
                    U1, U2 = UU.parse(u1), UU.parse(u2)
                    pa, pb, buf = phys(a), phys(b), a._attrs["_array"]
                    same_dim = U1.dims() == U2.dims()
                    try:
                        r = binop(tree, hk, a, dunder, b)
                        outcome = "value"
                    except (Raised, ProgramRaised) as e:
                        r, outcome = None, "raises " + getattr(e, "name", str(e))
                    if kind.startswith(("strict", "cmp")) and not same_dim:
                        if outcome != "raises DimensionalityError":
                            bad.append("%s, %s: %s (required DimensionalityError)" % (u1, u2, outcome if r is None else "returns a value"))
                        elif not (phys(a) == pa and phys(b) == pb):
                            bad.append("%s, %s: an operand was modified before the refusal" % (u1, u2))
                        continue
                    if outcome != "value":
                        bad.append("%s, %s: %s" % (u1, u2, outcome))
                        continue
                    if kind == "cmp":
                        v, u = r._attrs.get("_array"), r._attrs.get("_unit")
                        ok = isinstance(v, RawV) and isinstance(v.r, tuple) and v.r[0] == want and v.r[1] * U1.scale() == pa - pb and isinstance(u, UU) and not u.mono
                    else:
                        ok = phys(r) == want(pa, pb) and phys(b) == pb
                        if kind.endswith("-in"):
                            ok = ok and r is a and a._attrs["_array"] is buf
                        else:
                            ok = ok and phys(a) == pa
                        if kind.startswith("strict"):
                            ok = ok and r._attrs.get("_unit") == U1
                    if not ok:
                        bad.append("%s, %s: result does not denote a %s b%s" % (u1, u2, sym, " in place" if kind.endswith("-in") else ""))
                except ERR as e:
                    unres.append("%s, %s: %s" % (u1, u2, e))
        if unres:
            run.unresolved(construct, fi.where(), "cannot fold %d pairs, e.g. %s" % (len(unres), unres[0]))
        else:
            run.ob(construct, not bad, fi.where(), ("%d of %d pairs wrong: " % (len(bad), n) + "; ".join(bad[:4])) if bad else "%d pairs: value, unit, refusal and operand integrity as required" % n,
                   "a %s b is wrong for some pair of units (dimensionless family, equal-size aliases, compound units)" % sym)


def check_to_pair_space(run, tree):
    """x.to(u) over every ordered unit pair, Array and Vector: same physical quantity labelled u, or DimensionalityError exactly when the
    dimensions differ; the receiver is never modified"""
    ci = tree.cls(ARRAY_Q)
    to = tree.method(ci, "to")
    run.analysed(to)
    for kind in ("Array", "Vector"):
        construct = "%s.to[over %d x %d unit pairs]" % (ARRAY_Q if kind == "Array" else VECTOR_Q, len(THOROUGH_UNITS), len(THOROUGH_UNITS))
        bad, unres, n = [], [], 0
        for u0 in THOROUGH_UNITS:
            for u1 in THOROUGH_UNITS:
                n += 1
                try:
                    hk = stack_hooks(tree)
                    same_dim = UU.parse(u0).dims() == UU.parse(u1).dims()
                    if kind == "Array":
                        objs = [arr(tree, hk, "A", u0)]
                        call_ = lambda: [ModelEval(tree, to, {}, hk).invoke(to, [objs[0], u1], {}, None)]
                    else:
                        v = vec(tree, hk, "V", u0)
                        objs = list(comps_of(tree, hk, v).values())
                        vto = tree.method(v._cls, "to")
                        call_ = lambda: list(comps_of(tree, hk, ModelEval(tree, vto, {}, hk).invoke(vto, [v, u1], {}, None)).values())
                    before = [phys(o) for o in objs]
                    try:
                        outs = call_()
                        outcome = "value"
                    except (Raised, ProgramRaised) as e:
                        outs, outcome = None, "raises " + getattr(e, "name", str(e))
                    if [phys(o) for o in objs] != before and not all(x == y for x, y in zip([phys(o) for o in objs], before)):
                        bad.append("%s -> %s: the receiver was modified" % (u0, u1))
                    if not same_dim:
                        if outcome != "raises DimensionalityError":
                            bad.append("%s -> %s: %s (required DimensionalityError)" % (u0, u1, outcome))
                        continue
                    if outcome != "value":
                        bad.append("%s -> %s: %s" % (u0, u1, outcome))
                    elif not all(isinstance(r, PyObj) and phys(r) == p0 and r._attrs.get("_unit") == UU.parse(u1) for r, p0 in zip(outs, before)):
                        bad.append("%s -> %s: another quantity or another label" % (u0, u1))
                except ERR as e:
                    unres.append("%s -> %s: %s" % (u0, u1, e))
        if unres:
            run.unresolved(construct, to.where(), "cannot fold %d pairs, e.g. %s" % (len(unres), unres[0]))
        else:
            run.ob(construct, not bad, to.where(), ("%d of %d pairs wrong: " % (len(bad), n) + "; ".join(bad[:4])) if bad else "%d pairs: quantity preserved, labelled as requested, incompatible pairs refused" % n,
                   "x.to(u) changes the quantity, keeps the old label or accepts an incompatible unit for some pair")


def check_vector_pair_space(run, tree):
    """v op w for Vectors of 1-3 components over every ordered pair of units: component c of the result denotes v.c op w.c (or the operation
    is refused exactly when the dimensions differ and the operator needs a common unit); right operands of the other kinds (Array, scalar,
    Quantity) broadcast to every component"""
    vfi = tree.func("core/vector.py::_binary_op")
    run.analysed(vfi)
    ops = [("+", "__add__", True, lambda a, b: a + b), ("-", "__sub__", True, lambda a, b: a - b), ("*", "__mul__", False, lambda a, b: a * b), ("/", "__truediv__", False, lambda a, b: a / b)]
    units = THOROUGH_UNITS[:10]
    for sym, dunder, strict, want in ops:
        for rk in ("Vector", "Array", "Quantity"):
            construct = "core/vector.py::Vector[v %s %s over %d x %d unit pairs, 1-3 components]" % (sym, rk, len(units), len(units))
            bad, unres, n = [], [], 0
            for ncomp in (3, 2, 1):
                for u1 in units:
                    for u2 in (units if ncomp == 3 else units[:4]):
                        n += 1
                        try:
                            hk = stack_hooks(tree)
                            v = vec(tree, hk, "V", u1, ncomp)
                            cs = comps_of(tree, hk, v)
                            if rk == "Vector":
                                y = vec(tree, hk, "W", u2, ncomp)
                                py = {c: phys(a_) for c, a_ in comps_of(tree, hk, y).items()}
                            elif rk == "Array":
                                y = arr(tree, hk, "B", u2)
                                py = {c: phys(y) for c in cs}
                            else:
                                y = QQ(RawV(Poly.sym("Q")), UU.parse(u2))
                                py = {c: y.magnitude.r * y.units.scale() for c in cs}
                            pv = {c: phys(cs[c]) for c in cs}
                            same_dim = UU.parse(u1).dims() == UU.parse(u2).dims()
                            try:
                                r = binop(tree, hk, v, dunder, y)
                                outcome = "value"
                            except (Raised, ProgramRaised) as e:
                                r, outcome = None, "raises " + getattr(e, "name", str(e))
                            if strict and not same_dim:
                                if outcome != "raises DimensionalityError":
                                    bad.append("%s, %s (%d): %s (required DimensionalityError)" % (u1, u2, ncomp, outcome))
                                continue
                            if outcome != "value":
                                bad.append("%s, %s (%d): %s" % (u1, u2, ncomp, outcome))
                                continue
                            rc = comps_of(tree, hk, r)
                            if sorted(rc) != sorted(cs) or not all(phys(rc[c]) == want(pv[c], py[c]) for c in cs):
                                bad.append("%s, %s (%d): a component does not denote v.c %s w.c" % (u1, u2, ncomp, sym))
                            elif not all(phys(cs[c]) == pv[c] for c in cs):
                                bad.append("%s, %s (%d): the left operand was modified" % (u1, u2, ncomp))
                        except ERR as e:
                            unres.append("%s, %s (%d): %s" % (u1, u2, ncomp, e))
            if unres:
                run.unresolved(construct, vfi.where(), "cannot fold %d cases, e.g. %s" % (len(unres), unres[0]))
            else:
                run.ob(construct, not bad, vfi.where(), ("%d of %d cases wrong: " % (len(bad), n) + "; ".join(bad[:4])) if bad else "%d cases: every component denotes v.c %s w.c" % (n, sym),
                       "a component is combined with another component, in another unit, or an incompatible operand is accepted")


def check_numpy_unit_space(run, tree):
    """np.power (exponents -2..3, applied in every order within one fold so that remembered units would show), np.square, np.reciprocal,
    np.negative, np.multiply, np.true_divide called as numpy functions over the unit list (pairs for the binary ones): the result denotes the
    function of the physical quantities"""
    ci = tree.cls(ARRAY_Q)
    wn = tree.method(ci, "_wrap_numpy")
    run.analysed(wn)
    import itertools
    A, B = rat(Poly.sym("A")), rat(Poly.sym("B"))
    construct = ARRAY_Q + "[np.power / square / reciprocal / negative over %d units, exponents -2..3 in both orders]" % len(THOROUGH_UNITS)
    bad, unres, n = [], [], 0
    for u in THOROUGH_UNITS:
        for order in (range(-2, 4), range(3, -3, -1)):
            try:
                hk = stack_hooks(tree)
                a = arr(tree, hk, "A", u)
                pa = phys(a)
                for e in order:
                    n += 1
                    r = hk["ext"]["numpy.power"](a, e)
                    if not (phys(r) == pa ** e):
                        bad.append("np.power(a [%s], %d)" % (u, e))
                for fn, want in (("square", pa * pa), ("reciprocal", rat(1) / pa), ("negative", -pa)):
                    n += 1
                    r = hk["ext"]["numpy." + fn](a)
                    if not (phys(r) == want):
                        bad.append("np.%s(a [%s])" % (fn, u))
                if not (phys(a) == pa):
                    bad.append("operand [%s] modified" % u)
            except (Raised, ProgramRaised) as e:
                bad.append("unit %s: raises %s" % (u, e))
            except ERR as e:
                unres.append("unit %s: %s" % (u, e))
    if unres:
        run.unresolved(construct, wn.where(), "cannot fold %d cases, e.g. %s" % (len(unres), unres[0]))
    else:
        run.ob(construct, not bad, wn.where(), ("%d of %d calls wrong: %s" % (len(bad), n, "; ".join(bad[:5]))) if bad else "%d calls denote the function of the quantity" % n,
               "a power is labelled with the unit of another exponent, or a unary function keeps / loses the unit")
    construct = ARRAY_Q + "[np.multiply / np.true_divide over %d x %d unit pairs]" % (len(THOROUGH_UNITS), len(THOROUGH_UNITS))
    bad, unres, n = [], [], 0
    for u1, u2 in itertools.product(THOROUGH_UNITS, repeat=2):
        try:
            hk = stack_hooks(tree)
            a, b = arr(tree, hk, "A", u1), arr(tree, hk, "B", u2)
            pa, pb = phys(a), phys(b)
            for fn, want in (("multiply", pa * pb), ("true_divide", pa / pb)):
                n += 1
                r = hk["ext"]["numpy." + fn](a, b)
                if not (phys(r) == want):
                    bad.append("np.%s(a [%s], b [%s])" % (fn, u1, u2))
        except (Raised, ProgramRaised) as e:
            bad.append("%s, %s: raises %s" % (u1, u2, e))
        except ERR as e:
            unres.append("%s, %s: %s" % (u1, u2, e))
    if unres:
        run.unresolved(construct, wn.where(), "cannot fold %d cases, e.g. %s" % (len(unres), unres[0]))
    else:
        run.ob(construct, not bad, wn.where(), ("%d of %d calls wrong: %s" % (len(bad), n, "; ".join(bad[:5]))) if bad else "%d calls denote the product / quotient of the quantities" % n,
               "the unit of a product or quotient computed through numpy does not follow the operands")


# =============================================================================== Vector.norm on corner inputs (concrete small vectors)
class CArr(Model):
    """a concrete small numpy array: python numbers + a dtype; IEEE semantics for division (0/0 = nan, x/0 = inf), numpy semantics for booleans"""
    kinds = ("ndarray",)

    def __init__(self, vals, dtype="float64"):
        self.vals, self.dtype = list(vals), DT(dtype) if isinstance(dtype, str) else dtype
        self.shape = (len(self.vals),)

    def _name(self):
        return repr(self.dtype).replace("dtype(", "").rstrip(")").strip("'")

    def _other(self, o):
        return o.vals if isinstance(o, CArr) else [o] * len(self.vals)

    def _res(self, vals, o, op):
        names = {self._name(), o._name() if isinstance(o, CArr) else ("float64" if isinstance(o, float) else "int64" if isinstance(o, int) and not isinstance(o, bool) else "bool")}
        dt = "float64" if ("float64" in names or op == "/") else "float16" if "float16" in names else "int64" if "int64" in names else "bool"
        if dt == "bool":
            vals = [bool(v) for v in vals]
        return CArr(vals, dt)

    def __mul__(self, o):
        return self._res([a * b for a, b in zip(self.vals, self._other(o))], o, "*")

    __rmul__ = __mul__

    def __add__(self, o):
        return self._res([a + b for a, b in zip(self.vals, self._other(o))], o, "+")

    __radd__ = __add__

    def __eq__(self, o):
        return CArr([a == b for a, b in zip(self.vals, self._other(o))], "bool")

    def __ne__(self, o):
        return CArr([a != b for a, b in zip(self.vals, self._other(o))], "bool")

    __hash__ = None

    def __iadd__(self, o):
        r = self.__add__(o)
        if repr(r.dtype) != repr(self.dtype) and self._name() in ("bool", "int64") and r._name().startswith("float"):
            raise Raised("UFuncTypeError", None, "cannot cast the result of add from %s to %s" % (r._name(), self._name()))
        self.vals = r.vals if self._name() != "bool" else [bool(v) for v in r.vals]
        return self

    def __truediv__(self, o):
        out = []
        for a, b in zip(self.vals, self._other(o)):
            a, b = float(a), float(b)
            out.append(float("nan") if (b == 0 and (a == 0 or a != a)) else (float("inf") if a > 0 else float("-inf")) if b == 0 else a / b)
        return CArr(out, "float64")

    def __neg__(self):
        return CArr([-v for v in self.vals], self.dtype)

    def __pow__(self, n):
        return CArr([(float("nan") if v != v else v ** n) for v in self.vals], "float64" if self._name().startswith("float") or not isinstance(n, int) else self.dtype)

    def __sub__(self, o):
        return self._res([a - b for a, b in zip(self.vals, self._other(o))], o, "-")

    def __abs__(self):
        return CArr([abs(v) for v in self.vals], self.dtype)

    def __getitem__(self, i):
        if i == ():
            return self
        return self.vals[i]

    def __len__(self):
        return len(self.vals)

    def copy(self):
        return CArr(self.vals, self.dtype)


def _c_sqrt(x, out=None, **k):
    import math
    if not isinstance(x, CArr):
        return math.sqrt(x)
    res = CArr([float("nan") if (v != v or v < 0) else math.sqrt(v) for v in x.vals], "float16" if x._name() == "bool" else "float64")
    if out is not None:
        o = out[0] if isinstance(out, tuple) else out
        if o._name() in ("bool", "int64"):
            raise Raised("UFuncTypeError", None, "cannot cast ufunc 'sqrt' output from %s to %s" % (res._name(), o._name()))
        o.vals, o.dtype = res.vals, o.dtype
        return o
    return res


def check_norm_corner_cases(run, tree):
    """Vector.norm interpreted on small concrete vectors that a formula-level fold does not separate: a row of exact zeros (the norm is 0, not
    nan), boolean components (the element-wise != of two Vectors, reduced by Datagroup.__eq__ through .norm: no cast error, truthy exactly where
    a component differs), integer components"""
    vi = tree.cls(VECTOR_Q)
    m = tree.method(vi, "norm")
    run.analysed(m)
    cases = [("rows (3,4,0) and (0,0,0), float", [[3.0, 0.0], [4.0, 0.0], [0.0, 0.0]], "float64", [5.0, 0.0]),
             ("rows (0,0) and (6,8), 2 components", [[0.0, 6.0], [0.0, 8.0]], "float64", [0.0, 10.0]),
             ("boolean components (a != b of two Vectors)", [[True, False, False], [False, False, True], [False, False, False]], "bool", [1.0, 0.0, 1.0]),
             ("integer components", [[3, 0], [4, 0], [0, 0]], "int64", [5.0, 0.0]),
             # an infinite component (a sentinel position, a diverged velocity): the norm is infinite, not nan - |a|^2 == a.a still holds
             ("rows (inf,1,0), (-inf,inf,2) and (3,4,0)", [[float("inf"), float("-inf"), 3.0], [1.0, float("inf"), 4.0], [0.0, 2.0, 0.0]], "float64", [float("inf"), float("inf"), 5.0])]
    for label, comps, dtype, want in cases:
        construct = "%s.norm[%s]" % (VECTOR_Q, label)
        try:
            hk = stack_hooks(tree)
            hk["ext"].update({"numpy.sqrt": _c_sqrt, "numpy.abs": abs, "numpy.absolute": abs, "numpy.fabs": abs,
                              "numpy.zeros": lambda shape, *a, **k: CArr([0.0] * (shape[0] if isinstance(shape, (tuple, list)) else shape)),
                              "numpy.zeros_like": lambda x, *a, **k: CArr([0.0] * len(x)), "numpy.shape": lambda x: x.shape,
                              "numpy.asarray": lambda x, *a, **k: x,
                              "numpy.maximum.reduce": lambda xs, *a, **k: CArr([max(col) for col in zip(*[x.vals for x in xs])], xs[0].dtype),
                              "numpy.maximum": lambda a, b, *r, **k: CArr([max(p, q) for p, q in zip(a.vals, b.vals)], a.dtype),
                              "numpy.hypot": lambda a, b, *r, **k: CArr([(float(p) ** 2 + float(q) ** 2) ** 0.5 for p, q in zip(a.vals, b.vals)]),
                              "numpy.where": lambda c, a, b: CArr([(x if t else y) for t, x, y in zip(c.vals, a.vals if isinstance(a, CArr) else [a] * len(c.vals), b.vals if isinstance(b, CArr) else [b] * len(c.vals))],
                                                                  (a if isinstance(a, CArr) else b).dtype if isinstance(a, CArr) or isinstance(b, CArr) else "float64"),
                              "numpy.isfinite": lambda x: CArr([v == v and abs(v) != float("inf") for v in x.vals], "bool"),
                              "numpy.errstate": lambda **k: _NullCtx()})
            ci = tree.cls(ARRAY_Q)
            ev = ModelEval(tree, tree.method(ci, "__init__"), {}, hk)
            arrs = {c: ev.instantiate(ci, [], {"values": CArr(v, dtype), "unit": "m"}, None) for c, v in zip("xyz", comps)}
            v = ModelEval(tree, tree.method(vi, "__init__"), {}, hk).instantiate(vi, [], dict(arrs), None)
            try:
                out = ModelEval(tree, m, {}, hk).obj_getattr(v, "norm")
                vals = out._attrs.get("_array") if isinstance(out, PyObj) else out
                got = [float(x) for x in vals.vals] if isinstance(vals, CArr) else vals
                ok = isinstance(got, list) and len(got) == len(want) and all((g == g) and (g == w or abs(g - w) < 1e-3) for g, w in zip(got, want))
                detail = "norm = %s (required %s)" % (got, want)
            except (Raised, ProgramRaised) as e:
                ok, detail = False, "raises %s" % e
            run.ob(construct, ok, m.where(), detail, "the norm of a vector of exact zeros is nan (the point is dropped from histograms, sphere selections and sums), or the norm of a "
                   "boolean Vector raises (Datagroup == Datagroup with a Vector member)")
        except ERR as e:
            run.unresolved(construct, m.where(), "cannot fold: %s" % e)


class _NullCtx(Model):
    def __enter__(self):
        return self

    def __exit__(self, *a):
        return False


# =============================================================================== histories of Array operations (state, caches, aliasing)
class _Ref:
    """what an object must denote: physical value, dimension; `cmp`: a comparison result (kind, physical difference)"""

    def __init__(self, value, dims, cmp=None):
        self.value, self.dims, self.cmp = value, dims, cmp


def _dims_add(a, b, sign=1):
    d = dict(a)
    for k, v in b.items():
        d[k] = d.get(k, 0) + sign * v
    return {k: v for k, v in d.items() if v}


HIST_PURE = (("+", "__add__"), ("-", "__sub__"), ("*", "__mul__"), ("/", "__truediv__"), ("<", "__lt__"), ("==", "__eq__"), ("!=", "__ne__"),
             ("<=", "__le__"), (">", "__gt__"), (">=", "__ge__"))
HIST_INPLACE = (("+=", "__iadd__"), ("-=", "__isub__"), ("*=", "__imul__"), ("/=", "__itruediv__"))
_CMP_KIND = {"<": "lt", "==": "eq", "!=": "ne", "<=": "le", ">": "gt", ">=": "ge"}


def array_history_steps(level="quick", family="arith"):
    """(probes, mutators): a probe is a pure operation whose result is checked; a mutator changes state between two probes"""
    xs = ("a", "b")
    ys = ("a", "b", "c", "q", "zero", "two", "z0") if level != "quick" else ("a", "b", "c", "q", "zero", "z0")
    if family == "compare":
        pure = tuple(p for p in HIST_PURE if p[0] in _CMP_KIND and (level != "quick" or p[0] in ("<", ">=", "==", "!=")))
    else:
        pure = tuple(p for p in HIST_PURE if p[0] not in ("<=", ">", ">=")) if level != "quick" else tuple(p for p in HIST_PURE if p[0] in ("+", "*", "/", "<", "=="))
    probes = [("op", sym, x, y) for sym, _ in pure for x in xs for y in ys if not (sym == "/" and y == "zero")]
    if family != "compare":
        probes += [("to", "cm", "a", None), ("to", "m", "b", None), ("rdiv", "2/", "a", None), ("pow", "**2", "a", None)]
    inpl = HIST_INPLACE if level != "quick" else tuple(p for p in HIST_INPLACE if p[0] in ("+=", "*=", "/="))
    muts = [("edit", None, x, None) for x in ("a", "b", "q")] + [("op", sym, x, y) for sym, _ in inpl for x in xs for y in (("a", "b", "c", "q") if level != "quick" else ("b", "c", "q"))]
    muts += [("setunit", "cm", "a", None)]
    return probes, muts


def check_array_history_space(run, tree, level="quick", family="arith"):
    """Sequences probe; mutator; the same probe again - over Arrays a [m], b [cm], c [s], an array-valued Quantity q [cm], the python
    numbers 0 and 2, the same object on both sides.  Reference semantics: every object denotes a physical value (exact rational over
    symbols) and a dimension; a pure operation returns the operation on the quantities (or raises DimensionalityError exactly when a common
    unit is needed and the dimensions differ) and changes nothing; x op= y changes x only; editing a buffer changes that object only.
    After EVERY step every live object is compared with the reference - stale caches (a remembered conversion, a remembered unit
    quantity), operands rescaled in place and identity short-cuts all surface as a disagreement."""
    fi = tree.func("core/array.py::_binary_op")
    run.analysed(fi)
    run.analysed(tree.method(tree.cls(ARRAY_Q), "to"))
    probes, muts = array_history_steps(level, family)
    DIMERR = "DimensionalityError"
    failures = {}
    nseq = [0]

    def fresh():
        hk = stack_hooks(tree)
        objs = {"a": arr(tree, hk, "A", "m"), "b": arr(tree, hk, "B", "cm"), "c": arr(tree, hk, "C", "s"), "q": QQ(RawV(Poly.sym("Q")), UU.parse("cm")), "zero": 0, "two": 2.0,
                "z0": arr(tree, hk, "Z", "cm", shape=())}          # a 0-d Array: falsy under len(), a scalar for numpy
        ref = {n: _Ref(ref_of(o)[0], ref_of(o)[1]) for n, o in objs.items()}
        return hk, objs, ref

    def ref_of(o):
        if isinstance(o, PyObj):
            return phys(o), o._attrs["_unit"].dims()
        if isinstance(o, QQ):
            return o.magnitude.r * o.units.scale(), o.units.dims()
        return rat(o), {}

    def denotes(o):
        if isinstance(o, PyObj):
            v = o._attrs.get("_array")
            if isinstance(v, RawV) and isinstance(v.r, tuple):
                return ("cmp", v.r, o._attrs.get("_unit"))
            return phys(o), o._attrs["_unit"].dims()
        return ref_of(o)

    def check_all(objs, ref, where, problems):
        for n, o in objs.items():
            try:
                got = denotes(o)
            except ERR as e:
                problems.append("%s: %s is no longer a quantity (%s)" % (where, n, e))
                continue
            r = ref[n]
            if r.cmp is not None:
                continue
            if got[0] == "cmp" or not (got[0] == r.value) or got[1] != r.dims:
                problems.append("%s: %s denotes %r %r (required %r %r)" % (where, n, got[0], got[1], r.value, r.dims))

    def expected(step, ref):
        kind, sym, x, y = step
        rx = ref[x]
        if kind == "to":
            if UU.parse(sym).dims() != rx.dims:
                return DIMERR, None
            return _Ref(rx.value, rx.dims), None
        if kind == "rdiv":
            return _Ref(rat(2) / rx.value, _dims_add({}, rx.dims, -1)), None
        if kind == "pow":
            return _Ref(rx.value * rx.value, _dims_add(rx.dims, rx.dims)), None
        ry = ref[y]
        base = sym.rstrip("=") if sym not in _CMP_KIND else sym
        if base in ("+", "-"):
            if rx.dims != ry.dims:
                return DIMERR, None
            return _Ref(rx.value + ry.value if base == "+" else rx.value - ry.value, rx.dims), None
        if base == "*":
            return _Ref(rx.value * ry.value, _dims_add(rx.dims, ry.dims)), None
        if base == "/":
            return _Ref(rx.value / ry.value, _dims_add(rx.dims, ry.dims, -1)), None
        if rx.dims != ry.dims:
            return DIMERR, None
        return _Ref(None, {}, cmp=(_CMP_KIND[sym], rx.value - ry.value)), None

    def run_step(hk, objs, ref, step, tag, problems):
        kind, sym, x, y = step
        label = "%s %s %s" % (x, sym, y) if kind == "op" else {"edit": "edit the buffer of %s" % x, "to": "%s.to(%s)" % (x, sym), "rdiv": "2 / %s" % x, "pow": "%s ** 2" % x, "setunit": "%s.unit = %s" % (x, sym)}[kind]
        where = "%s [%s]" % (tag, label)
        ox = objs[x]
        if kind == "edit":
            new = rat(Poly.sym("E%d" % len(ref)))
            if isinstance(ox, QQ):
                ox.magnitude.r = new
                ref[x] = _Ref(new * ox.units.scale(), ref[x].dims)
            else:
                ox._attrs["_array"].r = new
                ref[x] = _Ref(new * ox._attrs["_unit"].scale(), ref[x].dims)
            for n, o in objs.items():          # objects that ARE x follow it
                if o is ox and n != x:
                    ref[n] = ref[x]
            check_all(objs, ref, where, problems)
            return
        if kind == "setunit":
            m = tree.method(ox._cls, "__init__")
            ModelEval(tree, m, {}, hk).obj_setattr(ox, "unit", sym)
            u = UU.parse(sym)
            ref[x] = _Ref(ox._attrs["_array"].r * u.scale(), u.dims())
            for n, o in objs.items():
                if o is ox and n != x:
                    ref[n] = ref[x]
            check_all(objs, ref, where, problems)
            return
        want, _ = expected(step, ref)
        try:
            if kind == "op":
                dunder = dict(HIST_PURE + HIST_INPLACE)[sym]
                r = binop(tree, hk, ox, dunder, objs[y])
                if isinstance(r, Marker) and r.kind == "builtin" and r.data and r.data[0] == "NotImplemented":
                    raise Raised("TypeError", None, "unsupported operand")
            elif kind == "to":
                m = tree.method(ox._cls, "to")
                r = ModelEval(tree, m, {}, hk).invoke(m, [ox, sym], {}, None)
            elif kind == "rdiv":
                r = binop(tree, hk, ox, "__rtruediv__", 2.0)
            else:
                r = binop(tree, hk, ox, "__pow__", 2)
        except (Raised, ProgramRaised) as e:
            nm = getattr(e, "name", str(e))
            if want != DIMERR or nm != DIMERR:
                problems.append("%s: raises %s (required %s)" % (where, nm, "DimensionalityError" if want == DIMERR else "a result"))
            check_all(objs, ref, where, problems)
            return
        if want == DIMERR:
            problems.append("%s: returns a result for operands of different dimensions (required DimensionalityError)" % where)
            return
        inplace = kind == "op" and sym.endswith("=") and sym not in _CMP_KIND
        if inplace:
            if r is not ox:
                problems.append("%s: x op= y returns another object" % where)
            ref[x] = want
            for n, o in objs.items():
                if o is ox and n != x:
                    ref[n] = want
        else:
            name = "r%d" % len(objs)
            known = next((n for n, o in objs.items() if o is r), None)
            if known is not None:
                # the operation handed back an object it was given (to() into the unit it already has): it must already denote the result
                if want.cmp is None and not (ref[known].value == want.value and ref[known].dims == want.dims):
                    problems.append("%s: returns the operand %s, which denotes something else" % (where, known))
            else:
                objs[name], ref[name] = r, want
                if want.cmp is not None:
                    got = denotes(r)
                    k_l = objs[x]._attrs["_unit"].scale()
                    ok = got[0] == "cmp" and got[1][0] == want.cmp[0] and got[1][1] * k_l == want.cmp[1] and isinstance(got[2], UU) and not got[2].mono
                    if not ok:
                        problems.append("%s: compares %r (required %s of the physical difference %r, dimensionless)" % (where, got[1] if got[0] == "cmp" else got, want.cmp[0], want.cmp[1]))
        check_all(objs, ref, where, problems)

    def sequence(steps):
        nseq[0] += 1
        hk, objs, ref = fresh()
        problems = []
        for i, st in enumerate(steps):
            try:
                run_step(hk, objs, ref, st, "step %d" % (i + 1), problems)
            except ZeroDivisionError:
                return []            # a division by an exact zero (after a -= a): numpy answers inf/nan, outside this algebra
            if problems:
                break
        return problems

    def fmt(st):
        kind, sym, x, y = st
        return "%s %s %s" % (x, sym, y) if kind == "op" else {"edit": "edit(%s)" % x, "to": "%s.to(%s)" % (x, sym), "rdiv": "2/%s" % x, "pow": "%s**2" % x, "setunit": "%s.unit=%s" % (x, sym)}[kind]

    unresolved = {}
    for p in probes:
        for m in [None] + muts:
            steps = (p,) if m is None else (p, m, p)
            key = fmt(p) if m is None else fmt(p) + "; " + fmt(m) + "; " + fmt(p)
            try:
                pr = sequence(steps)
                if pr:
                    failures[key] = pr[0]
            except ERR as e:
                unresolved[key] = str(e)
    # one obligation per probe operator (lists the failing sequences)
    groups = {}
    for p in probes:
        groups.setdefault(p[1] if p[0] == "op" else fmt(p), [])
    for key in list(failures) + list(unresolved):
        first = key.split(";")[0].split()
        g = first[1] if len(first) == 3 else key.split(";")[0]
        groups.setdefault(g, []).append(key)
    for g, keys in groups.items():
        construct = "core/array.py::Array[histories: x %s y; a mutator; the same again]" % g if len(g) <= 2 else "core/array.py::Array[histories: %s; a mutator; the same again]" % g
        bad = [k for k in keys if k in failures]
        unk = [k for k in keys if k in unresolved]
        if unk and not bad:
            run.unresolved(construct, fi.where(), "cannot fold %d sequence(s), e.g. [%s]: %s" % (len(unk), unk[0], unresolved[unk[0]]))
            continue
        run.ob(construct, not bad, fi.where(), ("%d sequence(s) disagree with the quantity algebra, e.g. [%s]: %s" % (len(bad), bad[0], failures[bad[0]])) if bad else
               "every sequence agrees with the algebra of physical quantities after every step",
               "a result depends on an earlier call (a remembered conversion or unit), an operand is rescaled or relabelled by the operation, "
               "a python 0 is given the unit of the other operand, x == x is answered without looking at the values")
    return nseq[0]


def _np_any(x, *a, **k):
    """np.any of an element-wise comparison of symbolic buffers: decided when the physical difference is identically zero (no element
    differs) or a non-zero expression (the generic buffer: some element differs)"""
    if isinstance(x, RawV) and isinstance(x.r, tuple) and x.r[0] in ("ne", "eq"):
        zero = x.r[1] == rat(0)
        return (not zero) if x.r[0] == "ne" else zero
    raise Unsupported("np.any of %r" % (x,))


def check_group_equality_history(run, tree):
    """Datagroup.__eq__ end to end on members held in DIFFERENT units: equal content compares equal, and after the buffer of a member is
    edited in place (dg['pos'].values[i] = x, dg[0:1]['pos'] *= 2 through a view) the next comparison sees the edit - in both orientations"""
    from .core_models import DG_Q
    ci = tree.cls(DG_Q)
    eq = tree.method(ci, "__eq__")
    run.analysed(eq)
    A = rat(Poly.sym("A"))
    # lengths in m / cm, and a pure number written as a fraction / in percent (a dimensionless unit with a size of its own: 50 percent == 0.5)
    for (u1, u2), orient in [(p_, o_) for p_ in (("m", "cm"), ("dimensionless", "percent")) for o_ in ("g1 == g2", "g2 == g1")]:
        km, kcm = UU.parse(u1).scale(), UU.parse(u2).scale()
        construct = DG_Q + ".__eq__[history: members in %s and %s, %s; edit a buffer; compare again]" % (u1 if u1 != "dimensionless" else "plain numbers", u2, orient)
        try:
            hk = stack_hooks(tree)
            hk["ext"]["numpy.any"] = _np_any
            ev = ModelEval(tree, tree.method(ci, "__init__"), {}, hk)
            p1 = arr(tree, hk, "A", u1)
            p2 = arr(tree, hk, RawV(A * km / kcm), u2)         # the same quantities written in the other unit
            g1 = ev.instantiate(ci, [], {"pos": p1}, None)
            g2 = ev.instantiate(ci, [], {"pos": p2}, None)
            l, r = (g1, g2) if orient.startswith("g1") else (g2, g1)
            first = ModelEval(tree, eq, {}, hk).invoke(eq, [l, r], {}, None)
            second = ModelEval(tree, eq, {}, hk).invoke(eq, [l, r], {}, None)
            p2._attrs["_array"].r = rat(Poly.sym("E"))             # an in-place edit through the numpy buffer
            third = ModelEval(tree, eq, {}, hk).invoke(eq, [l, r], {}, None)
            p2._attrs["_array"].r = A * km / kcm
            p1._attrs["_array"].r = rat(Poly.sym("F"))
            fourth = ModelEval(tree, eq, {}, hk).invoke(eq, [l, r], {}, None)
            ok = first is True and second is True and third is False and fourth is False
            run.ob(construct, ok, eq.where(), "equal content: %r, again: %r; after editing the right group's buffer: %r; after editing the left group's buffer: %r (required True, True, False, False)" % (first, second, third, fourth),
                   "two groups holding the same quantity in different units: after dg2['pos'].values[0] = x they still compare equal (a remembered unit conversion of the operand)")
        except (Raised, ProgramRaised) as e:
            run.violated(construct, eq.where(), "raises %s" % e, "Datagroup equality across units")
        except ERR as e:
            run.unresolved(construct, eq.where(), "cannot fold: %s" % e)


def check_array_norm_identity(run, tree):
    """Array.norm is the Array itself (plots send every layer, coordinate and weight through .norm so that Vectors are reduced to their
    magnitude): a scalar quantity must come out with its sign and its unit"""
    ci = tree.cls(ARRAY_Q)
    construct = ARRAY_Q + ".norm[scalar quantity]"
    try:
        hk = stack_hooks(tree)
        a = arr(tree, hk, "A", "m")
        a._attrs["name"] = "density" if "name" in a._attrs else a._attrs.get("name")
        m = tree.method(ci, "norm")
        if m is None:
            run.violated(construct, ci.module.rel, "Array.norm is not defined", "map/histogram layers of Arrays")
            return
        run.analysed(m)
        pa = phys(a)
        try:
            r = ModelEval(tree, m, {}, hk).obj_getattr(a, "norm")
            ok = isinstance(r, PyObj) and phys(r) == pa and r._attrs.get("_unit") == a._attrs.get("_unit") and phys(a) == pa
            detail = "a.norm denotes %r labelled %r (required %r, m)" % (phys(r) if isinstance(r, PyObj) else r, r._attrs.get("_unit") if isinstance(r, PyObj) else None, pa)
        except (Raised, ProgramRaised) as e:
            ok, detail = False, "raises %s" % e
        run.ob(construct, ok, m.where(), detail, "a scalar layer with negative values (a velocity component, a potential) is mapped as its absolute value")
    except ERR as e:
        run.unresolved(construct, ARRAY_Q, "cannot fold: %s" % e)


def check_vector_lifting_stack(run, tree):
    """C09 end to end: `v op y` on a Vector is, component by component, what `v.c op y` gives on the component Arrays - the same values and
    units, or the same refusal - for y a python 0, a python number, an Array, a Quantity, in compatible and incompatible units"""
    vfi = tree.func("core/vector.py::_binary_op")
    run.analysed(vfi)
    OPS = (("+", "__add__"), ("-", "__sub__"), ("*", "__mul__"), ("/", "__truediv__"), ("<", "__lt__"), (">", "__gt__"), ("==", "__eq__"))
    RHS = (("python 0", lambda hk: 0), ("python 0.0", lambda hk: 0.0), ("python 2.5", lambda hk: 2.5), ("Array [cm]", lambda hk: arr(tree, hk, "B", "cm")),
           ("Array [s]", lambda hk: arr(tree, hk, "B", "s")), ("Quantity [cm]", lambda hk: QQ(RawV(Poly.sym("Q")), UU.parse("cm"))), ("Quantity 3 s", lambda hk: QQ(3.0, UU.parse("s"))))

    def outcome(fn):
        try:
            r = fn()
        except (Raised, ProgramRaised) as e:
            return ("raises", getattr(e, "name", str(e)))
        if isinstance(r, Marker) and r.kind == "builtin" and r.data and r.data[0] == "NotImplemented":
            return ("raises", "TypeError")
        return ("value", r)

    def describe(o):
        if o[0] == "raises":
            return "raises " + o[1]
        a = o[1]
        v = a._attrs.get("_array")
        return "%r [%r]" % (v.r if isinstance(v, RawV) else v, a._attrs.get("_unit"))

    INPLACE = (("+=", "__iadd__", "float64"), ("/=", "__itruediv__", "float64"), ("+=", "__iadd__", "int64"), ("*=", "__imul__", "int64"), ("/=", "__itruediv__", "int64"))
    for sym, dunder, dt in INPLACE:
        # the augmented assignment as python runs it (x.__iop__(y), else x op y): what the NAME holds afterwards
        import ast as _ast
        opnode = {"+=": _ast.Add, "*=": _ast.Mult, "/=": _ast.Div}[sym]()
        construct = "core/vector.py::Vector[v [m, %s data] %s y agrees with the components]" % (dt, sym)
        problems, unres = [], None
        for label, mk in [r for r in RHS if not r[0].startswith("python 0")]:
            try:
                res = []
                for whole in (True, False):
                    hk = stack_hooks(tree)
                    v = vec(tree, hk, "V", "m", dtypes={c: dt for c in "xyz"})
                    y = mk(hk)
                    ev = ModelEval(tree, vfi, {}, hk)
                    if whole:
                        o = outcome(lambda: ev.aug_op(None, opnode, v, y))
                        if o[0] != "raises":
                            # another reference to the same Vector (the one a second Datagroup holds): its unit is what its components carry NOW
                            for who, ref in (("an older reference to v", v), ("the name v", o[1])):
                                if isinstance(ref, PyObj) and ref._cls.qual == VECTOR_Q:
                                    cu = {a._attrs.get("_unit") for a in comps_of(tree, hk, ref).values()}
                                    vu = outcome(lambda ref=ref: ev.obj_getattr(ref, "unit"))
                                    if vu[0] == "raises" or len(cu) != 1 or vu[1] != next(iter(cu)):
                                        problems.append("y = %s: after v %s y, %s reports the unit %r while its components carry %r" % (label, sym, who, vu[1], sorted(map(repr, cu))))
                        res.append(o if o[0] == "raises" else ("value", {c: (a._attrs["_array"].r, a._attrs["_array"].dtype.kind, a._attrs.get("_unit")) for c, a in comps_of(tree, hk, o[1]).items()})
                                   if isinstance(o[1], PyObj) and o[1]._cls.qual == VECTOR_Q else ("value", repr(o[1])))
                    else:
                        parts = {}
                        for c, a in comps_of(tree, hk, v).items():
                            o = outcome(lambda a=a: ev.aug_op(None, opnode, a, y))
                            parts[c] = o if o[0] == "raises" else (o[1]._attrs["_array"].r, o[1]._attrs["_array"].dtype.kind, o[1]._attrs.get("_unit"))
                        first = next(iter(parts.values()))
                        res.append(first if isinstance(first, tuple) and first and first[0] == "raises" and all(p == first for p in parts.values()) else ("value", parts))
                if res[0] != res[1]:
                    problems.append("y = %s: the Vector gives %r, its components give %r" % (label, res[0], res[1]))
            except ERR as e:
                unres = "y = %s: %s" % (label, e)
        if unres and not problems:
            run.unresolved(construct, vfi.where(), "cannot fold: %s" % unres)
        else:
            run.ob(construct, not problems, vfi.where(), "; ".join(problems[:2]) or "v %s y leaves v holding what its components hold after c %s y (or refuses alike)" % (sym, sym),
                   "v %s y on integer data: the components refuse (or are rebound to the quotient) but the Vector silently stays unchanged" % sym)
    for sym, dunder in OPS:
        if sym == "/":
            rhs_list = [r for r in RHS if not r[0].startswith("python 0")]
        else:
            rhs_list = RHS
        construct = "core/vector.py::Vector[v [m] %s y agrees with the components]" % sym
        problems, unres = [], None
        for label, mk in rhs_list:
            try:
                hk = stack_hooks(tree)
                v = vec(tree, hk, "V", "m")
                y = mk(hk)
                whole = outcome(lambda: binop(tree, hk, v, dunder, y))
                hk2 = stack_hooks(tree)
                v2 = vec(tree, hk2, "V", "m")
                y2 = mk(hk2)
                parts = {c: outcome(lambda a=a: binop(tree, hk2, a, dunder, y2)) for c, a in comps_of(tree, hk2, v2).items()}
                if whole[0] == "raises":
                    if not all(p == whole for p in parts.values()):
                        problems.append("y = %s: the Vector %s but the components give %s" % (label, describe(whole), {c: describe(p) for c, p in parts.items()}))
                    continue
                if not (isinstance(whole[1], PyObj) and whole[1]._cls.qual == VECTOR_Q):
                    problems.append("y = %s: returns %r" % (label, whole[1]))
                    continue
                got = comps_of(tree, hk, whole[1])
                for c, p in parts.items():
                    g = got.get(c)
                    same = p[0] == "value" and g is not None and isinstance(g._attrs.get("_array"), RawV) and g._attrs["_array"].r == p[1]._attrs["_array"].r and g._attrs.get("_unit") == p[1]._attrs.get("_unit")
                    if not same:
                        problems.append("y = %s: component %s of the Vector result is %s but v.%s %s y %s" % (label, c, describe(("value", g)) if g is not None else "missing", c, sym, describe(p)))
                        break
            except ERR as e:
                unres = "y = %s: %s" % (label, e)
        if unres and not problems:
            run.unresolved(construct, vfi.where(), "cannot fold: %s" % unres)
            continue
        run.ob(construct, not problems, vfi.where(), "; ".join(problems[:2]) or "same values, units and refusals as the component Arrays for %d operand kinds" % len(rhs_list),
               "v %s y and (v.x %s y, v.y %s y, ...) disagree for some operand kind: one converts or accepts what the other refuses (a bare 0 against a length)" % (sym, sym, sym))


def check_dot_shapes(run, tree):
    """Vector.dot / cross on operands of different rank: (2,3) . (3,), (3,) . (2,3), (2,3) . () broadcast like the component products do"""
    vi = tree.cls(VECTOR_Q)
    m = tree.method(vi, "dot")
    run.analysed(m)
    km, kcm = rat(Poly.sym("k_m")), rat(Poly.sym("k_cm"))

    def mk(hk, tag, unit, shape):
        comps = {c: arr(tree, hk, tag + c, unit, shape=shape) for c in "xyz"}
        return ModelEval(tree, tree.method(vi, "__init__"), {}, hk).instantiate(vi, [], dict(comps), None)
    def mk_late(hk, tag, unit, shape):
        # built from x alone; z attached first, then y (client code that fills components as they become available)
        v = ModelEval(tree, tree.method(vi, "__init__"), {}, hk).instantiate(vi, [], {"x": arr(tree, hk, tag + "x", unit, shape=shape)}, None)
        ev = ModelEval(tree, tree.method(vi, "__init__"), {}, hk)
        ev.obj_setattr(v, "z", arr(tree, hk, tag + "z", unit, shape=shape))
        ev.obj_setattr(v, "y", arr(tree, hk, tag + "y", unit, shape=shape))
        return v
    for sa_, sb_ in (((2, 3), (3,)), ((3,), (2, 3)), ((2, 3), ()), ((4, 2, 3), (2, 3)), ((1, 4), (4,)), ((2, 5), (5,)), ((3,), (3,)), ((3,), "late")):
        late = sb_ == "late"
        sb_ = sa_ if late else sb_
        construct = "%s.dot[shapes %s . %s%s]" % (VECTOR_Q, sa_, sb_, "; the left Vector had z attached before y" if late else "")
        try:
            hk = stack_hooks(tree)
            a, b = (mk_late if late else mk)(hk, "A", "m", sa_), mk(hk, "B", "cm", sb_)
            want_shape = bshape(sa_, sb_)
            want = rat(0)
            for c in "xyz":
                want = want + rat(Poly.sym("A" + c)) * km * rat(Poly.sym("B" + c)) * kcm
            try:
                r = ModelEval(tree, m, {}, hk).invoke(m, [a, b], {}, None)
                v = r._attrs.get("_array") if isinstance(r, PyObj) else None
                ok = isinstance(v, RawV) and tuple(v.shape) == want_shape and phys(r) == want
                detail = "shape %s, denotes %r (required shape %s, %r)" % (getattr(v, "shape", None), phys(r) if isinstance(r, PyObj) else r, want_shape, want)
            except (Raised, ProgramRaised) as e:
                ok, detail = tuple(sa_) != want_shape and len(sa_) < len(sb_) and False, "raises %s" % e
                # the accumulator has the shape of the LEFT operand: a left operand of lower rank cannot hold the broadcast result (numpy refuses);
                # that is the behaviour of the pinned code and is reported as what it is
                if bshape(sa_, sb_) != tuple(sa_):
                    run.holds(construct, m.where(), "refused (%s): the left operand has the lower rank" % getattr(e, "name", e), nontrivial=False)
                    continue
            run.ob(construct, ok, m.where(), detail, "a . b with b of lower rank than a ((2,3) . (3,)) raises although every component product broadcasts")
        except ERR as e:
            run.unresolved(construct, m.where(), "cannot fold: %s" % e)
