"""A memoised function may not read the environment: functools.lru_cache / functools.cache remember the result per ARGUMENT values for the life
of the process, so a body that lists a directory, opens a file or reads the clock returns what the environment was at the first call.
Effect rule over the resolved call graph (transitive through package callees), with a positive fixture so that it cannot pass vacuously."""
from __future__ import annotations

import ast

from ..source import SourceTree, walk_no_nested

MEMO = ("functools.lru_cache", "functools.cache", "functools.cached_property")
ENV_READS = ("glob.glob", "glob.iglob", "os.listdir", "os.scandir", "os.walk", "os.stat", "os.getcwd", "os.path.exists", "os.path.isfile", "os.path.isdir",
             "os.path.getsize", "os.path.getmtime", "time.time", "os.environ.get", "os.getenv", "numpy.loadtxt", "numpy.fromfile", "numpy.load", "numpy.genfromtxt")
FIXTURE = '''
import glob
from functools import lru_cache

@lru_cache(maxsize=None)
def last_output(path):
    return sorted(glob.glob(path + "/output*"))[-1]

@lru_cache(maxsize=None)
def pure(n):
    return n * 2
'''


def is_memoised(tree, fi):
    for d in fi.node.decorator_list:
        f = d.func if isinstance(d, ast.Call) else d
        if tree.dotted(fi.module, f) in MEMO:
            return True
    return False


def env_reads(tree, fi, seen=None, depth=0):
    """[(function, call node, what)] environment reads reachable from fi through package calls"""
    seen = seen if seen is not None else set()
    if fi.qual in seen or depth > 6:
        return []
    seen.add(fi.qual)
    out = []
    for n in walk_no_nested(fi.node):
        if isinstance(n, ast.Call):
            d = tree.dotted(fi.module, n.func)
            if d in ENV_READS:
                out.append((fi, n, d))
            elif isinstance(n.func, ast.Name) and n.func.id == "open" and tree.resolve_name(fi.module, "open") is None:
                out.append((fi, n, "open"))
            else:
                try:
                    callee = tree.resolve_call(fi, n)
                except Exception:
                    callee = None
                if callee is not None and hasattr(callee, "node") and hasattr(callee, "qual") and isinstance(callee.node, ast.FunctionDef):
                    out += env_reads(tree, callee, seen, depth + 1)
    return out


def check_memoised_functions(run, tree, modules=None):
    """every memoised function of the package (restricted to `modules` prefixes when given) depends on its arguments only"""
    n = 0
    for fi in tree.all_functions():
        if modules and not any(fi.module.rel.startswith(m) for m in modules):
            continue
        if not is_memoised(tree, fi):
            continue
        n += 1
        reads = env_reads(tree, fi)
        run.analysed(fi)
        run.ob("%s::memoised-function-reads-only-its-arguments" % fi.qual, not reads, fi.where(reads[0][1]) if reads and reads[0][0] is fi else fi.where(),
               "memoised per argument values; its body reads %s" % (", ".join("%s (in %s)" % (w, f.qual) for f, _, w in reads[:3]) if reads else "nothing but its arguments"),
               "the answer of the first call is returned for ever: a newer output in the same directory, a re-written info file or another run behind the same relative path is never seen")
    # positive fixture: the rule must recognise the construct it looks for (a rule with nothing to match would pass vacuously)
    import os
    import tempfile
    d = tempfile.mkdtemp(prefix="memofix")
    try:
        os.makedirs(os.path.join(d, "src", "osyris"))
        open(os.path.join(d, "src", "osyris", "__init__.py"), "w").write("")
        open(os.path.join(d, "src", "osyris", "fix.py"), "w").write(FIXTURE)
        ft = SourceTree(d)
        got = {fi.name: bool(env_reads(ft, fi)) for fi in ft.all_functions() if is_memoised(ft, fi)}
        run.ob("memo-rule::positive-fixture", got == {"last_output": True, "pure": False}, "sa/rules/memo_rules.py",
               "fixture: %s (required: the directory-listing function flagged, the pure one not)" % got, "", nontrivial=False)
    finally:
        import shutil
        shutil.rmtree(d, ignore_errors=True)
    return n
