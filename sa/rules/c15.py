"""C15 — the outcome of load() does not depend on earlier loads on the same dataset."""
from __future__ import annotations


EXPLANATION = '(R1/R2) reader.initialize histories for every reader class (selected with files -> switched off -> selected without files): initialised exactly when selected and present, the AMR reader drops the cpu list of an earlier load; descriptor_to_variables rebuilds every record (no pieces of an earlier load); (R3) two consecutive loads on ONE Loader object (different selection and cpu list): the second is unaffected by the first (selection, level cap, counters, pieces, output objects); (R4) offsets zeroed and bytes replaced before every header of every file; (R5) the sink group is parsed anew on every load. (R6) the Hilbert pre-selection folded three times in one process: axes without a predicate span the whole box every time (module-level objects persist across the calls). (R7) predicates are those of this call; (R8) memoised functions read only their arguments. (R9) RamsesDataset.load folded over histories of calls returning different variable sets for the same group: a load replaces the groups it produces, nothing of the replaced group survives. (R10) the derived-variable hook leaves every loaded variable untouched (shared with C01.R11).'
NOT_DECIDED = 'state kept by numba/matplotlib; file-system races'
TRUSTED = ('CPython ast', 'the interpreter sa/models.py (ModelEval) and its library models')
TECHNIQUE = 'static analysis: history folding (sequences of calls on one object) of the loader and readers over recording models'

from . import loader_folds as lfold
from . import io_folds as iof


def r1(run, tree):
    run.rule("C15.R1", "definite reset of consulted reader state", "D7 history folds of reader.initialize and of Loader.load (two loads on one Loader)", "", floor=1)
    iof.check_reader_initialize(run, tree)
    lfold.check_load(run, tree)


def r2(run, tree):
    run.rule("C15.R2", "per-call re-initialisation of every reader", "D7 history folds of reader.initialize and Reader.descriptor_to_variables", "", floor=10)
    iof.check_reader_initialize(run, tree)
    iof.check_descriptor_to_variables(run, tree)


def r3(run, tree):
    run.rule("C15.R3", "shared meta reset; groups replaced; per-call containers (two-load history on one Loader)", "D7 fold of Loader.load over recording readers on 9 scenarios + a two-load history, compared with the traversal specification", "", floor=10)
    lfold.check_load(run, tree)


def r4(run, tree):
    run.rule("C15.R4", "per-file reset: offsets zeroed and bytes replaced before every header", "D7 fold of Loader.load over recording readers on 9 scenarios + a two-load history, compared with the traversal specification", "", floor=10)
    lfold.check_load(run, tree)


def r_shared_c15_r5(run, tree):
    run.rule("C15.R5", "the sink group is parsed anew on every load (no object shared between loads)", "D7 folds (shared)", "", floor=1)
    iof.check_sink(run, tree)


def r6_preselection_history(run, tree):
    run.rule("C15.R6", "the CPU pre-selection of a load does not depend on the selections of earlier loads: hilbert_cpu_list folded three times in one process "
             "(predicates on x, y, z; then on y only; then on z and x) - axes without a predicate span the whole box every time (shared with C04)", "D7 history fold of io/hilbert.py::hilbert_cpu_list (module-level objects persist across the calls)", "", floor=3)
    from . import hilbert_folds as hf
    hf.check_hilbert_cpu_list_fold(run, tree)


def r7_conditions(run, tree):
    run.rule("C15.R7", "the cell predicates applied by a load are those of THIS call: make_conditions evaluates the select it is given on the current buffers (folded for several select forms "
             "in sequence on one reader; shared with C01/C04/C12)", "D7 folds of the readers' make_conditions", "", floor=3)
    from . import layout_folds as lay
    lay.check_leaf_rule(run, tree)


def r_memo(run, tree):
    run.rule("C15.R8", "no memoised function on the loading path reads the environment (directory listings, files, clock): which output is the last one, and what a file holds, is looked up at every load",
             "effect rule over the resolved call graph (functools.lru_cache / cache) with a positive fixture", "", floor=1)
    from .memo_rules import check_memoised_functions
    check_memoised_functions(run, tree, modules=("io/", "config/", "units/", "core/dataset"))


def r9_dataset_level(run, tree):
    run.rule("C15.R9", "at the dataset level a load REPLACES the groups it produces: RamsesDataset.load folded over histories of calls returning different variable sets for "
             "the same group - nothing of the replaced group survives, earlier groups are kept, the derived-variable hook runs after every load", "D7 history fold of io/ramses.py::RamsesDataset.load on the interpreted Dataset/Datagroup classes", "", floor=4)
    iof.check_dataset_load_history(run, tree)


def r10_derived(run, tree):
    run.rule("C15.R10", "the derived-variable hook runs on the whole dataset after EVERY load: it leaves every loaded variable untouched (no arithmetic in place in a loaded buffer), "
             "so groups kept from earlier calls do not drift from load to load (shared with C01.R11)", "D7 fold of config/defaults.py::additional_variables over input sets", "", floor=4)
    iof.check_derived_variables(run, tree)


RULES = [r_shared_c15_r5, r1, r2, r3, r4, r6_preselection_history, r7_conditions, r_memo, r9_dataset_level, r10_derived]


def t_load_space(run, tree):
    run.rule("C15.T1", "thorough: Loader.load folded over 324 scenarios (ndim 1-3 x ncpu 1-3 x levelmax 2-4 x nboundary 0-2 x level predicate x explicit cpu_list, with empty blocks) "
             "and compared with the traversal specification", "D7 fold of Loader.load over recording readers", "S1 traversal", floor=3)
    lfold.check_load_space(run, tree)


THOROUGH_RULES = [t_load_space]
