"""C15 — the outcome of load() does not depend on earlier loads on the same dataset."""
from __future__ import annotations

from . import io_rules as io
from . import io_rules2 as io2
from . import loader_rules as lr

EXPLANATION = (
    "Static rules on the state that survives between load() calls (the Loader, its reader objects and the shared meta dict): "
    "(R1) definite reset: every reader attribute that Loader.load reads without an `initialized` guard (computed from the "
    "AST: today readers['amr'].cpu_list) is assigned on EVERY path through the corresponding initialize(); (R2) per-call "
    "re-initialisation: `self.initialized = False` is the first effect of every reader's initialize, the off-switch returns "
    "before anything else, descriptor_to_variables replaces every record with a fresh one (empty pieces); (R3) shared meta: "
    "meta['lmax'] is assigned unconditionally at the start of every load, ncells/nparticles are reset on the paths that can "
    "accumulate and the other paths cannot accumulate (lmax = 0, cpu_list = []); (R4) per-file reset of offsets and bytes "
    "before the header is read (protocol skeleton); (R5) returned groups replace stored ones; outputs and selections are "
    "rebuilt per call; (R6) all mesh readers share one activation guard.")
NOT_DECIDED = ("equality with a fresh dataset as data (follows if no state leaks: the rules enumerate the state that exists today; "
               "a new attribute read by load() without a guard is picked up by R1 automatically)")
TRUSTED = ("CPython ast",)
TECHNIQUE = "static analysis: definite-assignment on all paths, dominance/ordering rules on the shared state"

from . import loader_folds as lfold
from . import io_folds as iof


def r1(run, tree):
    run.rule("C15.R1", "definite reset of consulted reader state", "definite assignment over all paths", "", floor=1)
    iof.check_reader_initialize(run, tree)
    lfold.check_load(run, tree)


def r2(run, tree):
    run.rule("C15.R2", "per-call re-initialisation of every reader", "path rule", "", floor=10)
    iof.check_reader_initialize(run, tree)
    iof.check_descriptor_to_variables(run, tree)


def r3(run, tree):
    run.rule("C15.R3", "shared meta reset; groups replaced; per-call containers (two-load history on one Loader)", "D7 fold of Loader.load over recording readers on 9 scenarios + a two-load history, compared with the traversal specification", "", floor=10)
    lfold.check_load(run, tree)


def r4(run, tree):
    run.rule("C15.R4", "per-file reset: offsets zeroed and bytes replaced before every header", "D7 fold of Loader.load over recording readers on 9 scenarios + a two-load history, compared with the traversal specification", "", floor=10)
    lfold.check_load(run, tree)


def r_shared_c15_r5(run, tree):
    run.rule("C15.R5", "the sink group is parsed anew on every load (no object shared between loads)", "D7 folds (shared)", "", floor=1)
    iof.check_sink(run, tree)


RULES = [r_shared_c15_r5, r1, r2, r3, r4]
