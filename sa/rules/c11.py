"""C11 — thick maps reduce the sampled column and scale units consistently."""
from __future__ import annotations

import ast
from fractions import Fraction as F

from ..peval import Unsupported
from ..poly import Poly, Rat, S, Fn
from ..source import norm, const_value, walk_no_nested, FuncInfo
from . import map_rules as mr
from .common import is_name, params, calls_in
from .kernel_rules import run_kernel, KERNEL

EXPLANATION = (
    "The reduced numbers themselves are NOT decided. Decided necessary conditions: (R1/R2) in thick mode every mask that "
    "narrows the cell set depends on the cell size AND on dz and is not FALSE in the large-cell limit (a slab thinner than "
    "the cells it cuts, a column deeper than the window); (R3) the reduction acts on axis 1, which is the depth position "
    "of the kernel's output shape (layers, nz, ny, nx), and uses each layer's merged operation; the kernel's depth window "
    "uses the same conservative half-extent as x and y; (R4) for every layer the values are multiplied by the depth step "
    "and the unit by the length unit under ONE guard (thick and operation in {sum, nansum}); (R5) depth grid formulas as "
    "polynomial identities: zmin,zmax = -/+dz/2, zspacing = (zmax-zmin)/nz, centres = linspace(zmin+zspacing/2, "
    "zmax-zspacing/2, nz), default nz = round((zmax-zmin)/((xspacing+yspacing)/2)).")
NOT_DECIDED = "the reduced numbers; NaN propagation of each numpy reduction; dz smaller than a pixel (outside the quantifier)"
TRUSTED = ("CPython ast", "numpy reduction semantics (axis=)", "kernel rules of C03")
TECHNIQUE = ("static analysis: dependence and asymptotic-limit analyses under the thick-mode specialisation, symbolic kernel "
             "evaluation, formula identities, guard agreement")

MAP = mr.MAP

from . import map_folds as mf


def r1_r2(run, tree):
    run.rule("C11.R1", "slab pre-selection depends on cell size and dz; large-cell limit", "D4 + D5 (mode thick)", "", floor=6)
    mr.check_preselection(run, tree, [mr.MODES[1]])


def r3(run, tree):
    run.rule("C11.R3", "reduction along the depth axis of the kernel output with each layer's own operation; values and unit scaled by the depth "
             "spacing exactly for thick sum/nansum; kernel depth window", "D7 fold of map() + D1 symbolic kernel shape", "", floor=4)
    fi = tree.func(MAP)
    try:
        kfi, ev, env = run_kernel(tree, 3)
        out = env.get("out")
        shape = [repr(x) for x in out[1]]
        nz_pos = shape.index("grid_positions_in_original_basis.shape[0]")
    except Exception as e:
        run.unresolved(MAP + "::reduction-axis", fi.where(), "cannot locate the depth axis of the kernel output: %s" % e)
        return
    mf.check_map(run, tree, aspects=("rendered",), depth_axis=nz_pos - 1)
    mr.check_kernel_footprint(run, tree)


def r5(run, tree):
    run.rule("C11.R5", "depth grid: window [-dz/2, dz/2], spacing dz/nz, nz given or round(dz / mean pixel size), only when missing; caller's "
             "resolution dict untouched", "D7 fold of map() + D1 on scalars", "", floor=4)
    mf.check_map(run, tree, aspects=("geometry", "inputs"))


def r_layer_views(run, tree):
    from . import layer_folds as lf
    run.rule("C11.R6", "component views and copies of a Layer keep its operation and options (shared with C19): map(layer.x) is reduced with the layer's operation",
             "D7 fold of the Layer class", "", floor=4)
    lf.check_layer_copies(run, tree)


RULES = [r_layer_views, r1_r2, r3, r5]
