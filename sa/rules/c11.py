"""C11 — thick maps reduce the sampled column and scale units consistently."""
from __future__ import annotations

import ast
from fractions import Fraction as F

from . import map_rules as mr
from .kernel_rules import run_kernel, run_kernel_paths

EXPLANATION = "(R1) slab pre-selection of map(): dependence on cell size and dz (D4) and large-cell limit (D5) in thick mode; (R3/R5) map() interpreted over token layers with symbolic numpy values in thin, thick(nz given) and thick(nz derived) scenarios: each layer reduced along the depth axis of the kernel output (axis located by the symbolic kernel evaluation) with its OWN operation, values and unit scaled by the depth spacing exactly for thick sum/nansum, depth window [-dz/2, dz/2], spacing dz/nz with nz given or round(dz / mean pixel size), depth sample points = bin centres, caller's resolution dict untouched; kernel footprint along z; (R6) Layer component views keep the operation (shared with C19). The same Layer objects handed to two map() calls with different call-level operations are reduced by each call's own (R3). (R7) kernel containment and thread-private buffers (shared with C03). The output buffer of the kernel must be floating whatever the layers hold (no NaN in an integer buffer). Value tests inside the kernel (np.isnan of a cell value) become guard terms that the containment rule rejects."
NOT_DECIDED = 'numerical quadrature error of the depth sum; floating-point rounding of the depth grid'
TRUSTED = ('CPython ast', 'numpy reduction semantics', 'the interpreter sa/models.py (ModelEval) and its library models', 'sa/symnp.py')
TECHNIQUE = 'static analysis: abstract interpretation of map() over symbolic numpy values, dependence/limit analyses, symbolic kernel evaluation'

MAP = mr.MAP

from . import map_folds as mf


def r1_r2(run, tree):
    run.rule("C11.R1", "slab pre-selection depends on cell size and dz; large-cell limit", "D4 + D5 (mode thick)", "", floor=6)
    mr.check_preselection(run, tree, [mr.MODES[1]])


def r3(run, tree):
    run.rule("C11.R3", "reduction along the depth axis of the kernel output with each layer's own operation; values and unit scaled by the depth "
             "spacing exactly for thick sum/nansum; kernel depth window", "D7 fold of map() + D1 symbolic kernel shape", "", floor=4)
    fi = tree.func(MAP)
    try:
        _, kfi, ev, env = run_kernel_paths(tree, 3)[0]
        out = env.get("out")
        shape = [repr(x) for x in out[1]]
        nz_pos = shape.index("grid_positions_in_original_basis.shape[0]")
    except Exception as e:
        run.unresolved(MAP + "::reduction-axis", fi.where(), "cannot locate the depth axis of the kernel output: %s" % e)
        return
    mf.check_map(run, tree, aspects=("rendered",), depth_axis=nz_pos - 1)
    mf.check_map_history(run, tree)
    mr.check_kernel_footprint(run, tree)


def r5(run, tree):
    run.rule("C11.R5", "depth grid: window [-dz/2, dz/2], spacing dz/nz, nz given or round(dz / mean pixel size), only when missing; caller's "
             "resolution dict untouched", "D7 fold of map() + D1 on scalars", "", floor=4)
    mf.check_map(run, tree, aspects=("geometry", "inputs"))


def r_layer_views(run, tree):
    from . import layer_folds as lf
    run.rule("C11.R6", "component views and copies of a Layer keep its operation and options (shared with C19): map(layer.x) is reduced with the layer's operation",
             "D7 fold of the Layer class", "", floor=4)
    lf.check_layer_copies(run, tree)


def r7_kernel(run, tree):
    run.rule("C11.R7", "the kernel that samples the column writes every sample from its own cell under containment, with no buffer shared between threads (shared with C03.R1/R2)",
             "D1 symbolic kernel evaluation + parallel-loop write classification", "", floor=2)
    mr.check_kernel_containment(run, tree)
    mr.check_kernel_schedule(run, tree)


RULES = [r_layer_views, r1_r2, r3, r5, r7_kernel]


def t_map_space(run, tree):
    run.rule("C11.T1", "thorough: map() folded over 60 scenarios (thin / thick x every ordered pair of the layer operations mean, sum, nansum, max, min x the forms of the resolution dict): "
             "slots, rendered layers, geometry and inputs as in the quick tier", "D7 fold of plot/map.py::map with token layers and symbolic numpy values", "", floor=100)
    mf.check_map(run, tree, scenarios=mf.thorough_scenarios())


THOROUGH_RULES = [t_map_space]
