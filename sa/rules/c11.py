"""C11 — thick maps reduce the sampled column and scale units consistently."""
from __future__ import annotations

import ast
from fractions import Fraction as F

from ..peval import Unsupported
from ..poly import Poly, Rat, S, Fn
from ..source import norm, const_value, walk_no_nested, FuncInfo
from . import map_rules as mr
from .common import is_name, params, calls_in
from .kernel_rules import run_kernel, KERNEL

EXPLANATION = (
    "The reduced numbers themselves are NOT decided. Decided necessary conditions: (R1/R2) in thick mode every mask that "
    "narrows the cell set depends on the cell size AND on dz and is not FALSE in the large-cell limit (a slab thinner than "
    "the cells it cuts, a column deeper than the window); (R3) the reduction acts on axis 1, which is the depth position "
    "of the kernel's output shape (layers, nz, ny, nx), and uses each layer's merged operation; the kernel's depth window "
    "uses the same conservative half-extent as x and y; (R4) for every layer the values are multiplied by the depth step "
    "and the unit by the length unit under ONE guard (thick and operation in {sum, nansum}); (R5) depth grid formulas as "
    "polynomial identities: zmin,zmax = -/+dz/2, zspacing = (zmax-zmin)/nz, centres = linspace(zmin+zspacing/2, "
    "zmax-zspacing/2, nz), default nz = round((zmax-zmin)/((xspacing+yspacing)/2)).")
NOT_DECIDED = "the reduced numbers; NaN propagation of each numpy reduction; dz smaller than a pixel (outside the quantifier)"
TRUSTED = ("CPython ast", "numpy reduction semantics (axis=)", "kernel rules of C03")
TECHNIQUE = ("static analysis: dependence and asymptotic-limit analyses under the thick-mode specialisation, symbolic kernel "
             "evaluation, formula identities, guard agreement")

MAP = mr.MAP


def r1_r2(run, tree):
    run.rule("C11.R1", "slab pre-selection depends on cell size and dz; large-cell limit", "D4 + D5 (mode thick)", "", floor=6)
    mr.check_preselection(run, tree, [mr.MODES[1]])


def r3(run, tree):
    run.rule("C11.R3", "reduction axis agreement; per-layer operation; kernel depth window", "axis labels + D1", "", floor=4)
    fi = tree.func(MAP)
    run.analysed(fi)
    red = []
    for c in calls_in(fi.node):
        if isinstance(c.func, ast.Call) and is_name(c.func.func, "getattr") and len(c.func.args) == 2 and \
                tree.dotted(fi.module, c.func.args[0]) == "numpy":
            red.append(c)
    if not red:
        run.violated(MAP + "::reduction", fi.where(), "no getattr(np, <operation>)(..., axis=...) call", "thick maps are not reduced")
        return
    # position of nz in the kernel's output
    try:
        kfi, ev, env = run_kernel(tree, 3)
        out = env.get("out")
        shape = [repr(x) for x in out[1]]
        nz_pos = shape.index("grid_positions_in_original_basis.shape[0]")
        # grid_positions is indexed [k, j, i]; k is the depth loop (paired with the z arrays by C03.R3)
    except Exception as e:
        run.unresolved(MAP + "::reduction-axis", fi.where(), "cannot locate the depth axis of the kernel output: %s" % e)
        return
    for c in red:
        ax = next((const_value(k.value) for k in c.keywords if k.arg == "axis"), None)
        run.ob(MAP + "::reduction-axis", ax == nz_pos, fi.where(c), "reduces along axis %r; the depth axis of the kernel output is %d" % (ax, nz_pos),
               "the reduction collapses the layer or a pixel axis instead of the depth")
        opn = norm(c.func.args[1])
        run.ob(MAP + "::reduction-uses-layer-operation", opn.startswith("operations[") or ".operation" in opn, fi.where(c),
               "operation expression: %s" % opn, "a layer-level operation is ignored in the depth reduction")
    # the data handed to the reduction is the kernel output
    mr.check_kernel_footprint(run, tree)


def r4(run, tree):
    run.rule("C11.R4", "values and unit scaled under one guard, per layer", "sibling agreement", "", floor=2)
    fi = tree.func(MAP)
    found = False
    for n in walk_no_nested(fi.node):
        if not isinstance(n, ast.If):
            continue
        t = norm(n.test)
        val_scaled = [s for s in ast.walk(n) if isinstance(s, ast.AugAssign) and isinstance(s.op, ast.Mult) and norm(s.value) == "zspacing"]
        unit_scaled = [s for s in ast.walk(n) if isinstance(s, ast.Assign) and "['unit']" in norm(s.targets[0]) and "dataz.unit" in norm(s.value)]
        if val_scaled or unit_scaled:
            found = True
            both = bool(val_scaled) and bool(unit_scaled)
            guard_ok = "thick" in t and "sum" in t and "nansum" in t
            run.ob(MAP + "::depth-scaling-one-guard", both, fi.where(n), "under `%s`: values scaled=%s unit scaled=%s" % (t, bool(val_scaled), bool(unit_scaled)),
                   "a column density whose numbers are multiplied by dz but labelled with the volume unit (or vice versa)")
            run.ob(MAP + "::depth-scaling-guard", guard_ok, fi.where(n), "guard `%s`" % t,
                   "mean/min/max maps are multiplied by the depth step, or sum maps are not")
            # per layer: the statements index the layer
            per_layer = all("[ind]" in norm(s.targets[0]) or "[ind]" in norm(s.value) for s in unit_scaled) and "operations[" in t
            run.ob(MAP + "::depth-scaling-per-layer", per_layer, fi.where(n), "scaling applies to the layer being reduced: %s" % per_layer,
                   "one layer's operation decides the unit of all layers")
            same_target = all(isinstance(s.target, ast.Name) for s in val_scaled)
    if not found:
        run.violated(MAP + "::depth-scaling", fi.where(), "no depth scaling of values/unit found", "sum over depth is not an integral")
    # other (non-sum) scaling sites must not exist
    stray = [s for s in walk_no_nested(fi.node) if isinstance(s, ast.AugAssign) and norm(s.value) == "zspacing"]
    run.ob(MAP + "::single-scaling-site", len(stray) == 1, fi.where(), "%d statements scale by zspacing" % len(stray),
           "values scaled twice or under another condition")


def r5(run, tree):
    run.rule("C11.R5", "depth grid formulas", "D1 polynomial identities", "", floor=4)
    mr.check_grid_formulas(run, tree, "z")
    fi = tree.func(MAP)
    # zmin / zmax
    zmin = [s for s in mr.find_assign(fi, "zmin") if "dz" in norm(s.value)]
    zmax = [s for s in mr.find_assign(fi, "zmax") if "dz" in norm(s.value)]
    dzm = S("dzm")
    ok = False
    if len(zmin) == 1 and len(zmax) == 1:
        try:
            env = {"dz.magnitude": dzm}
            a = mr.FormulaEval(tree, fi, env).ev(zmin[0].value)
            env["zmin"] = a
            b = mr.FormulaEval(tree, fi, env).ev(zmax[0].value)
            ok = a == dzm * F(-1, 2) and b == dzm * F(1, 2)
            detail = "zmin = %r, zmax = %r" % (a, b)
        except Unsupported as e:
            detail = "cannot evaluate: %s" % e
    else:
        detail = "assignments not found"
    run.ob(MAP + "::depth-range", ok, fi.where(zmin[0]) if zmin else fi.where(), detail, "the sampled column is not [-dz/2, dz/2]")
    # default depth resolution
    dflt = [s for s in walk_no_nested(fi.node) if isinstance(s, ast.Assign) and norm(s.targets[0]) == "resolution['z']"]
    ok = False
    detail = "assignment of the default depth resolution not found"
    if len(dflt) == 1:
        env = {"zmin": S("zmin"), "zmax": S("zmax"), "xspacing": S("xs"), "yspacing": S("ys")}
        try:
            v = mr.FormulaEval(tree, fi, env).ev(dflt[0].value)
            want = Rat(S("zmax") - S("zmin")) / Rat((S("xs") + S("ys")) * F(1, 2))
            ok = isinstance(v, Fn) and v.name == "round" and Rat.lift(v.args[0]) == want
            detail = "default nz = %r" % (v,)
        except Unsupported as e:
            detail = "cannot evaluate: %s" % e
        guarded = False
        from ..flow import guards_of
        g = guards_of(fi.node, dflt[0]) or []
        guarded = any(norm(t) == "'z' not in resolution" and pol for t, pol in g) and any(norm(t) == "thick" and pol for t, pol in g)
        run.ob(MAP + "::depth-resolution-only-when-missing", guarded, fi.where(dflt[0]), "default applied under %s" % [norm(t) for t, _ in g],
               "a depth resolution given by the caller is overridden")
    run.ob(MAP + "::default-depth-resolution", ok, fi.where(dflt[0]) if dflt else fi.where(), detail,
           "the depth step is not matched to the pixel size")


RULES = [r1_r2, r3, r4, r5]
