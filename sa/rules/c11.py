"""C11 — rules not implemented yet (fail closed)."""
EXPLANATION = "not implemented"
NOT_DECIDED = "everything"


def not_implemented(run, tree):
    run.rule("C11.R0", "stub")
    run.unresolved("stub", "", "rules for C11 are not implemented yet")


RULES = [not_implemented]
