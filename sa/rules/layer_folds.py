"""Folds of core/layer.py::Layer (interpreted), plot/parser.py::parse_layer and get_norm over option tokens."""
from __future__ import annotations

from ..models import ModelEval, PyObj, Raised
from ..peval import Model, Unsupported, ProgramRaised
from ..source import AnalysisError
from .core_models import ArrTok, core_hooks, make_vector, vector_components

ERR = (Unsupported, AnalysisError)
LAYER_Q = "core/layer.py::Layer"
OPTION_FIELDS = ["mode", "operation", "norm", "vmin", "vmax", "bins", "weights"]


def make_layer(tree, hooks, lv, data=None, extra=None):
    ci = tree.cls(LAYER_Q)
    ev = ModelEval(tree, tree.method(ci, "__init__"), {}, hooks)
    data = data if data is not None else ArrTok("D", "m", (4,), "d")
    lvd = lv if isinstance(lv, dict) else {f: lv for f in OPTION_FIELDS}
    kwargs = {f: (None if lvd[f] is None else ("L:" + f if lvd[f] == "set" else lvd[f])) for f in OPTION_FIELDS}
    kwargs.update(extra if extra is not None else {"a": "L"})
    kwargs["aux"] = {"w": ArrTok("W", "g", (4,), "w")}
    return ev.instantiate(ci, [data], kwargs, None), ev


def layer_state(l):
    return {"fields": {f: l._attrs.get(f) for f in OPTION_FIELDS}, "kwargs": dict(l._attrs.get("kwargs") or {}),
            "kwargs_id": id(l._attrs.get("kwargs")), "arrays": {k: id(v) for k, v in (l._attrs.get("arrays") or {}).items()},
            "arrays_id": id(l._attrs.get("arrays")), "key": l._attrs.get("key")}


def check_merge_fold(run, tree, qual, in_place):
    hooks = core_hooks()
    fi = tree.func(qual)
    run.analysed(fi)
    bad = {}
    n_cases = 0
    try:
        levels = [("unset", None), ("falsy (0)", 0), ("set", "set")]
        # each option independently of the others: only f set on the layer / everything but f set on the layer
        for f_ in OPTION_FIELDS:
            levels.append(("only %s set" % f_, {g: ("set" if g == f_ else None) for g in OPTION_FIELDS}))
            levels.append(("all but %s set" % f_, {g: (None if g == f_ else "set") for g in OPTION_FIELDS}))
        # values spelled like the words the package itself tests options against ("image", "log", "sum", ...): a Layer that sets an option
        # explicitly to such a word - also to the one that happens to be the default - keeps it
        import ast as _ast
        vocab = set()
        for rel in ("core/layer.py", "plot/parser.py", "plot/render.py", "plot/map.py", "plot/histogram1d.py", "plot/histogram2d.py", "plot/wrappers.py"):
            try:
                mod = tree.module(rel)
            except Exception:
                continue
            for n in _ast.walk(mod.tree):
                if isinstance(n, _ast.Constant) and isinstance(n.value, str) and n.value.isidentifier() and len(n.value) <= 12:
                    vocab.add(n.value)
        for word in sorted(vocab)[:150]:
            for f_ in OPTION_FIELDS:
                levels.append(("%s=%r" % (f_, word), {g: (word if g == f_ else None) for g in OPTION_FIELDS}))
        for lv_name, lv in levels:
            for cv_name, cv in (("unset", None), ("set", "C")):
                if "=" in lv_name and cv is None:
                    continue
                layer, ev = make_layer(tree, hooks, lv)
                before = layer_state(layer)
                if isinstance(lv, dict) and "=" in lv_name:
                    # what the constructor was GIVEN is what counts (a constructor that normalises a spelling to "unset" loses the user's choice)
                    before["fields"] = {f: lv[f] for f in OPTION_FIELDS}
                call_kwargs = {f: (None if cv is None else "C:" + f) for f in OPTION_FIELDS}
                call_kwargs.update({"a": "C", "b": "C"})
                try:
                    out = ev.invoke(fi, [layer], call_kwargs, None)
                except (Raised, ProgramRaised) as e:
                    bad.setdefault("result", []).append("raises %s" % e)
                    continue
                target = layer if in_place else out
                n_cases += 1
                if not (isinstance(target, PyObj) and target._cls.qual == LAYER_Q):
                    bad.setdefault("result", []).append("returns %r" % (target,))
                    continue
                st = layer_state(target)
                for f in OPTION_FIELDS:
                    lval = before["fields"][f]
                    want = lval if lval is not None else (None if cv is None else "C:" + f)
                    got = st["fields"].get(f, "<missing>")
                    if got != want or (got is None) != (want is None):
                        bad.setdefault(f, []).append("layer %s / call %s -> %r (required %r)" % (lv_name, cv_name, got, want))
                if st["kwargs"] != {"a": "L", "b": "C"}:
                    bad.setdefault("kwargs", []).append("extra options merged to %r (required {'a': 'L', 'b': 'C'})" % st["kwargs"])
                if not in_place:
                    if out is layer:
                        bad.setdefault("copy", []).append("the input layer itself is returned")
                    if st["kwargs_id"] == before["kwargs_id"]:
                        bad.setdefault("copy", []).append("the result shares its option dictionary with the caller's layer")
                    if st["arrays_id"] == before["arrays_id"]:
                        bad.setdefault("copy", []).append("the result shares its arrays dictionary with the caller's layer")
                    if st["arrays"] != before["arrays"] or st["key"] != before["key"]:
                        bad.setdefault("copy", []).append("data/aux arrays of the result differ from the layer's: %s" % sorted(st["arrays"]))
                    if layer_state(layer) != before:
                        bad.setdefault("input", []).append("the input layer was modified")
    except ERR as e:
        run.unresolved("%s::merge" % qual, fi.where(), "cannot fold the merge: %s" % e)
        return
    for f in OPTION_FIELDS + ["kwargs", "result"] + ([] if in_place else ["copy", "input"]):
        run.ob("%s::precedence[%s]" % (qual, f), f not in bad, fi.where(),
               "; ".join(bad.get(f, [])[:3]) or "layer value wins unless None, in all %d combinations" % n_cases,
               "a Layer that sets %s (e.g. to 0) is overridden by the call-level value, or the caller's Layer is changed" % f,
               nontrivial=f != "result")


def check_layer_copies(run, tree):
    """Layer.copy and the component views Layer.x/.y/.z: every option field, the extra options (in a dictionary of their own)
    and the auxiliary arrays are carried over; the original is untouched."""
    hooks = core_hooks()
    ci = tree.cls(LAYER_Q)
    vec, _ = make_vector(tree, {c: "V." + c for c in "xyz"}, unit="m", shape=(4,), hooks=hooks)
    vec._attrs["_name"] = "vel"
    for what in ("copy", "x", "y", "z"):
        construct = "%s.%s" % (LAYER_Q, what)
        m = tree.method(ci, what) or ci.methods.get(what)
        if m is None:
            run.violated(construct, "src/osyris/core/layer.py", "Layer.%s is not defined" % what, "map of a vector layer")
            continue
        run.analysed(m)
        try:
            layer, ev = make_layer(tree, hooks, "set", data=vec if what != "copy" else None)
            before = layer_state(layer)
            try:
                out = ev.invoke(m, [layer], {}, None) if what == "copy" else ev.obj_getattr(layer, what)
            except (Raised, ProgramRaised) as e:
                run.violated(construct, m.where(), "raises %s" % e, "Layer.%s" % what)
                continue
            problems = []
            if not (isinstance(out, PyObj) and out._cls.qual == LAYER_Q) or out is layer:
                problems.append("returns %s" % ("the layer itself" if out is layer else repr(out)))
            else:
                st = layer_state(out)
                if st["fields"] != before["fields"]:
                    lost = [f for f in OPTION_FIELDS if st["fields"].get(f) != before["fields"][f]]
                    problems.append("option(s) %s not carried over: %s" % (lost, {f: st["fields"].get(f) for f in lost}))
                if st["kwargs"] != before["kwargs"]:
                    problems.append("extra options %r (layer has %r)" % (st["kwargs"], before["kwargs"]))
                if st["kwargs_id"] == before["kwargs_id"]:
                    problems.append("shares the option dictionary with the original (options merged into the copy, or popped by the renderer, change the caller's Layer)")
                if st["arrays_id"] == before["arrays_id"]:
                    problems.append("shares the arrays dictionary with the original")
                if "w" not in st["arrays"] or st["arrays"].get("w") != before["arrays"].get("w"):
                    problems.append("auxiliary arrays lost: %s" % sorted(st["arrays"]))
                if what == "copy":
                    if st["arrays"] != before["arrays"]:
                        problems.append("arrays differ")
                else:
                    data = (out._attrs.get("arrays") or {}).get(out._attrs.get("key"))
                    comp = vector_components(tree, vec, hooks)[what]
                    if not (isinstance(data, ArrTok) and data.origin == comp.origin):
                        problems.append("data of layer.%s is %r (required the %s component)" % (what, getattr(data, "origin", data), what))
            if layer_state(layer) != before:
                problems.append("the original layer is modified")
            run.ob(construct, not problems, m.where(), "; ".join(problems) or "all option fields, extra options (own dictionary) and auxiliary arrays carried over",
                   "a vector layer loses its operation/vmin/... when split into components (a thick map sums instead of averaging), "
                   "or the caller's Layer changes after a plot call")
        except ERR as e:
            run.unresolved(construct, m.where(), "cannot fold: %s" % e)


class NormTok(Model):
    def __init__(self, cls, kw):
        self.cls, self.kw = cls, kw


def check_get_norm(run, tree):
    g = tree.func("plot/parser.py::get_norm")
    run.analysed(g)
    hooks = {"ext": {"matplotlib.colors." + n: (lambda n_: lambda *a, **k: NormTok(n_, dict(k, _args=a)))(n) for n in ("Normalize", "LogNorm", "SymLogNorm")}}
    obj = NormTok("user-object", {})
    cases = [(None, "Normalize"), ("linear", "Normalize"), ("log", "LogNorm"), ("LOG", "LogNorm"), ("symlog", "SymLogNorm"), (obj, "same object"),
             ("cubic", "raises RuntimeError")]
    for nrm, want in cases:
        construct = "plot/parser.py::get_norm[norm=%s]" % (nrm if not isinstance(nrm, NormTok) else "<norm object>")
        try:
            try:
                r = ModelEval(tree, g, {}, hooks).invoke(g, [], {"norm": nrm, "vmin": "VMIN", "vmax": "VMAX"}, None)
                if r is nrm and nrm is not None:
                    got, ok = "same object", want == "same object"
                elif isinstance(r, NormTok):
                    got = "%s(vmin=%s, vmax=%s)" % (r.cls, r.kw.get("vmin"), r.kw.get("vmax"))
                    ok = r.cls == want and r.kw.get("vmin") == "VMIN" and r.kw.get("vmax") == "VMAX" and not r.kw.get("_args")
                else:
                    got, ok = repr(r), False
            except (Raised, ProgramRaised) as e:
                got = "raises " + getattr(e, "name", str(e))
                ok = got == want
            run.ob(construct, ok, g.where(), "-> %s" % got, "vmin and vmax swapped or dropped for one norm type; an unknown norm name accepted",
                   nontrivial=want not in ("same object", "raises RuntimeError"))
        except ERR as e:
            run.unresolved(construct, g.where(), "cannot fold: %s" % e)
