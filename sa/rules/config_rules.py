"""Rules on config/defaults.py (unit library coherence D2/S2, constants catalogue S3) — shared by C01, C08, C14."""
from __future__ import annotations

import ast
from fractions import Fraction as F

from ..dimeval import DimEval, DimQ, parse_unit
from ..peval import Unsupported
from ..specs import dims as S2
from .common import params

CFG = "config/defaults.py::configure_units"
CONST = "config/defaults.py::configure_constants"


def eval_unit_library(tree):
    """Evaluate configure_units in D2; returns (fi, {key: DimQ or number}, dict node)."""
    fi = tree.func(CFG)
    pn = params(fi)  # units, unit_d, unit_l, unit_t
    if len(pn) != 4:
        raise Unsupported("configure_units signature changed: %s" % pn)
    env = {pn[0]: "units-factory"}
    for p, s in zip(pn[1:], ("unit_d", "unit_l", "unit_t")):
        env[p] = DimQ(1.0, {s: 1})
    ev = DimEval(tree, fi, env)
    lib = ev.run_function(fi.node, [env[p] for p in pn])
    if not isinstance(lib, dict):
        raise Unsupported("configure_units does not return a dict literal")
    return fi, lib


def check_unit_library(run, tree):
    try:
        fi, lib = eval_unit_library(tree)
    except Unsupported as e:
        fi = tree.func(CFG)
        run.unresolved(CFG, fi.where(), "cannot evaluate configure_units in the dimension domain: %s" % e)
        return
    run.analysed(fi)
    run.assume("the user configuration equals config/defaults.py (a stale ~/.osyris/config_osyris.py would shadow it at run time)")
    import math
    for key, val in lib.items():
        construct = "%s[%s]" % (CFG, key)
        dimkey = "unlisted"
        for pred, dk in S2.NAME_DIM:
            if pred(key):
                dimkey = dk
                break
        if dimkey == "unlisted":
            # an entry the spec does not know: only internal coherence can be required
            want = None
        elif dimkey is None:
            ok = isinstance(val, DimQ) and val.syms == {key: F(1)} and not any(val.dims) and abs(val.coef - 1) < 1e-12
            run.ob(construct, ok, fi.where(), "raw scale entry = %r" % (val,), "units['%s'] is not the number from the info file" % key,
                   nontrivial=False)
            continue
        else:
            want = tuple(F(x) for x in S2.D[dimkey])
        if not isinstance(val, DimQ):
            run.violated(construct, fi.where(), "entry is %r, not a quantity" % (val,), "variable %s" % key)
            continue
        dims = val.dims
        problems = []
        if want is not None and dims != want:
            problems.append("dimension M^%s L^%s T^%s K^%s, required M^%s L^%s T^%s K^%s" % (dims + want))
        p, q, r, s_ = dims
        coh = {k: v for k, v in {"unit_d": p, "unit_l": 3 * p + q, "unit_t": r}.items() if v != 0}
        if val.syms != coh:
            problems.append("code-unit factor %s, required %s for this dimension" % (
                "*".join("%s^%s" % kv for kv in sorted(val.syms.items())) or "1",
                "*".join("%s^%s" % kv for kv in sorted(coh.items())) or "1"))
        allowed = [1.0]
        if dimkey == "magnetic" or (want is None and dims == tuple(F(x) for x in S2.D["magnetic"])):
            allowed = [math.sqrt(4 * math.pi)]
        if not any(abs(val.coef - a) <= 1e-9 * max(1.0, abs(a)) for a in allowed):
            problems.append("numeric constant %.9g, allowed %s" % (val.coef, allowed))
        run.ob(construct, not problems, fi.where(), "; ".join(problems) or repr(val),
               "every value of variable '%s' is scaled by a factor of the wrong dimension or size for some unit_d/unit_l/unit_t" % key)
    for key in S2.REQUIRED_KEYS:
        run.ob("%s[has %s]" % (CFG, key), key in lib, fi.where(), "library %s an entry for %s" % (
            "has" if key in lib else "LACKS", key), "variable %s is loaded as dimensionless code units" % key, nontrivial=False)


def check_constants(run, tree):
    fi = tree.func(CONST)
    run.analysed(fi)
    pn = params(fi)
    defs = {}
    extra = {}
    order = []
    # the definitions are collected by interpreting configure_constants on a recording registry (literal calls, tables + loops,
    # helper functions are all the same to the fold)
    from ..models import ModelEval, Raised
    from ..peval import Model

    class Registry(Model):
        def __init__(self):
            self.defined = []

        def define(self, text, *a, **k):
            self.defined.append(text)
    reg = Registry()
    try:
        ModelEval(tree, fi, {}, {}).invoke(fi, [reg], {}, None)
    except Raised as e:
        run.violated(CONST, fi.where(), "configure_constants raises %s" % e, "import osyris")
        return
    except Unsupported as e:
        run.unresolved(CONST, fi.where(), "cannot fold configure_constants: %s" % e)
        return
    for text in reg.defined:
        if not isinstance(text, str):
            run.unresolved(CONST + "::definition", fi.where(), "definition is not a string: %r" % (text,))
            continue
        parts = [p.strip() for p in text.split("=")]
        if len(parts) < 2:
            run.unresolved(CONST + "::" + text[:30], fi.where(), "definition string not understood")
            continue
        order.append((parts[0], parts[1], parts[2:], None))
    respelled = []
    for name, expr, aliases, node in order:
        if expr.isidentifier() and expr in extra:
            # "M_sol = M_sun": pint makes a NEW unit of the same size (units("M_sol") != units("M_sun"), Vectors mixing the two refuse);
            # an equivalent spelling is declared as an alias of the definition ("solar_mass = ... = M_sun = M_sol")
            respelled.append((name, expr))
        try:
            q = parse_unit(expr, extra)
        except Unsupported as e:
            run.unresolved("%s[%s]" % (CONST, name), fi.where(node), "cannot evaluate '%s': %s" % (expr, e))
            continue
        defs[name] = (q, aliases, node)
        extra[name] = (q, None)
        for a in aliases:
            extra[a] = (q, None)
    run.ob(CONST + "::equivalent-spellings-are-aliases", not respelled, fi.where(),
           "; ".join("%s is defined as a unit of its own equal to 1 %s" % r for r in respelled) or "%d definitions, every further spelling is an alias in its definition" % len(order),
           "osyris.units('M_sol') != osyris.units('M_sun'): a.to('M_sol').unit differs from a.to('solar_mass').unit, Vector(x [M_sun], y [M_sol]) is refused",
           nontrivial=False)
    for name, (want_val, want_dim) in S2.CONSTANTS.items():
        construct = "%s[%s]" % (CONST, name)
        if name not in defs:
            run.violated(construct, fi.where(), "constant %s is not defined" % name, "units('%s')" % name)
            continue
        q, aliases, node = defs[name]
        rel = abs(q.coef - want_val) / want_val
        dims_ok = q.dims == tuple(F(x) for x in want_dim) and not q.syms
        run.ob(construct, dims_ok and rel <= S2.CONSTANT_TOLERANCE, fi.where(node),
               "%s = %.6g CGS with dimension %s (catalogue %.6g, relative difference %.2g)" % (
                   name, q.coef, tuple(str(d) for d in q.dims), want_val, rel),
               "Array(1, '%s').to(CGS) is off by a factor %.3g" % (aliases[0] if aliases else name, q.coef / want_val))
        for al in S2.REQUIRED_ALIASES.get(name, []):
            run.ob(construct + "::alias[%s]" % al, al in aliases, fi.where(node), "alias %s %s" % (
                al, "defined" if al in aliases else "missing"), "units('%s') raises UndefinedUnitError (used by additional_variables)" % al)
