"""C01 — full load returns every leaf cell exactly once with true geometry, values, units."""
from __future__ import annotations

from . import io_rules as io
from . import io_rules2 as io2
from .config_rules import check_unit_library

EXPLANATION = (
    "Static rules on src/osyris/io and config/defaults.py: (R1) the record locator read_binary_data is interpreted in a "
    "polynomial domain: position = sum(count*size) + 8*records (+4), counters advanced as documented, for every "
    "skip_head/increment/type combination; (R2) every reader's read_header is interpreted with symbolic counters: each "
    "decoded field sits at the payload start of the record the RAMSES layout (S1) assigns to it and the header length "
    "equals the layout's, for all ncpu, levelmax, nboundary (both branches), noutput, coarse grid and key size; (R3) per "
    "(level, domain) block and reader class: owner mode (allocate, cache-line header, 2^ndim x read_variables, footer), "
    "with every variable read or skipped, consumes the layout's bytes and reads xg/son/variables at the layout's records; "
    "step_over consumes the same bytes; (R4) Loader.load's protocol skeleton: order, loops and guards of every reader call "
    "(owner guard domain == cpu_num-1), loop bounds, file names; (R5) leaf rule truth table; (R6) one conjunction mask "
    "applied to every read variable, leaf mask always included; (R7) values scaled by X.magnitude and labelled X.units of "
    "the same library entry at every site; (R8) the unit library is evaluated in a dimension domain: every entry has the "
    "dimension its name states and the coherent factor unit_d^p unit_l^(3p+q) unit_t^r (sqrt(4 pi) for Gaussian B); (R9) "
    "cell geometry formulas (child offsets over all 8 children, dx, position, level, cpu) as exact identities; (R10) axis "
    "order of the grid-count table; (R11) vector assembly folded over name sets; derived variables.")
NOT_DECIDED = ("that pint attaches the right factor to a unit string; that np.concatenate preserves order; float rounding; "
               "malformed files; nout=-1 directory globbing; ordering types that write more than one bound_key record (A2)")
TRUSTED = ("CPython ast", "S1 RAMSES layout (sa/specs/ramses_layout.py), cross-validated against a from-spec synthetic output",
           "S2 dimension tables", "struct/Fortran record sizes")
TECHNIQUE = ("static analysis: abstract interpretation of the readers' byte-offset bookkeeping in a polynomial domain against a "
             "layout specification; protocol skeleton extraction; dimension-domain evaluation of the unit library; finite-case "
             "folding of the leaf rule, child offsets and vector assembly")

from . import loader_folds as lfold
from . import io_folds as iof
from . import layout_folds as lay


def r1(run, tree):
    run.rule("C01.R1", "record locator", "D1 (derived by interpreting read_binary_data)", "S1 record framing", floor=12)
    lay.check_record_locator(run, tree)


def r2(run, tree):
    run.rule("C01.R2", "header layouts agree with RAMSES", "D1 + S1", "S1", floor=7)
    lay.check_amr_header(run, tree)
    lay.check_simple_headers(run, tree)


def r3(run, tree):
    run.rule("C01.R3", "body layout; read = not-read = step-over in bytes", "D1 + sibling agreement + S1", "S1", floor=12)
    lay.check_bodies(run, tree)


def r4(run, tree):
    run.rule("C01.R4", "traversal protocol of Loader.load: every reader sees header, level, domain, block and footer records in file order; "
             "offsets zeroed per file; file names; one conjunction mask per block", "D7 fold of Loader.load over recording readers on 9 scenarios + a two-load history, compared with the traversal specification", "S1 traversal", floor=10)
    lfold.check_load(run, tree)


def r5(run, tree):
    run.rule("C01.R5", "leaf rule truth table", "D7", "", floor=3)
    lay.check_leaf_rule(run, tree)


def r6(run, tree):
    run.rule("C01.R6", "one conjunction mask for every variable (Loader.load fold: pieces and selection)", "D7 fold of Loader.load over recording readers on 9 scenarios + a two-load history, compared with the traversal specification", "", floor=10)
    lfold.check_load(run, tree)


def r7(run, tree):
    run.rule("C01.R7", "scale/label pairing", "D6", "", floor=5)
    lay.check_bodies(run, tree, aspects=("values",))
    lay.check_part_header(run, tree)


def r8(run, tree):
    run.rule("C01.R8", "unit library coherence", "D2 dimension domain", "S2", floor=30)
    check_unit_library(run, tree)


def r9(run, tree):
    run.rule("C01.R9", "cell geometry formulas; grid-count axes", "D1/D7", "", floor=8)
    lay.check_bodies(run, tree, aspects=("values",))
    lay.check_amr_header(run, tree)


def r11(run, tree):
    run.rule("C01.R11", "vector assembly and derived variables", "D7 folding over name sets", "", floor=8)
    iof.check_vector_assembly(run, tree)
    iof.check_derived_variables(run, tree)


def r_shared_c01_r12(run, tree):
    run.rule("C01.R12", "every reader finds its files under the resolved output directory (also for nout=-1) and is initialised exactly when selected and present", "D7 folds (shared)", "", floor=1)
    iof.check_reader_initialize(run, tree)


RULES = [r_shared_c01_r12, r1, r2, r3, r4, r5, r6, r7, r8, r9, r11]
