"""C01 — full load returns every leaf cell exactly once with true geometry, values, units."""
from __future__ import annotations

from .config_rules import check_unit_library

EXPLANATION = "Folds (the repository's own functions and classes interpreted by sa/models.py::ModelEval over abstract tokens) and symbolic analyses: (R1) read_binary_data interpreted with symbolic counters: byte position = sum(count*size)+8*records(+4), counters advanced; (R2/R9) AmrReader/Hydro/Grav/Rt.read_header interpreted on a symbolic file: every decode is aligned BY BYTE POSITION (exact polynomials in ncpu, levelmax, nboundary, noutput, nx*ny*nz) with the record of the layout specification S1 it hits, header length equals S1, decoded fields end up in the right places (xbound per axis, grid counts per (level, cpu) transposed, boundary rows); (R3) one (level, domain) block in owner mode and step_over for every mesh reader: decodes aligned, block length equal for read / not-read variables and step_over; (R4/R6) Loader.load interpreted with recording reader models over 9 scenarios and a two-load history, compared with the traversal specification (per-reader record sequence, file names, offsets zeroed per file, one conjunction mask per block, pieces, counters); (R5) leaf flag over {has a son} x {below / at the deepest loaded level}; (R7) every buffer is filled from its own record times the magnitude of its own unit and labelled with that unit; (R8) configure_units evaluated in the dimension domain D2 against S2; (R11) make_vector_arrays over 12 name-set cases; additional_variables over 4 input sets; (R12) reader.initialize histories (on / off / files gone) with file-system models: files looked up under the resolved output directory also for nout=-1. (R13) UnitsLibrary folded over two instances with different contents; the body fold also runs under partial selections of the AMR variables; the conditions contract of make_conditions (distinct keys, each predicate once on its own unit-carrying buffer) is part of R5. (R14) no memoised function on the loading path reads the environment (effect rule over the resolved call graph with a positive fixture). (R15) a load without position predicates reads every cpu file (hilbert_cpu_list fold shared with C04.R5); R11 also requires that the derived variables leave every loaded variable untouched (no in-place arithmetic in a loaded buffer). R12 also folds a hydro descriptor with more than nine variables and an unpadded index column: the variables keep the order of the descriptor lines."
NOT_DECIDED = 'the values numpy/struct decode; floating-point rounding; descriptors with a single variable; layouts other than S1 (non-Hilbert orderings with more than one bound_key record); parametric ndim (folds use ndim=3 for bodies, 2 for initialisation)'
TRUSTED = ('CPython ast', 'S1 RAMSES layout (sa/specs/ramses_layout.py)', 'S2 unit dimensions (sa/specs/dims.py)', 'the interpreter sa/models.py and its numpy/struct/os models', 'pint/numpy behave as documented')
TECHNIQUE = 'static analysis: abstract interpretation of the reader classes over a symbolic file (exact polynomial byte positions, record alignment against a layout specification), finite-scenario folding of the loader protocol, dimension-domain evaluation'

from . import loader_folds as lfold
from . import io_folds as iof
from . import layout_folds as lay


def r1(run, tree):
    run.rule("C01.R1", "record locator", "D1 (derived by interpreting read_binary_data)", "S1 record framing", floor=12)
    lay.check_record_locator(run, tree)


def r2(run, tree):
    run.rule("C01.R2", "header layouts agree with RAMSES", "D1 + S1", "S1", floor=7)
    lay.check_amr_header(run, tree)
    lay.check_simple_headers(run, tree)


def r3(run, tree):
    run.rule("C01.R3", "body layout; read = not-read = step-over in bytes", "D1 + sibling agreement + S1", "S1", floor=12)
    lay.check_bodies(run, tree)


def r4(run, tree):
    run.rule("C01.R4", "traversal protocol of Loader.load: every reader sees header, level, domain, block and footer records in file order; "
             "offsets zeroed per file; file names; one conjunction mask per block", "D7 fold of Loader.load over recording readers on 9 scenarios + a two-load history, compared with the traversal specification", "S1 traversal", floor=10)
    lfold.check_load(run, tree)


def r5(run, tree):
    run.rule("C01.R5", "leaf rule truth table", "D7", "", floor=3)
    lay.check_leaf_rule(run, tree)


def r6(run, tree):
    run.rule("C01.R6", "one conjunction mask for every variable (Loader.load fold: pieces and selection)", "D7 fold of Loader.load over recording readers on 9 scenarios + a two-load history, compared with the traversal specification", "", floor=10)
    lfold.check_load(run, tree)


def r7(run, tree):
    run.rule("C01.R7", "scale/label pairing", "D6", "", floor=5)
    lay.check_bodies(run, tree, aspects=("values",))
    lay.check_part_header(run, tree)


def r8(run, tree):
    run.rule("C01.R8", "unit library coherence", "D2 dimension domain", "S2", floor=30)
    check_unit_library(run, tree)


def r9(run, tree):
    run.rule("C01.R9", "cell geometry formulas; grid-count axes", "D1/D7", "", floor=8)
    lay.check_bodies(run, tree, aspects=("values",))
    lay.check_amr_header(run, tree)


def r11(run, tree):
    run.rule("C01.R11", "vector assembly and derived variables", "D7 folding over name sets", "", floor=8)
    iof.check_vector_assembly(run, tree)
    iof.check_derived_variables(run, tree)


def r_shared_c01_r12(run, tree):
    run.rule("C01.R12", "every reader finds its files under the resolved output directory (also for nout=-1) and is initialised exactly when selected and present", "D7 folds (shared)", "", floor=1)
    iof.check_reader_initialize(run, tree)


def r13(run, tree):
    run.rule("C01.R13", "the unit table a dataset answers from is its own: UnitsLibrary folded over two instances with different contents "
             "(exact keys, wildcard keys, default, assignment after lookup)", "D7 history fold of units/library.py::UnitsLibrary", "", floor=1)
    iof.check_units_library(run, tree)


def r_memo(run, tree):
    run.rule("C01.R14", "no memoised function on the loading path reads the environment (directory listings, files, clock): which output is the last one, and what a file holds, is looked up at every load",
             "effect rule over the resolved call graph (functools.lru_cache / cache) with a positive fixture", "", floor=1)
    from .memo_rules import check_memoised_functions
    check_memoised_functions(run, tree, modules=("io/", "config/", "units/", "core/dataset"))


def r15_all_files(run, tree):
    run.rule("C01.R15", "a load without position predicates reads EVERY cpu file: hilbert_cpu_list answers None (no pre-selection) unless a predicate on a position is given, "
             "so the file list does not depend on the domain bounds printed in the info file (shared with C04.R5)", "D7 fold of io/hilbert.py::hilbert_cpu_list over abstract predicates", "", floor=3)
    from . import hilbert_folds as hf
    hf.check_hilbert_cpu_list_fold(run, tree)


RULES = [r_shared_c01_r12, r1, r2, r3, r4, r5, r6, r7, r8, r9, r11, r13, r_memo, r15_all_files]


def t_all_selections(run, tree):
    run.rule("C01.T1", "thorough: one (level, domain) block folded for EVERY selection of the six AMR variables (64) and every selection of the variables of each mesh reader (3 x 8): "
             "each selected variable is filled from its own record / axis and labelled with its own unit, unselected ones are not written, the block length is the same for all selections", "D1/D7 fold of read_variables / step_over on a symbolic file (S1 alignment by byte position)", "S1", floor=80)
    lay.check_bodies(run, tree, all_subsets=True)




def t_load_space(run, tree):
    run.rule("C01.T2", "thorough: Loader.load folded over 324 scenarios (ndim 1-3 x ncpu 1-3 x levelmax 2-4 x nboundary 0-2 x level predicate x explicit cpu_list, with empty blocks) "
             "and compared with the traversal specification", "D7 fold of Loader.load over recording readers", "S1 traversal", floor=3)
    lfold.check_load_space(run, tree)


THOROUGH_RULES = [t_load_space, t_all_selections]
