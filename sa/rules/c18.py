"""C18 — every accepted map orientation yields an orthonormal, correctly oriented basis."""
from __future__ import annotations

import ast
from fractions import Fraction as F

from ..flow import enumerate_paths
from ..peval import Unsupported
from ..poly import Poly, Rat, S
from ..qeval import QEval, ArrayV, VectorV, UnitV, NumV, QError, DimError, R, DIMLESS
from ..source import norm, const_value, walk_no_nested, FuncInfo, ClassInfo
from .common import is_name, params, returns_of, calls_in, single_return

EXPLANATION = (
    "Static rules on plot/direction.py and core/vector.py: (R1) the axis table literals are the unit axis vectors and the "
    "(n,u,v) triples of 'x','y','z' are orthonormal with u x v = n (integer arithmetic on the extracted literals); a "
    "three-letter string maps its letters to n,u,v in order; (R2) VectorBasis.__init__ completes u with a perpendicular "
    "vector and v with n.cross(u) and assigns normalize(...) to all three; normalize divides by the norm with an EXACT-zero "
    "guard; (R3) perpendicular_vector: in every branch the result is orthogonal to the input as a rational identity under "
    "the branch condition, and it cannot vanish for a non-zero input (rank condition on the linear components); (R4) "
    "handedness: with v = n x u the identity (u x (n x u)).n = |u|^2|n|^2 - (u.n)^2 holds for the repository's cross "
    "product (symbolically executed), so u x v is parallel to +n; roll is the cyclic permutation; (R5) every accepted "
    "form of get_direction returns a VectorBasis; 'top' builds n from sum((pos*mass)[sphere] x vel[sphere]) with "
    "sphere = |pos - origin| < (dx+dy)/4 and 'side' is its roll.")
NOT_DECIDED = ("degenerate floating-point inputs (denormal z makes (x+y)/z overflow); exactness of pint/numpy normalisation; "
               "zero net angular momentum")
TRUSTED = ("CPython ast", "cross-product formula as verified by C09.R3", "polynomial normal forms")

PV = "core/vector.py::perpendicular_vector"
NORMALIZE = "core/vector.py::normalize"
VB = "core/vector.py::VectorBasis"
GD = "plot/direction.py::get_direction"


def r1_axis_table(run, tree):
    run.rule("C18.R1", "axis table: unit axis vectors; named triples orthonormal and right-handed", "D7 on extracted literals", "",
             floor=5)
    fi = tree.func(GD)
    run.analysed(fi)
    table = None
    for n in walk_no_nested(fi.node):
        if isinstance(n, ast.Assign) and isinstance(n.value, ast.Dict) and all(isinstance(v, ast.Call) and norm(v.func) == "Vector"
                                                                              for v in n.value.values) and n.value.values:
            table = (n.targets[0].id if isinstance(n.targets[0], ast.Name) else None, n.value, n)
    if table is None:
        run.unresolved(GD + "::axis-table", fi.where(), "dict of axis Vectors not found")
        return
    tname, dnode, tstmt = table
    vecs = {}
    for k, v in zip(dnode.keys, dnode.values):
        comps = [const_value(a) for a in v.args]
        vecs[const_value(k)] = tuple(comps)
    want = {"x": (1, 0, 0), "y": (0, 1, 0), "z": (0, 0, 1)}
    for k in "xyz":
        run.ob("%s::axis-table[%s]" % (GD, k), vecs.get(k) == want[k], fi.where(tstmt), "%s -> %s" % (k, vecs.get(k)),
               "direction='%s' maps along another axis" % k)

    def cross(a, b):
        return (a[1] * b[2] - a[2] * b[1], a[2] * b[0] - a[0] * b[2], a[0] * b[1] - a[1] * b[0])

    def dot(a, b):
        return sum(x * y for x, y in zip(a, b))
    # single letters
    for letter in "xyz":
        found = None
        for n in walk_no_nested(fi.node):
            if isinstance(n, ast.If) and isinstance(n.test, ast.Compare) and is_name(n.test.left, params(fi)[0]) and \
                    const_value(n.test.comparators[0]) == letter and isinstance(n.test.ops[0], ast.Eq):
                for st in n.body:
                    if isinstance(st, ast.Return) and isinstance(st.value, ast.Call):
                        found = st.value
        construct = "%s::letter[%s]" % (GD, letter)
        if found is None:
            run.violated(construct, fi.where(), "direction == '%s' has no branch returning a basis" % letter,
                         "map(direction='%s') returns None" % letter)
            continue
        trip = {}
        for k in found.keywords:
            v = k.value
            if isinstance(v, ast.Subscript) and is_name(v.value, tname) and const_value(v.slice) in vecs:
                trip[k.arg] = vecs[const_value(v.slice)]
        if set(trip) != {"n", "u", "v"} or any(None in t or t is None for t in trip.values()):
            run.unresolved(construct, fi.where(found), "basis arguments not understood: %s" % norm(found))
            continue
        n_, u_, v_ = trip["n"], trip["u"], trip["v"]
        ok = (n_ == want[letter] and dot(n_, u_) == 0 and dot(n_, v_) == 0 and dot(u_, v_) == 0 and
              all(dot(t, t) == 1 for t in (n_, u_, v_)) and cross(u_, v_) == n_)
        run.ob(construct, ok, fi.where(found), "n=%s u=%s v=%s; u x v = %s" % (n_, u_, v_, cross(u_, v_)),
               "direction='%s' gives a mirrored or non-orthogonal image plane" % letter)
    # three letters
    tri = None
    for n in walk_no_nested(fi.node):
        if isinstance(n, ast.If) and "set(" in norm(n.test) and "xyz" in norm(n.test):
            for st in n.body:
                if isinstance(st, ast.Return) and isinstance(st.value, ast.Call):
                    tri = st.value
    if tri is None:
        run.violated(GD + "::triple", fi.where(), "three-letter directions are not handled", "map(direction='zyx')")
    else:
        kws = {k.arg: norm(k.value) for k in tri.keywords}
        d = params(fi)[0]
        ok = kws == {"n": "%s[%s[0]]" % (tname, d), "u": "%s[%s[1]]" % (tname, d), "v": "%s[%s[2]]" % (tname, d)}
        run.ob(GD + "::triple", ok, fi.where(tri), "three-letter direction -> %s" % kws, "'zyx' does not put z normal, y horizontal, x vertical")
    # case-insensitivity
    lower = any(isinstance(n, ast.Assign) and norm(n.value) == "%s.lower()" % params(fi)[0] for n in walk_no_nested(fi.node))
    run.ob(GD + "::case-insensitive", lower, fi.where(), "string directions lower-cased: %s" % lower, "direction='Z' rejected",
           nontrivial=False)


def r2_constructor(run, tree):
    run.rule("C18.R2", "VectorBasis completes u and v and normalises all three; exact-zero guard in normalize", "path rule", "",
             floor=6)
    ci = tree.cls(VB)
    fi = tree.method(ci, "__init__")
    run.analysed(fi)
    pn = params(fi)
    SELF, N, U, V = pn[0], pn[1], pn[2], pn[3]
    body = fi.node.body
    text = [norm(s) for s in body]
    u_ok = any(t in ("%s.u = perpendicular_vector(%s.n) if %s is None else %s" % (SELF, SELF, U, U),
                     "%s.u = %s if %s is not None else perpendicular_vector(%s.n)" % (SELF, U, U, SELF)) for t in text)
    v_ok = any(t in ("%s.v = %s.n.cross(%s.u) if %s is None else %s" % (SELF, SELF, SELF, V, V),
                     "%s.v = %s if %s is not None else %s.n.cross(%s.u)" % (SELF, V, V, SELF, SELF)) for t in text)
    run.ob(VB + ".__init__::u-completed", u_ok, fi.where(), "missing u -> perpendicular_vector(n): %s" % u_ok,
           "a bare normal gives an arbitrary / undefined horizontal axis")
    run.ob(VB + ".__init__::v-completed", v_ok, fi.where(), "missing v -> n.cross(u) (receiver n, argument u): %s" % v_ok,
           "u x v = -n: the map is mirrored")
    order_ok = True
    for c in "nuv":
        idx = [i for i, t in enumerate(text) if t == "%s.%s = normalize(%s.%s)" % (SELF, c, SELF, c)]
        last_assign = max([i for i, s in enumerate(body) if isinstance(s, ast.Assign) and norm(s.targets[0]) == "%s.%s" % (SELF, c)] or [-1])
        ok = bool(idx) and idx[-1] == last_assign
        run.ob("%s.__init__::%s-normalised" % (VB, c), ok, fi.where(), "final value of %s is normalize(%s): %s" % (c, c, ok),
               "basis vector %s keeps the length of the input (pixel coordinates are scaled)" % c)
    # completion happens before normalisation of n? (cross of un-normalised vectors is fine) — but u must be computed
    # from n before v is computed from n and u
    iu = next((i for i, t in enumerate(text) if t.startswith("%s.u = " % SELF) and "perpendicular" in t), None)
    iv = next((i for i, t in enumerate(text) if t.startswith("%s.v = " % SELF) and "cross" in t), None)
    run.ob(VB + ".__init__::order", iu is not None and iv is not None and iu < iv, fi.where(), "u is completed before v is derived from it",
           "v computed from an unset u", nontrivial=False)
    # normalize
    nf = tree.func(NORMALIZE)
    run.analysed(nf)
    src = [norm(s) for s in walk_no_nested(nf.node) if isinstance(s, ast.Return)]
    vp = params(nf)[0]
    divides = all(r.startswith("return %s / " % vp) for r in src) and bool(src)
    run.ob(NORMALIZE + "::divides-by-norm", divides, nf.where(), "returns %s" % src, "the vector is not scaled to unit length")
    norm_name = None
    for n in walk_no_nested(nf.node):
        if isinstance(n, ast.Assign) and norm(n.value) in ("%s.norm" % vp,):
            norm_name = n.targets[0].id
    tolerant = [norm(c.func) for c in calls_in(nf.node) if norm(c.func).split(".")[-1] in ("isclose", "allclose", "less", "less_equal")]
    cmp_ok = True
    for n in walk_no_nested(nf.node):
        if isinstance(n, ast.Compare) and not isinstance(n.ops[0], (ast.Eq, ast.NotEq, ast.Is, ast.IsNot)):
            cmp_ok = False
    exact = not tolerant and cmp_ok
    run.ob(NORMALIZE + "::exact-zero-guard", exact, nf.where(), "zero guard %s" % (
        "is an exact == 0 / truthiness test" if exact else "uses a tolerance (%s)" % (tolerant or "inequality")),
           "a non-zero normal of length <= the tolerance (e.g. 1e-10, or a tiny angular momentum) is left un-normalised")


def _run_pv(tree, zero_mode, comps=("x", "y", "z")):
    fi = tree.func(PV)
    u = UnitV(1, {"L": 1})
    v = VectorV({c: ArrayV(S(c), u) for c in comps})
    env = {}
    if zero_mode is not None:
        env[("zero?", repr(R(S("z"))))] = zero_mode
    ev = QEval(tree, fi, env)
    return fi, ev.call_function(fi, [v], {})


def r3_perpendicular(run, tree):
    run.rule("C18.R3", "perpendicular_vector: orthogonal to the input and non-vanishing in every branch", "D1 rational identities",
             "", floor=3)
    fi = tree.func(PV)
    run.analysed(fi)
    modes = []
    try:
        _run_pv(tree, None)
        modes = [None]
    except QError as e:
        if "undecided test" in str(e):
            modes = [True, False]
        else:
            run.unresolved(PV, fi.where(), "cannot execute symbolically: %s" % e)
            return
    except (Unsupported, DimError) as e:
        run.unresolved(PV, fi.where(), "cannot execute symbolically: %s" % e)
        return
    x, y, z = R(S("x")), R(S("y")), R(S("z"))
    for mode in modes:
        label = {None: "all inputs", True: "z == 0", False: "z != 0"}[mode]
        construct = "%s[%s]" % (PV, label)
        try:
            _, out = _run_pv(tree, mode)
        except (Unsupported, QError, DimError) as e:
            run.unresolved(construct, fi.where(), "cannot execute symbolically: %s" % e)
            continue
        if not isinstance(out, VectorV) or len(out.comps) != 3:
            run.violated(construct, fi.where(), "returns %r" % (out,), "VectorBasis(n=...) for a bare normal")
            continue
        c = [out.comps[k].vals for k in "xyz"]
        dot = c[0] * x + c[1] * y + c[2] * z
        if mode is True:
            dot = dot.subs({"z": 0})
            c = [ci.subs({"z": 0}) for ci in c]
        run.ob(construct + "::orthogonal", dot == R(0), fi.where(), "result (%r, %r, %r); result . input = %r" % (c[0], c[1], c[2], dot),
               "u is not perpendicular to the requested normal: the image plane is tilted")
        # non-vanishing: clear denominators, then rank condition
        num = []
        for ci in c:
            num.append(ci.n)
        const_nonzero = any(p.is_const() and p.const_value() != 0 for p, ci in zip(num, c) if ci.d.is_const())
        ok_nv = const_nonzero
        detail = "a component is a non-zero constant" if const_nonzero else ""
        if not const_nonzero:
            rows = []
            linear = True
            for p in num:
                row = []
                for s_ in ("x", "y", "z"):
                    co = p.coeff_of(s_, 1)
                    if not co.is_const():
                        linear = False
                        break
                    row.append(co.const_value())
                rest = p - sum((Poly.sym(s_) * rw for s_, rw in zip(("x", "y", "z"), row)), Poly())
                if rest.t:
                    linear = False
                rows.append(row)
            if not linear:
                run.unresolved(construct + "::non-vanishing", fi.where(), "components are not linear: cannot decide the zero set")
                continue
            if mode is True:
                rows.append([F(0), F(0), F(1)])
            rk = rank(rows)
            if rk == 3:
                ok_nv, detail = True, "the components vanish only for the zero vector"
            elif mode is False and rank(rows + [[F(0), F(0), F(1)]]) == 3:
                ok_nv, detail = True, "the components vanish only where z == 0, excluded by the branch condition"
            else:
                ker = kernel_vector(rows)
                ok_nv, detail = False, "the result is the zero vector for the non-zero input (x,y,z) = %s" % (ker,)
        run.ob(construct + "::non-vanishing", ok_nv, fi.where(), detail,
               "a normal such as (1,-1,0): u = v = 0, every pixel samples the origin")
        unit_ok = all(out.comps[k].unit.same(out.comps["x"].unit) for k in "xyz")
        run.ob(construct + "::unit", unit_ok, fi.where(), "components share one unit: %s" % unit_ok, "", nontrivial=False)


def rank(rows):
    m = [list(r) for r in rows]
    rk = 0
    ncol = len(m[0]) if m else 0
    for col in range(ncol):
        piv = None
        for r in range(rk, len(m)):
            if m[r][col] != 0:
                piv = r
                break
        if piv is None:
            continue
        m[rk], m[piv] = m[piv], m[rk]
        for r in range(len(m)):
            if r != rk and m[r][col] != 0:
                f = m[r][col] / m[rk][col]
                m[r] = [a - f * b for a, b in zip(m[r], m[rk])]
        rk += 1
    return rk


def kernel_vector(rows):
    """A non-zero integer vector in the kernel of a 3-column system (search in a small box)."""
    for a in range(-2, 3):
        for b in range(-2, 3):
            for c in range(-2, 3):
                if (a, b, c) != (0, 0, 0) and all(r[0] * a + r[1] * b + r[2] * c == 0 for r in rows):
                    return (a, b, c)
    return "?"


def r4_handedness(run, tree):
    run.rule("C18.R4", "handedness: u x (n x u) is parallel to +n for the repository's cross product; roll is cyclic",
             "D1 polynomial identity", "", floor=2)
    fi = tree.func("core/vector.py::Vector.cross")
    n = VectorV({c: ArrayV(S("n" + c), DIMLESS) for c in "xyz"})
    u = VectorV({c: ArrayV(S("u" + c), DIMLESS) for c in "xyz"})
    try:
        ev = QEval(tree, fi, {})
        w = ev.call_function(fi, [n, u], {})          # v = n x u  (as written in VectorBasis.__init__)
        ev2 = QEval(tree, fi, {})
        t = ev2.call_function(fi, [u, w], {})         # u x v
    except (Unsupported, QError, DimError) as e:
        run.unresolved("core/vector.py::Vector.cross::triple-product", fi.where(), "cannot execute: %s" % e)
        return
    run.analysed(fi)

    def vdot(a, b):
        tot = R(0)
        for c in "xyz":
            tot = tot + a.comps[c].vals * b.comps[c].vals
        return tot
    lhs = vdot(t, n)
    rhs = vdot(u, u) * vdot(n, n) - vdot(u, n) * vdot(u, n)
    run.ob(VB + "::u-cross-v-parallel-to-n", lhs == rhs, fi.where(),
           "(u x (n x u)) . n %s |u|^2 |n|^2 - (u.n)^2" % ("==" if lhs == rhs else "!="),
           "with v = n x u the basis is left-handed (u x v = -n): the map is mirrored")
    ci = tree.cls(VB)
    rf = tree.method(ci, "roll")
    if rf is None:
        run.violated(VB + ".roll", ci.module.rel, "roll missing", "direction='side'")
        return
    ret = single_return(rf)
    sp = params(rf)[0]
    kws = {k.arg: norm(k.value) for k in ret.keywords} if isinstance(ret, ast.Call) else {}
    ok = kws == {"n": "%s.u" % sp, "u": "%s.v" % sp, "v": "%s.n" % sp}
    run.ob(VB + ".roll", ok, rf.where(), "roll -> %s" % kws, "'side' does not put the angular momentum in the image plane, or flips handedness")


def r5_forms(run, tree):
    run.rule("C18.R5", "every accepted form returns a basis; top/side from the mass-weighted angular momentum", "path rule", "",
             floor=6)
    fi = tree.func(GD)
    run.analysed(fi)
    D = params(fi)[0]
    rets = returns_of(fi.node)
    for r in rets:
        v = r.value
        ok = False
        if isinstance(v, ast.Call):
            c = tree.resolve_call(fi, v)
            if isinstance(c, ClassInfo) and c.qual == VB:
                ok = True
            elif isinstance(c, FuncInfo) and c.qual == "plot/direction.py::_basis_with_names":
                ok = True
        run.ob("%s::return@%s" % (GD, norm(v)[:50] if v is not None else "None"), ok, fi.where(r),
               "returns %s" % (norm(v)[:70] if v is not None else "None"), "an accepted direction yields something that is not a basis")
    # _basis_with_names returns its argument
    bn = tree.func("plot/direction.py::_basis_with_names")
    rr = returns_of(bn.node)
    run.ob("plot/direction.py::_basis_with_names::returns-basis", len(rr) == 1 and is_name(rr[0].value, params(bn)[0]), bn.where(),
           "returns its argument", "", nontrivial=False)
    # Vector / VectorBasis / else-raise
    branches = {"Vector": False, "VectorBasis": False, "raise": False}
    for n in walk_no_nested(fi.node):
        if isinstance(n, ast.If) and isinstance(n.test, ast.Call) and is_name(n.test.func, "isinstance") and is_name(n.test.args[0], D):
            r = tree.resolve_expr(fi.module, n.test.args[1])
            if isinstance(r, ClassInfo) and r.name in branches:
                body = " ".join(norm(s) for s in n.body)
                if r.name == "Vector":
                    branches["Vector"] = "VectorBasis(n=%s)" % D in body
                else:
                    branches["VectorBasis"] = all(("%s=%s.%s" % (c, D, c)) in body for c in "nuv")
            cur = n
            while cur.orelse:
                if len(cur.orelse) == 1 and isinstance(cur.orelse[0], ast.If):
                    cur = cur.orelse[0]
                    continue
                if any(isinstance(s, ast.Raise) for s in cur.orelse):
                    branches["raise"] = True
                break
    run.ob(GD + "::normal-vector", branches["Vector"], fi.where(), "a Vector direction -> VectorBasis(n=direction): %s" % branches["Vector"],
           "n is not parallel to the requested normal")
    run.ob(GD + "::explicit-basis", branches["VectorBasis"], fi.where(), "a VectorBasis direction keeps n,u,v: %s" % branches["VectorBasis"],
           "an explicit basis is permuted")
    run.ob(GD + "::unrecognised-raises", branches["raise"], fi.where(), "unrecognised non-string direction raises: %s" % branches["raise"],
           "a bad direction silently returns None", nontrivial=False)
    # top / side
    stm = {norm(s): s for s in walk_no_nested(fi.node) if isinstance(s, ast.stmt)}
    txt = list(stm)
    am = [t for t in txt if ".cross(" in t]
    sphere = [t for t in txt if t.startswith("sphere = ")]
    rad = [t for t in txt if t.startswith("sphere_rad = ") and "dx" in t and "dy" in t]
    wp = [t for t in txt if t.startswith("weighted_pos = ")]
    ok_am = any(t.replace(" ", "") == "ang_mom=np.sum(weighted_pos.cross(vel))" for t in am)
    ok_wp = any(t == "weighted_pos = pos[sphere] * data['mass'][sphere]" for t in wp)
    ok_vel = any(t == "vel = data['velocity'][sphere]" for t in txt)
    ok_sphere = any(t == "sphere = (pos.norm < sphere_rad).values" for t in sphere)
    ok_rad = any(t.replace(" ", "") in ("sphere_rad=0.25*(dx+dy)", "sphere_rad=(dx+dy)/4", "sphere_rad=(dx+dy)*0.25") for t in rad)
    ok_origin = any(t == "pos = pos - origin" for t in txt)
    run.ob(GD + "::angular-momentum", ok_am and ok_wp and ok_vel, fi.where(),
           "n = sum((pos*mass)[sphere] x vel[sphere]): cross=%s weighted=%s vel=%s" % (ok_am, ok_wp, ok_vel),
           "'top' looks along -L (receiver/argument swapped) or along an unweighted / unrestricted angular momentum")
    run.ob(GD + "::sphere", ok_sphere and ok_rad and ok_origin, fi.where(),
           "sphere = |pos - origin| < (dx+dy)/4: test=%s radius=%s origin=%s" % (ok_sphere, ok_rad, ok_origin),
           "the angular momentum is taken over the wrong region")
    side = any(isinstance(n, ast.If) and isinstance(n.test, ast.Compare) and const_value(n.test.comparators[0]) == "side" and
               any(norm(s) == "basis = basis.roll()" for s in n.body) for n in walk_no_nested(fi.node))
    basis_from_L = any(t == "basis = VectorBasis(n=ang_mom)" for t in txt)
    run.ob(GD + "::side-is-roll", side and basis_from_L, fi.where(), "basis = VectorBasis(n=ang_mom); side -> roll(): %s/%s" % (basis_from_L, side),
           "'side' does not put the angular momentum in the image plane")


def r6_norm_fresh(run, tree):
    from . import core_folds as cf
    run.rule("C18.R6", "normalisation divides by the CURRENT length: Vector.norm is recomputed from the components on every access "
             "(shared with C09)", "D7 fold of Vector.norm over a history with an in-place component update", "", floor=1)
    cf.check_vector_norm_fresh(run, tree)


RULES = [r6_norm_fresh, r1_axis_table, r2_constructor, r3_perpendicular, r4_handedness, r5_forms]
