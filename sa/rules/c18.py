"""C18 — every accepted map orientation yields an orthonormal, correctly oriented basis."""
from __future__ import annotations

import ast
from fractions import Fraction as F

from ..flow import enumerate_paths
from ..peval import Unsupported
from ..poly import Poly, Rat, S
from ..qeval import QEval, ArrayV, VectorV, UnitV, NumV, QError, DimError, R, DIMLESS
from ..source import norm, const_value, walk_no_nested, FuncInfo, ClassInfo
from . import direction_folds as df
from .common import is_name, params, returns_of, calls_in, single_return

EXPLANATION = "(R1) get_direction interpreted on the COMPLETE finite domain of string forms (letters, the six triples, upper case) in exact rational arithmetic: exactly the documented axis vectors, single letters right-handed, unusable directions raise; (R2) normalize = v/|v| for every zero-pattern family of a generic vector (zero vector unchanged); VectorBasis / get_direction(vector) / roll with normalize abstracted as positive scaling: orthogonal, u x v parallel to +n (sign decided per orthant of the non-zero components), n along the request, caller's vector unchanged; (R3/R4) perpendicular_vector orthogonal and non-vanishing in every branch, (u x (n x u)).n identity for the repository's cross product (symbolic execution); (R5) 'top'/'side': the summed vector equals ((pos-origin)*mass) x velocity over ONE sphere mask |pos-origin| < radius (polynomial normal forms), normal along +L / L in the image plane; (R6) Vector.norm not cached."
NOT_DECIDED = 'degenerate floating-point inputs (denormals, overflow of (x+y)/z); zero net angular momentum; tolerance-based zero tests are treated adversarially (they may hold at a tiny non-zero point)'
TRUSTED = ('CPython ast', 'polynomial/rational normal forms with square-root relations (sa/poly.py)', 'the interpreter sa/models.py (ModelEval) and its library models')

PV = "core/vector.py::perpendicular_vector"
NORMALIZE = "core/vector.py::normalize"
VB = "core/vector.py::VectorBasis"
GD = "plot/direction.py::get_direction"

TECHNIQUE = 'static analysis: abstract interpretation with exact rational functions (symbolic vectors per zero-pattern family), complete-finite-domain folding of the string forms'

def r1_axis_table(run, tree):
    run.rule("C18.R1", "every string form ('x','y','z', the six three-letter orders, any case) gives exactly the documented axis vectors; "
             "single letters are right-handed; anything unusable raises", "D7 fold of get_direction/VectorBasis/normalize over the complete "
             "finite domain of string forms, exact rational arithmetic", "", floor=12)
    df.check_string_forms(run, tree)


def r2_constructor(run, tree):
    run.rule("C18.R2", "VectorBasis / get_direction on a vector: orthonormal, u x v = +n, n along the request, for a generic vector of every "
             "zero-pattern family; roll is the cyclic permutation; a given basis passes through; the caller's vector is not changed",
             "D7 fold over 7 zero-pattern families with symbolic components (rational functions + square-root relations; sign decided "
             "per orthant)", "", floor=20)
    df.check_vector_forms(run, tree)


def _run_pv(tree, zero_mode, comps=("x", "y", "z")):
    fi = tree.func(PV)
    u = UnitV(1, {"L": 1})
    v = VectorV({c: ArrayV(S(c), u) for c in comps})
    env = {}
    if zero_mode is not None:
        env[("zero?", repr(R(S("z"))))] = zero_mode
    ev = QEval(tree, fi, env)
    return fi, ev.call_function(fi, [v], {})


def r3_perpendicular(run, tree):
    run.rule("C18.R3", "perpendicular_vector: orthogonal to the input and non-vanishing in every branch", "D1 rational identities",
             "", floor=3)
    fi = tree.func(PV)
    run.analysed(fi)
    modes = []
    try:
        _run_pv(tree, None)
        modes = [None]
    except QError as e:
        if "undecided test" in str(e):
            modes = [True, False]
        else:
            run.unresolved(PV, fi.where(), "cannot execute symbolically: %s" % e)
            return
    except (Unsupported, DimError) as e:
        run.unresolved(PV, fi.where(), "cannot execute symbolically: %s" % e)
        return
    x, y, z = R(S("x")), R(S("y")), R(S("z"))
    for mode in modes:
        label = {None: "all inputs", True: "z == 0", False: "z != 0"}[mode]
        construct = "%s[%s]" % (PV, label)
        try:
            _, out = _run_pv(tree, mode)
        except (Unsupported, QError, DimError) as e:
            run.unresolved(construct, fi.where(), "cannot execute symbolically: %s" % e)
            continue
        if not isinstance(out, VectorV) or len(out.comps) != 3:
            run.violated(construct, fi.where(), "returns %r" % (out,), "VectorBasis(n=...) for a bare normal")
            continue
        c = [out.comps[k].vals for k in "xyz"]
        dot = c[0] * x + c[1] * y + c[2] * z
        if mode is True:
            dot = dot.subs({"z": 0})
            c = [ci.subs({"z": 0}) for ci in c]
        run.ob(construct + "::orthogonal", dot == R(0), fi.where(), "result (%r, %r, %r); result . input = %r" % (c[0], c[1], c[2], dot),
               "u is not perpendicular to the requested normal: the image plane is tilted")
        # non-vanishing: clear denominators, then rank condition
        num = []
        for ci in c:
            num.append(ci.n)
        const_nonzero = any(p.is_const() and p.const_value() != 0 for p, ci in zip(num, c) if ci.d.is_const())
        ok_nv = const_nonzero
        detail = "a component is a non-zero constant" if const_nonzero else ""
        if not const_nonzero:
            rows = []
            linear = True
            for p in num:
                row = []
                for s_ in ("x", "y", "z"):
                    co = p.coeff_of(s_, 1)
                    if not co.is_const():
                        linear = False
                        break
                    row.append(co.const_value())
                rest = p - sum((Poly.sym(s_) * rw for s_, rw in zip(("x", "y", "z"), row)), Poly())
                if rest.t:
                    linear = False
                rows.append(row)
            if not linear:
                run.unresolved(construct + "::non-vanishing", fi.where(), "components are not linear: cannot decide the zero set")
                continue
            if mode is True:
                rows.append([F(0), F(0), F(1)])
            rk = rank(rows)
            if rk == 3:
                ok_nv, detail = True, "the components vanish only for the zero vector"
            elif mode is False and rank(rows + [[F(0), F(0), F(1)]]) == 3:
                ok_nv, detail = True, "the components vanish only where z == 0, excluded by the branch condition"
            else:
                ker = kernel_vector(rows)
                ok_nv, detail = False, "the result is the zero vector for the non-zero input (x,y,z) = %s" % (ker,)
        run.ob(construct + "::non-vanishing", ok_nv, fi.where(), detail,
               "a normal such as (1,-1,0): u = v = 0, every pixel samples the origin")
        unit_ok = all(out.comps[k].unit.same(out.comps["x"].unit) for k in "xyz")
        run.ob(construct + "::unit", unit_ok, fi.where(), "components share one unit: %s" % unit_ok, "", nontrivial=False)


def rank(rows):
    m = [list(r) for r in rows]
    rk = 0
    ncol = len(m[0]) if m else 0
    for col in range(ncol):
        piv = None
        for r in range(rk, len(m)):
            if m[r][col] != 0:
                piv = r
                break
        if piv is None:
            continue
        m[rk], m[piv] = m[piv], m[rk]
        for r in range(len(m)):
            if r != rk and m[r][col] != 0:
                f = m[r][col] / m[rk][col]
                m[r] = [a - f * b for a, b in zip(m[r], m[rk])]
        rk += 1
    return rk


def kernel_vector(rows):
    """A non-zero integer vector in the kernel of a 3-column system (search in a small box)."""
    for a in range(-2, 3):
        for b in range(-2, 3):
            for c in range(-2, 3):
                if (a, b, c) != (0, 0, 0) and all(r[0] * a + r[1] * b + r[2] * c == 0 for r in rows):
                    return (a, b, c)
    return "?"


def r4_handedness(run, tree):
    run.rule("C18.R4", "handedness: u x (n x u) is parallel to +n for the repository's cross product; roll is cyclic",
             "D1 polynomial identity", "", floor=1)
    fi = tree.func("core/vector.py::Vector.cross")
    n = VectorV({c: ArrayV(S("n" + c), DIMLESS) for c in "xyz"})
    u = VectorV({c: ArrayV(S("u" + c), DIMLESS) for c in "xyz"})
    try:
        ev = QEval(tree, fi, {})
        w = ev.call_function(fi, [n, u], {})          # v = n x u  (as written in VectorBasis.__init__)
        ev2 = QEval(tree, fi, {})
        t = ev2.call_function(fi, [u, w], {})         # u x v
    except (Unsupported, QError, DimError) as e:
        run.unresolved("core/vector.py::Vector.cross::triple-product", fi.where(), "cannot execute: %s" % e)
        return
    run.analysed(fi)

    def vdot(a, b):
        tot = R(0)
        for c in "xyz":
            tot = tot + a.comps[c].vals * b.comps[c].vals
        return tot
    lhs = vdot(t, n)
    rhs = vdot(u, u) * vdot(n, n) - vdot(u, n) * vdot(u, n)
    run.ob(VB + "::u-cross-v-parallel-to-n", lhs == rhs, fi.where(),
           "(u x (n x u)) . n %s |u|^2 |n|^2 - (u.n)^2" % ("==" if lhs == rhs else "!="),
           "with v = n x u the basis is left-handed (u x v = -n): the map is mirrored")


def r5_forms(run, tree):
    run.rule("C18.R5", "'top' / 'side': L = sum over the sphere |pos - origin| < radius of ((pos - origin) * mass) x velocity; top looks "
             "along +L, side puts L in the image plane", "D7 fold of get_direction over token data (polynomial normal forms of the summed "
             "vector and of the sphere mask) + symbolic basis", "", floor=6)
    df.check_angular_momentum(run, tree)


def r6_norm_fresh(run, tree):
    from . import core_folds as cf
    run.rule("C18.R6", "normalisation divides by the CURRENT length: Vector.norm is recomputed from the components on every access "
             "(shared with C09)", "D7 fold of Vector.norm over a history with an in-place component update", "", floor=1)
    cf.check_vector_norm_fresh(run, tree)


RULES = [r6_norm_fresh, r1_axis_table, r2_constructor, r3_perpendicular, r4_handedness, r5_forms]
