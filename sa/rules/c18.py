"""C18 — every accepted map orientation yields an orthonormal, correctly oriented basis."""
from __future__ import annotations

import ast
from fractions import Fraction as F

from . import direction_folds as df

EXPLANATION = "(R1) get_direction interpreted on the COMPLETE finite domain of string forms (letters, the six triples, upper case) in exact rational arithmetic: exactly the documented axis vectors, single letters right-handed, unusable directions raise; (R2) normalize = v/|v| for every zero-pattern family of a generic vector (zero vector unchanged); VectorBasis / get_direction(vector) / roll with normalize abstracted as positive scaling: orthogonal, u x v parallel to +n (sign decided per orthant of the non-zero components), n along the request, caller's vector unchanged; (R3/R4) perpendicular_vector orthogonal and non-vanishing in every branch, (u x (n x u)).n identity for the repository's cross product (symbolic execution); (R5) 'top'/'side': the summed vector equals ((pos-origin)*mass) x velocity over ONE sphere mask |pos-origin| < radius (polynomial normal forms), normal along +L / L in the image plane; (R6) Vector.norm not cached. (R5) keyword spellings in any case; (R7) what map() asks of get_direction: the caller's direction, the first layer, window width and height, origin. (R8) Datagroup.layer carries the members the group holds now. R1 also asks get_direction again after the first answer was edited in place (no axis vector is shared between calls)."
NOT_DECIDED = 'degenerate floating-point inputs (denormals, overflow of (x+y)/z); zero net angular momentum; tolerance-based zero tests are treated adversarially (they may hold at a tiny non-zero point)'
TRUSTED = ('CPython ast', 'polynomial/rational normal forms with square-root relations (sa/poly.py)', 'the interpreter sa/models.py (ModelEval) and its library models')

PV = "core/vector.py::perpendicular_vector"
NORMALIZE = "core/vector.py::normalize"
VB = "core/vector.py::VectorBasis"
GD = "plot/direction.py::get_direction"

TECHNIQUE = 'static analysis: abstract interpretation with exact rational functions (symbolic vectors per zero-pattern family), complete-finite-domain folding of the string forms'

def r1_axis_table(run, tree):
    run.rule("C18.R1", "every string form ('x','y','z', the six three-letter orders, any case) gives exactly the documented axis vectors; "
             "single letters are right-handed; anything unusable raises", "D7 fold of get_direction/VectorBasis/normalize over the complete "
             "finite domain of string forms, exact rational arithmetic", "", floor=12)
    df.check_string_forms(run, tree)


def r2_constructor(run, tree):
    run.rule("C18.R2", "VectorBasis / get_direction on a vector: orthonormal, u x v = +n, n along the request, for a generic vector of every "
             "zero-pattern family; roll is the cyclic permutation; a given basis passes through; the caller's vector is not changed",
             "D7 fold over 7 zero-pattern families with symbolic components (rational functions + square-root relations; sign decided "
             "per orthant)", "", floor=20)
    df.check_vector_forms(run, tree)


def r3_perpendicular(run, tree):
    run.rule("C18.R3", "perpendicular_vector: orthogonal to the input and non-vanishing in every branch, for ALL inputs of the branch",
             "D7 fold with symbolic components + rank condition on the linear components", "", floor=3)
    df.check_perpendicular(run, tree)


def r4_handedness(run, tree):
    from . import vecq_folds as vq
    run.rule("C18.R4", "handedness: (u x (n x u)).n = |u|^2|n|^2 - (u.n)^2 for the repository's cross product", "D7 fold of Vector.cross with symbolic components", "", floor=1)
    vq.check_triple_product(run, tree)


def r5_forms(run, tree):
    run.rule("C18.R5", "'top' / 'side': L = sum over the sphere |pos - origin| < radius of ((pos - origin) * mass) x velocity; top looks "
             "along +L, side puts L in the image plane", "D7 fold of get_direction over token data (polynomial normal forms of the summed "
             "vector and of the sphere mask) + symbolic basis", "", floor=6)
    df.check_angular_momentum(run, tree)


def r6_norm_fresh(run, tree):
    from . import core_folds as cf
    run.rule("C18.R6", "normalisation divides by the CURRENT length: Vector.norm is recomputed from the components on every access "
             "(shared with C09)", "D7 fold of Vector.norm over a history with an in-place component update", "", floor=1)
    cf.check_vector_norm_fresh(run, tree)


def r7_map_call(run, tree):
    run.rule("C18.R7", "map() asks for the basis with the caller's direction, the first layer, the window width and height (dy, or dx when dy is omitted) "
             "in the spatial unit, and the origin", "D7 fold of plot/map.py::map with get_direction recorded", "", floor=4)
    from . import map_folds as mf
    mf.check_map_direction_call(run, tree)


def r8_layer_data(run, tree):
    run.rule("C18.R8", "the positions, masses and velocities 'top'/'side' are computed from are those the group holds when the layer is made (Datagroup.layer after a member was "
             "replaced under its key; shared with C06.R1)", "D7 history fold of the Datagroup class", "", floor=10)
    from . import core_folds as cf
    cf.check_datagroup_histories(run, tree)


RULES = [r6_norm_fresh, r1_axis_table, r2_constructor, r3_perpendicular, r4_handedness, r5_forms, r7_map_call, r8_layer_data]


def t_all_spellings(run, tree):
    run.rule("C18.T1", "thorough: every accepted axis string in every mix of upper and lower case (3 x 2 + 6 x 8 = 54 spellings) gives exactly the documented axis vectors", "D7 fold of get_direction over the complete string domain", "", floor=54)
    df.check_string_forms(run, tree, all_cases=True)


THOROUGH_RULES = [t_all_spellings]
