"""Readers of the RAMSES binary files interpreted (ModelEval) on a symbolic file: byte positions are exact polynomials in
the header parameters (ncpu, levelmax, nboundary, noutput, ncache, ...); every decode is aligned against the layout
specification S1 and named after the record it hits (not after the local variable it is assigned to); buffer writes and
header fields are followed as values."""
from __future__ import annotations

import re
import ast

from ..models import ModelEval, Raised, Marker
from ..peval import Model, Unsupported, ProgramRaised
from ..poly import Poly, Rat, Fn
from ..source import AnalysisError
from ..specs import ramses_layout as L
from ..symnp import Sym, Sc, Stack, origin_of
from .core_models import UnitTok

ERR = (Unsupported, AnalysisError)
SIZE = dict(L.SIZE, n=8)
TOKEN = re.compile(r"⟦(\d+)⟧")


class SI(Sc):
    """symbolic non-negative integer: formats as a registry token (so that it survives '{}d'.format(n) and f-strings);
    order comparisons against numbers are decided by explicit assumptions of the scenario"""
    registry = []
    assume = {}

    def __format__(self, spec):
        SI.registry.append(self)
        return "⟦%d⟧" % (len(SI.registry) - 1)

    def __str__(self):
        return self.__format__("")

    @staticmethod
    def wrap(x):
        if isinstance(x, SI):
            return x
        if isinstance(x, Sc):
            return SI(x.r)
        if isinstance(x, (int, float)) and not isinstance(x, bool):
            return SI(Poly.const(x))
        return None

    def _sc(self, o, f):
        o2 = Sc.lift(o)
        if o2 is None:
            return None
        return SI(f(self.r, o2.r))

    def const(self):
        try:
            p = self.r.as_poly()
        except (ValueError, AttributeError):
            return None
        return p.const_value() if p.is_const() else None

    def _cmp(self, o, op):
        d = self - o
        c = d.const() if isinstance(d, SI) else None
        if c is not None:
            return {"<": c < 0, "<=": c <= 0, ">": c > 0, ">=": c >= 0}[op]
        key = (repr(self.r), op, repr(Sc.lift(o).r) if Sc.lift(o) is not None else repr(o))
        if key in SI.assume:
            return SI.assume[key]
        raise Unsupported("undecided comparison %s %s %r" % (self, op, o))

    def __lt__(self, o):
        return self._cmp(o, "<")

    def __le__(self, o):
        return self._cmp(o, "<=")

    def __gt__(self, o):
        return self._cmp(o, ">")

    def __ge__(self, o):
        return self._cmp(o, ">=")

    def __floordiv__(self, o):
        k = Sc.lift(o)
        if k is not None and SI.wrap(k).const() is not None:
            c, me = SI.wrap(k).const(), self.const()
            if me is not None and c:
                return SI(Poly.const(int(me) // int(c)))
            return SI(Poly.sym(Fn("floordiv", self.r, int(c))))
        raise Unsupported("floor division by %r" % (o,))

    def __bool__(self):
        c = self.const()
        if c is not None:
            return c != 0
        raise Unsupported("truth value of %r" % (self,))

    def __repr__(self):
        return "SI%r" % (self.origin[1],)


def si(name):
    return SI(Poly.sym(name))


def parse_count(text):
    m = TOKEN.fullmatch(text)
    if m:
        return SI.registry[int(m.group(1))]
    if TOKEN.search(text):
        raise Unsupported("format count %r mixes digits and a symbolic number" % text)
    return int(text)


def b_int(x, *a):
    if isinstance(x, str):
        try:
            return parse_count(x.strip())
        except ValueError:
            raise Raised("ValueError", None, "invalid literal for int(): %r" % x)
    if isinstance(x, Sc):
        c = SI.wrap(x).const()
        if c is not None:
            return int(c)
        # int(n / k) of a non-negative count is n // k
        r = x.r
        try:
            d = r.d
            if d.is_const() and float(d.const_value()).is_integer() and d.const_value() != 1:
                return SI(Poly.sym(Fn("floordiv", Rat(r.n), int(d.const_value()))))
        except AttributeError:
            pass
        return SI(Poly.sym(Fn("int", x.r)))
    return int(x, *a)


def b_float(x):
    if isinstance(x, Sc):
        return x
    return float(x)


class Event:
    def __init__(self, pos, count, char, kind):
        self.pos, self.count, self.char, self.kind = pos, count, char, kind
        self.record = None
        self.how = None

    def __repr__(self):
        return "read %s x %s at byte %r -> %s" % (self.count, self.char, self.pos, self.record or "NO RECORD")


class Bytes(Model):
    def __init__(self, lo, hi):
        self.lo, self.hi = lo, hi


class Content(Model):
    """the bytes of one file"""

    def __getitem__(self, idx):
        if isinstance(idx, slice) and idx.step is None:
            return Bytes(SI.wrap(idx.start if idx.start is not None else 0), SI.wrap(idx.stop))
        raise Unsupported("file content indexed with %r" % (idx,))

    def __len__(self):
        raise Unsupported("length of the file")


class FileSpec:
    """records of one file section: (name, type, count polynomial, repeat) laid out from byte `base`"""

    def __init__(self, records, base=None, subst=None):
        self.records = []
        pos = base if base is not None else SI(Poly())
        for nm, ty, cnt, rep in records:
            cnt = SI(Poly.lift(cnt).subs(subst) if subst else Poly.lift(cnt)) if not isinstance(cnt, SI) else cnt
            rep = Poly.lift(rep).subs(subst) if subst else Poly.lift(rep)
            repc = rep.const_value() if rep.is_const() else None
            if repc is not None:
                for k in range(int(repc)):
                    self.records.append(("%s[%d]" % (nm, k) if repc != 1 else nm, ty, cnt, pos))
                    pos = pos + cnt * SIZE[ty] + 8
            else:
                self.records.append((nm + "[*]", ty, cnt, pos))
                pos = pos + SI(rep) * (cnt * SIZE[ty] + 8)
        self.end = pos

    def match(self, pos):
        for nm, ty, cnt, start in self.records:
            if pos == start + 4:
                return nm, ty, cnt, "payload"
            if pos == start:
                return nm, ty, cnt, "marker"
        return None


class Unpacked(Sym):
    """the items of a record too long to enumerate"""

    def __init__(self, event):
        super().__init__(("unpacked", event.record or "?", repr(event.pos)))
        self.event = event


class Fold:
    """state of one layout fold: the events, the file spec and the symbols bound to decoded fields"""

    def __init__(self, spec=None):
        self.events = []
        self.spec = spec
        self.misaligned = []
        self.bind = {}        # decoded header fields given a CONCRETE value in this fold (e.g. npart = 0: a file without particles)

    def unpack(self, fmt, data):
        if not isinstance(data, Bytes):
            raise Unsupported("struct.unpack on %r" % (data,))
        if not isinstance(fmt, str) or not fmt:
            raise Unsupported("struct.unpack format %r" % (fmt,))
        char = fmt[-1]
        count = parse_count(fmt[:-1]) if len(fmt) > 1 else 1
        ev = Event(data.lo, count, char, None)
        self.events.append(ev)
        size = data.hi - data.lo
        if char not in SIZE or not (size == SI.wrap(count) * SIZE[char]):
            ev.how = "%r bytes are unpacked as %s x %s" % (size, count, char)
            self.misaligned.append(ev)
        hit = self.spec.match(data.lo) if self.spec is not None else None
        names = None
        if hit is None:
            ev.record = None
            if self.spec is not None:
                self.misaligned.append(ev)
                ev.how = ev.how or "no record of the layout starts at this byte"
        else:
            nm, ty, cnt, kind = hit
            ev.record, ev.kind = nm, kind
            if kind == "marker":
                if char != "i" or count != 1:
                    ev.how = "a record length marker is decoded as %s x %s" % (count, char)
                    self.misaligned.append(ev)
                return [SI.wrap(cnt) * SIZE[ty]]
            if char != ty:
                ev.how = "record %s holds %s, decoded as %s" % (nm, ty, char)
                self.misaligned.append(ev)
            if not (SI.wrap(count) <= cnt if SI.wrap(count).const() is not None and SI.wrap(cnt).const() is not None else SI.wrap(count) == cnt):
                ev.how = "record %s has %r items, %r are decoded" % (nm, cnt, count)
                self.misaligned.append(ev)
            names = [x.strip() for x in nm.split(",")]
        if isinstance(count, int) and count <= 8:
            out = []
            for k in range(count):
                if names and k < len(names) and names[k] in self.bind:
                    out.append(self.bind[names[k]])
                elif names and k < len(names) and re.fullmatch(r"[A-Za-z_][A-Za-z_0-9]*", names[k]):
                    out.append(si(names[k]))
                else:
                    out.append(si("field<%s#%d@%s>" % (ev.record or "?", k, len(self.events))))
            return tuple(out)
        return Unpacked(ev)


DTYPE_CHAR = {"int8": "b", "uint8": "B", "int16": "h", "uint16": "H", "int32": "i", "uint32": "I", "int64": "q", "uint64": "Q", "float32": "f", "float64": "d",
              "byte": "b", "ubyte": "B", "short": "h", "intc": "i", "longlong": "q", "single": "f", "double": "d"}
SIZE.update({"B": 1, "H": 2, "I": 4, "Q": 8}) if isinstance(SIZE, dict) else None


def frombuffer_model(fold):
    """numpy.frombuffer(content, dtype=, count=, offset=): the same decode as struct.unpack of `count` items of the type of `dtype` at `offset`
    (signedness included: a byte record read as uint8 turns -1 into 255)"""
    def f(content, dtype=None, count=-1, offset=0, **k):
        name = dtype if isinstance(dtype, str) else (dtype.data[0].split(".")[-1] if isinstance(dtype, Marker) and dtype.kind == "ext" else
                                                     dtype[1] if isinstance(dtype, tuple) and dtype[:1] == ("dtype",) else None)
        char = DTYPE_CHAR.get(str(name).lstrip("<>=|")) if name is not None else None
        if char is None or char not in SIZE:
            raise Unsupported("numpy.frombuffer with dtype %r" % (dtype,))
        if not isinstance(content, Content) or (isinstance(count, int) and count < 0):
            raise Unsupported("numpy.frombuffer(%r, count=%r)" % (content, count))
        lo = SI.wrap(offset)
        hi = lo + SI.wrap(count) * SIZE[char]
        return fold.unpack("%s%s" % (count if isinstance(count, int) else format(count, ""), char), Bytes(lo, hi))
    return f


class NdBuf(Model):
    """an ndarray allocated by the reader: element/slice writes are recorded, reads return what was written (for concrete
    indices) or a symbolic selection"""
    kinds = ("ndarray",)

    def __init__(self, name, shape=None, dtype=None):
        self.name, self.shape_, self.dtype = name, shape, dtype
        self.writes = []
        self.cells = {}

    @property
    def origin(self):
        return ("buf", self.name)

    def __setitem__(self, idx, value):
        key = origin_of(idx)
        self.writes.append((idx, value))
        try:
            hash(key)
            self.cells[key] = value
        except TypeError:
            pass

    def __getitem__(self, idx):
        key = origin_of(idx)
        try:
            if key in self.cells:
                return self.cells[key]
        except TypeError:
            pass
        return Sym(("idx", self.origin, key))

    def reshape(self, *a):
        return Sym(("reshape", self.origin, origin_of(a)))

    @property
    def T(self):
        return Sym(("T", self.origin))

    @property
    def shape(self):
        if self.shape_ is None:
            raise Unsupported("shape of the buffer %s is not known" % self.name)
        return tuple(self.shape_) if isinstance(self.shape_, (list, tuple)) else (self.shape_,)

    @property
    def size(self):
        n = 1
        for d in self.shape:
            n = n * d
        return n


class ArrBuf(Model):
    """osyris Array as the readers use it: a unit and a raw buffer"""
    kinds = ("Array", "Base")

    def __init__(self, values=None, unit=None, name=""):
        self._array = values
        self.unit = unit
        self.name = name

    @property
    def values(self):
        return self._array

    @property
    def origin(self):
        return ("Array", origin_of(self._array), origin_of(self.unit))


class UnitQ(Model):
    """units[key]: a pint Quantity (code unit -> physical unit): magnitude scales, units labels"""
    kinds = ("Quantity",)

    def __init__(self, key):
        self.key = key
        self.magnitude = Sym(("magnitude", key))
        self.units = UnitTok("unit:" + key)
        self.m, self.u = self.magnitude, self.units

    @property
    def origin(self):
        return ("quantity", self.key)


def layout_hooks(fold, extra_ext=None):
    counter = {"n": 0}

    def alloc(kind):
        def f(shape=None, *a, **k):
            counter["n"] += 1
            return NdBuf("%s#%d" % (kind, counter["n"]), shape, k.get("dtype", a[0] if a else None))
        return f

    def np_array(x, *a, **k):
        if isinstance(x, (Unpacked, Sym, NdBuf)):
            return x
        if isinstance(x, (tuple, list)):
            return Stack(list(x)) if not all(isinstance(e, (int, float)) for e in x) else Sym(("const", tuple(x)))
        return x

    def logical_and(a, b):
        for x, y in ((a, b), (b, a)):
            if x is False:
                return False
            if x is True:
                return y
        return Sym(("and", frozenset([repr(origin_of(a)), repr(origin_of(b))]), origin_of(a), origin_of(b)))

    def logical_not(a):
        if isinstance(a, bool):
            return not a
        return Sym(("not", origin_of(a)))
    ext = {"struct.unpack": fold.unpack, "numpy.frombuffer": frombuffer_model(fold), "numpy.zeros": alloc("zeros"), "numpy.empty": alloc("empty"), "numpy.ones": alloc("ones"),
           "numpy.array": np_array, "numpy.asarray": np_array, "numpy.dtype": lambda t, *a: ("dtype", t),
           "numpy.logical_and": logical_and, "numpy.logical_not": logical_not,
           "numpy.float64": "float64", "numpy.int32": "int32", "numpy.int64": "int64", "numpy.float32": "float32"}
    if extra_ext:
        ext.update(extra_ext)
    return {"ext": ext, "builtins": {"int": b_int, "float": b_float, "print": lambda *a, **k: None},
            "class": {"core/array.py::Array": ArrBuf}, "globals": {}, "pkgfunc": {}}


def position(offsets):
    """the byte the next record starts at, from the counters (this IS read_binary_data's formula, checked by the locator rule)"""
    pos = SI(Poly())
    for k, v in offsets.items():
        pos = pos + SI.wrap(v) * SIZE[k]
    return pos


def new_reader(tree, cls_qual, hooks, variables, offsets=None):
    ci = tree.cls(cls_qual)
    init = tree.method(ci, "__init__")
    ev = ModelEval(tree, init, {}, hooks)
    r = ev.instantiate(ci, [], {}, None)
    r._attrs["bytes"] = Content()
    r._attrs["offsets"] = dict(offsets if offsets is not None else {k: SI(Poly()) for k in "bidnsql"})
    r._attrs["initialized"] = True
    r._attrs["variables"] = {name: {"read": read, "type": ty, "buffer": None, "pieces": {}, "unit": UnitQ(name)} for name, (read, ty) in variables.items()}
    return ci, r


def call(tree, hooks, ci, obj, mname, *args, **kwargs):
    m = tree.method(ci, mname)
    if m is None:
        raise Raised("AttributeError", None, "%s has no method %s" % (ci.name, mname))
    return ModelEval(tree, m, {}, hooks).invoke(m, [obj] + list(args), kwargs, None)


# =============================================================================== record locator (read_binary_data itself)
RBD = "io/utils.py::read_binary_data"


def check_record_locator(run, tree):
    fi = tree.func(RBD)
    run.analysed(fi)
    keys = "bidnsql"
    for skip_head in (True, False):
        for increment in (True, False):
            for ty in ("i", "d", "b"):
                construct = "%s[%s,skip_head=%s,increment=%s]" % (RBD, ty, skip_head, increment)
                try:
                    fold = Fold(None)
                    hooks = layout_hooks(fold)
                    offsets = {k: si("o_" + k) for k in keys}
                    m = si("m")
                    fmt = "%s%s" % (format(m, ""), ty)
                    try:
                        ModelEval(tree, fi, {}, hooks).invoke(fi, [], {"content": Content(), "fmt": fmt, "offsets": offsets, "skip_head": skip_head,
                                                                         "increment": increment}, None)
                    except (Raised, ProgramRaised) as e:
                        run.violated(construct, fi.where(), "raises %s" % e, "every read")
                        continue
                    want_pos = si("o_n") * 8 + (4 if skip_head else 0)
                    for k in keys:
                        if k != "n":
                            want_pos = want_pos + si("o_" + k) * SIZE[k]
                    problems = []
                    if len(fold.events) != 1:
                        problems.append("%d decodes" % len(fold.events))
                    else:
                        e = fold.events[0]
                        if not e.pos == want_pos:
                            problems.append("position %r, required %r" % (e.pos, want_pos))
                        if e.char != ty or not (SI.wrap(e.count) == m):
                            problems.append("decodes %s x %s" % (e.count, e.char))
                        problems += [x.how for x in fold.misaligned]
                    want = {k: si("o_" + k) for k in keys}
                    want["n"] = want["n"] + 1
                    if increment:
                        want[ty] = want[ty] + m
                    for k in keys:
                        if not (SI.wrap(offsets[k]) == want[k]):
                            problems.append("offsets[%s] becomes %r, required %r" % (k, offsets[k], want[k]))
                    run.ob(construct, not problems, fi.where(), "; ".join(problems) or "position = sum(count*size) + 8*records + %d; counters advanced" % (4 if skip_head else 0),
                           "every record after the first %s of type %s is decoded from the wrong bytes" % ("read" if increment else "peek", ty))
                except ERR as e:
                    run.unresolved(construct, fi.where(), "cannot fold read_binary_data: %s" % e)
    # single-item format (no count)
    construct = RBD + "[single item]"
    try:
        fold = Fold(None)
        offsets = {k: si("o_" + k) for k in keys}
        ModelEval(tree, fi, {}, layout_hooks(fold)).invoke(fi, [], {"content": Content(), "fmt": "d", "offsets": offsets}, None)
        ok = len(fold.events) == 1 and fold.events[0].count == 1 and not fold.misaligned and SI.wrap(offsets["d"]) == si("o_d") + 1
        run.ob(construct, ok, fi.where(), "fmt='d' decodes one item and advances the d counter by one: %s" % ok, "single-value records", nontrivial=False)
    except (Raised, ProgramRaised) + ERR as e:
        run.unresolved(construct, fi.where(), "cannot fold: %s" % e)


# =============================================================================== headers
AMR = "io/amr.py::AmrReader"
MESH = {"hydro": ("io/hydro.py::HydroReader", L.HYDRO_HEADER), "grav": ("io/grav.py::GravReader", L.GRAV_HEADER), "rt": ("io/rt.py::RtReader", L.RT_HEADER)}


def base_info():
    return {"ncpu": si("ncpu"), "levelmax": si("levelmax"), "ndim": 3, "boxlen": Sym("boxlen"), "lmax": 5, "nparticles": si("np0")}


def check_amr_header(run, tree):
    for nb_pos in (False, True):
        label = "nboundary>0" if nb_pos else "nboundary=0"
        construct = "%s.read_header[%s]" % (AMR, label)
        m = tree.func(AMR + ".read_header")
        run.analysed(m)
        try:
            SI.assume = {(repr(si("nboundary").r), ">", repr(Sc.lift(0).r)): nb_pos, (repr(si("nboundary").r), "<=", repr(Sc.lift(0).r)): not nb_pos,
                         (repr(si("nboundary").r), ">=", repr(Sc.lift(1).r)): nb_pos}
            nco = Poly.sym("nx") * Poly.sym("ny") * Poly.sym("nz")
            fold = Fold(FileSpec(L.amr_header(nb_pos), subst={"ncoarse": nco}))
            hooks = layout_hooks(fold, {"numpy.transpose": lambda x, *a: x.T})
            ci, r = new_reader(tree, AMR, hooks, {})
            info = base_info()
            try:
                call(tree, hooks, ci, r, "read_header", info)
            except (Raised, ProgramRaised) as e:
                run.violated(construct, m.where(), "raises %s" % e, "every AMR file with %s" % label)
                continue
            problems = []
            for e in fold.misaligned:
                problems.append("%r: %s" % (e, e.how))
            end = position(r._attrs["offsets"])
            if not (end == fold.spec.end):
                problems.append("header length %r, RAMSES writes %r" % (end, fold.spec.end))
            run.ob(construct + "::alignment", not problems, m.where(), "; ".join(problems[:3]) or
                   "%d decodes, each on the record it names; header length = %r bytes" % (len(fold.events), fold.spec.end),
                   "header fields are garbage / every grid record of the file is decoded from shifted bytes for some (ncpu, levelmax, nboundary, noutput)")
            got = {e.record: e for e in fold.events if e.record}
            need = ["nx,ny,nz", "nboundary", "noutput,iout,ifout", "dtold", "dtnew", "numbl", "bound_key"] + (["numbb"] if nb_pos else [])
            missing = [x for x in need if x not in got]
            # where the decoded values end up
            vp = []
            meta = r._attrs.get("meta", {})
            if not (isinstance(meta.get("nboundary"), Sc) and meta["nboundary"] == si("nboundary")):
                vp.append("meta['nboundary'] = %r (required the nboundary record)" % (meta.get("nboundary"),))
            xb = meta.get("xbound")
            want_xb = [si(c) // 2 for c in ("nx", "ny", "nz")]
            if not (isinstance(xb, list) and len(xb) == 3 and all(isinstance(a, Sc) and a == b for a, b in zip(xb, want_xb))):
                vp.append("meta['xbound'] = %r (required [int(nx/2), int(ny/2), int(nz/2)])" % (xb,))
            ng = meta.get("ngridlevel")
            if not isinstance(ng, NdBuf):
                vp.append("meta['ngridlevel'] = %r" % (ng,))
            else:
                wants = [("numbl", (("slice", None, si("ncpu").origin, None), ("slice", None, None, None)), (si("levelmax").origin, si("ncpu").origin))]
                if nb_pos:
                    wants.append(("numbb", (("slice", si("ncpu").origin, (si("ncpu") + si("nboundary")).origin, None), ("slice", None, None, None)),
                                  (si("levelmax").origin, si("nboundary").origin)))
                if len(ng.writes) != len(wants):
                    vp.append("%d writes into ngridlevel (required %d)" % (len(ng.writes), len(wants)))
                for (idx, val), (rec, widx, wshape) in zip(ng.writes, wants):
                    o = origin_of(val)
                    ok = origin_of(idx) == widx and isinstance(o, tuple) and o[0] == "T" and isinstance(o[1], tuple) and o[1][0] == "reshape" and \
                        isinstance(o[1][1], tuple) and o[1][1][:2] == ("unpacked", rec) and tuple(o[1][2]) == wshape
                    if not ok:
                        vp.append("ngridlevel[%s] = %s (required rows %s from record %s reshaped (levelmax, n).T: RAMSES stores the level as the slow index)" % (
                            origin_of(idx), o, widx[0], rec))
            for key, rec in (("dtold", "dtold"), ("dtnew", "dtnew")):
                o = origin_of(info.get(key))
                if not (isinstance(o, tuple) and o[:2] == ("unpacked", rec)):
                    vp.append("info[%r] = %r (required record %s)" % (key, o, rec))
            run.ob(construct + "::fields", not missing and not vp, m.where(), "; ".join((["records not decoded: %s" % missing] if missing else []) + vp[:3]) or
                   "nx,ny,nz -> xbound; nboundary; dtold/dtnew; grid counts per level from numbl/numbb with (level, cpu) transposed",
                   "grid counts per level are garbage (cells of other CPUs/levels are read), one coordinate of every cell is shifted by a box length")
        except ERR as e:
            run.unresolved(construct, m.where(), "cannot fold: %s" % e)
        finally:
            SI.assume = {}


def check_simple_headers(run, tree):
    for name, (cq, spec) in MESH.items():
        m = tree.method(tree.cls(cq), "read_header")
        construct = "%s.read_header" % cq
        run.analysed(m)
        try:
            fold = Fold(FileSpec(spec))
            hooks = layout_hooks(fold)
            ci, r = new_reader(tree, cq, hooks, {})
            info = base_info()
            try:
                call(tree, hooks, ci, r, "read_header", info)
            except (Raised, ProgramRaised) as e:
                run.violated(construct, m.where(), "raises %s" % e, "every %s file" % name)
                continue
            problems = ["%r: %s" % (e, e.how) for e in fold.misaligned]
            end = position(r._attrs["offsets"])
            if not (end == fold.spec.end):
                problems.append("header length %r, RAMSES writes %r" % (end, fold.spec.end))
            if name == "hydro" and not (isinstance(info.get("gamma"), Sc) and info["gamma"] == si("gamma")):
                problems.append("info['gamma'] = %r (required the gamma record)" % (info.get("gamma"),))
            run.ob(construct, not problems, m.where(), "; ".join(problems[:3]) or "header length = %r bytes; %d decodes aligned" % (fold.spec.end, len(fold.events)),
                   "all variables of this file are decoded from shifted bytes")
        except ERR as e:
            run.unresolved(construct, m.where(), "cannot fold: %s" % e)


# =============================================================================== per-block bodies of the mesh files
def symsem(o):
    """Sym origin tree -> polynomial; anything opaque (decoded records, magnitudes, named symbols) is a symbol"""
    if isinstance(o, bool):
        raise Unsupported("boolean in arithmetic")
    if isinstance(o, (int, float)):
        return Poly.const(o)
    if isinstance(o, str):
        return Poly.sym(o)
    if isinstance(o, tuple) and o:
        h = o[0]
        if h in ("+", "*") and len(o) == 2 and isinstance(o[1], tuple):
            acc = Poly.const(0 if h == "+" else 1)
            for x in o[1]:
                acc = acc + symsem(x) if h == "+" else acc * symsem(x)
            return acc
        if h == "-" and len(o) == 3:
            return symsem(o[1]) - symsem(o[2])
        if h == "/" and len(o) == 3:
            d = symsem(o[2])
            if d.is_const() and d.const_value() != 0:
                return symsem(o[1]) / d
        if h == "neg":
            return -symsem(o[1])
        if h == "sc":
            return Poly.sym("sc:" + o[1])
    return Poly.sym(repr(o))




def run_block(tree, cq, variables, spec_records, subst, lmax=5, ilevel=2, domain_header=True, levelmax=None, ndim=3):
    """one (level, domain) block in owner mode, following the loader's call protocol (established by the Loader.load fold)"""
    base = {k: si("o_" + k) for k in "bidnsql"}
    B = position(base)
    fold = Fold(FileSpec(spec_records, base=B, subst=subst))
    hooks = layout_hooks(fold)
    ci, r = new_reader(tree, cq, hooks, variables, offsets=dict(base))
    info = base_info()
    info["lmax"] = lmax
    info["ndim"] = ndim
    two = 2 ** ndim
    if levelmax is not None:
        info["levelmax"] = levelmax
    r._attrs.setdefault("meta", {})
    r._attrs["meta"]["xbound"] = [Sym("xb0"), Sym("xb1"), Sym("xb2")]
    ncache = si("ncache")
    if cq == AMR:
        pass
        r._attrs["xcent"] = NdBuf("xcent")
    call(tree, hooks, ci, r, "read_level_header", ilevel, two)
    if domain_header:
        call(tree, hooks, ci, r, "read_domain_header")
    after_dh = position(r._attrs["offsets"])
    call(tree, hooks, ci, r, "allocate_buffers", ncache, two)
    call(tree, hooks, ci, r, "read_cacheline_header", ncache, ndim)
    for ind in range(two):
        call(tree, hooks, ci, r, "read_variables", ncache, ind, ilevel, si("cpuid"), info)
    call(tree, hooks, ci, r, "read_footer", ncache, two)
    return fold, ci, r, info, hooks, B, after_dh


def check_bodies(run, tree, aspects=("layout", "values", "skip"), all_subsets=False):
    ncache = si("ncache")
    hydro_vars = {"v1": (True, "d"), "v2": (False, "d"), "v3": (True, "d")}
    amr_vars = {"level": (True, "i"), "cpu": (True, "i"), "dx": (True, "d"), "position_x": (True, "d"), "position_y": (True, "d"), "position_z": (True, "d")}
    cases = [(AMR, "amr", amr_vars, L.AMR_BODY, {"ndim": Poly.const(3), "twotondim": Poly.const(8)}, False)]
    if "values" in aspects:
        # partial selections of the AMR variables: each remaining variable is still filled from its own axis / record
        for off in (("position_x",), ("position_x", "position_y", "level"), ("position_y", "dx", "cpu")):
            cases.append((AMR, "amr", {k: ((k not in off), t) for k, (_, t) in amr_vars.items()}, L.AMR_BODY, {"ndim": Poly.const(3), "twotondim": Poly.const(8)}, False))
    # a 2-D output (the buffers of the reader are always 3 columns wide; the FILE holds ndim coordinate records per grid), with and without positions
    amr2 = {k: v for k, v in amr_vars.items() if k != "position_z"}
    cases.append((AMR, "amr", amr2, L.AMR_BODY, {"ndim": Poly.const(2), "twotondim": Poly.const(4)}, False, 2))
    cases.append((AMR, "amr", {k: (not k.startswith("position"), t) for k, (_, t) in amr2.items()}, L.AMR_BODY, {"ndim": Poly.const(2), "twotondim": Poly.const(4)}, False, 2))
    for name, (cq, _) in MESH.items():
        cases.append((cq, name, hydro_vars, L.DOMAIN_HEADER + L.VAR_BODY, {"twotondim": Poly.const(8), "nvar": Poly.const(3)}, True))
        if "values" in aspects or "layout" in aspects:
            # the requested variables are not the last ones of the descriptor: the trailing records are still stepped over for every child cell
            cases.append((cq, name, {"v1": (True, "d"), "v2": (False, "d"), "v3": (False, "d")}, L.DOMAIN_HEADER + L.VAR_BODY, {"twotondim": Poly.const(8), "nvar": Poly.const(3)}, True))
            cases.append((cq, name, {"v1": (False, "d"), "v2": (True, "d"), "v3": (False, "d")}, L.DOMAIN_HEADER + L.VAR_BODY, {"twotondim": Poly.const(8), "nvar": Poly.const(3)}, True))
    if all_subsets:
        # thorough tier: EVERY selection of the six AMR variables and every selection of the variables of a mesh reader
        import itertools
        cases = []
        names = list(amr_vars)
        for r_ in range(0, len(names) + 1):
            for off in itertools.combinations(names, r_):
                cases.append((AMR, "amr", {k: ((k not in off), t) for k, (_, t) in amr_vars.items()}, L.AMR_BODY, {"ndim": Poly.const(3), "twotondim": Poly.const(8)}, False))
        for name, (cq, _) in MESH.items():
            for flags in itertools.product((True, False), repeat=3):
                cases.append((cq, name, {"v%d" % (i + 1): (f, "d") for i, f in enumerate(flags)}, L.DOMAIN_HEADER + L.VAR_BODY, {"twotondim": Poly.const(8), "nvar": Poly.const(3)}, True))
    for cq, name, variables, spec, subst, dh, *nd in cases:
        ndim_ = nd[0] if nd else 3
        m = tree.method(tree.cls(cq), "read_variables")
        run.analysed(m)
        off = [k for k, (rd, _) in variables.items() if not rd]
        construct = "%s::owner-block" % cq + ("[ndim=%d]" % ndim_ if ndim_ != 3 else "") + ("[not selected: %s]" % ", ".join(off) if (cq == AMR or all_subsets or off != ["v2"]) and off else "")
        try:
            try:
                fold, ci, r, info, hooks, B, after_dh = run_block(tree, cq, variables, spec, subst, domain_header=True, ndim=ndim_)
            except (Raised, ProgramRaised) as e:
                run.violated(construct, m.where(), "raises %s" % e, "reading any %s file" % name)
                continue
            end = position(r._attrs["offsets"])
            if "layout" in aspects and not (cq == AMR and off):
                problems = ["%r: %s" % (e, e.how) for e in fold.misaligned]
                if not (end == fold.spec.end):
                    problems.append("the block advances the file position by %r bytes, RAMSES writes %r" % (end - B, fold.spec.end - B))
                run.ob(construct + "::layout", not problems, m.where(), "; ".join(problems[:3]) or
                       "%d decodes aligned; block length %r bytes (read and not-read variables alike)" % (len(fold.events), fold.spec.end - B),
                       "every following block of the file is decoded from shifted bytes (values of other variables / cells)")
            if "values" in aspects:
                problems = []
                vars_ = r._attrs["variables"]
                if cq != AMR:
                    names = list(variables)
                    for j, vn in enumerate(names):
                        item = vars_[vn]
                        buf = item.get("buffer")
                        if not variables[vn][0]:
                            if buf is not None and isinstance(buf, ArrBuf) and isinstance(buf._array, NdBuf) and buf._array.writes:
                                problems.append("variable %s is not selected but its buffer is written" % vn)
                            continue
                        if not (isinstance(buf, ArrBuf) and isinstance(buf._array, NdBuf)):
                            problems.append("buffer of %s is %r" % (vn, buf))
                            continue
                        if not (isinstance(buf.unit, UnitTok) and buf.unit.name == "unit:" + vn):
                            problems.append("buffer of %s is labelled %r (required the unit of %s)" % (vn, getattr(buf.unit, "name", buf.unit), vn))
                        ws = buf._array.writes
                        if len(ws) != 8:
                            problems.append("%d writes into the buffer of %s (required one per child cell)" % (len(ws), vn))
                            continue
                        for ind, (idx, val) in enumerate(ws):
                            want_idx = ("slice", (ncache * ind).origin, (ncache * (ind + 1)).origin, None)
                            rec = "var[%d]" % (ind * len(names) + j)
                            o = origin_of(val)
                            leaves = [x for x in _walk(o) if isinstance(x, tuple) and x and x[0] == "unpacked"]
                            mags = [x for x in _walk(o) if isinstance(x, tuple) and x and x[0] == "magnitude"]
                            if origin_of(idx) != want_idx:
                                problems.append("%s, child %d: written to rows %s (required %s)" % (vn, ind, origin_of(idx), want_idx))
                                break
                            if len(leaves) != 1 or leaves[0][1] != rec:
                                problems.append("%s, child %d: filled from %s (required record %s: variables are interleaved per child cell)" % (
                                    vn, ind, [x[1] for x in leaves], rec))
                                break
                            if mags != [("magnitude", vn)] or not (isinstance(o, tuple) and o[0] == "*"):
                                problems.append("%s: values scaled by %s (required the magnitude of its own unit, paired with the label)" % (vn, mags))
                                break
                else:
                    problems += amr_values(r, variables, ncache, ilevel=2, ndim=ndim_)
                run.ob(construct + "::values", not problems, m.where(), "; ".join(problems[:3]) or
                       "every selected variable: rows [ind*ncache, (ind+1)*ncache) of its buffer <- its own record, scaled by the magnitude and labelled "
                       "with the unit of the same entry",
                       "a variable holds the values of its neighbour, or is scaled with one unit and labelled with another")
            if "skip" in aspects and not (cq == AMR and off):
                base = {k: si("o_" + k) for k in "bidnsql"}
                fold2 = Fold(None)
                hooks2 = layout_hooks(fold2)
                ci2, r2 = new_reader(tree, cq, hooks2, variables, offsets=dict(base))
                call(tree, hooks2, ci2, r2, "read_domain_header")
                call(tree, hooks2, ci2, r2, "step_over", ncache, 2 ** ndim_, ndim_)
                end2 = position(r2._attrs["offsets"])
                run.ob("%s.step_over" % cq + ("[ndim=%d]" % ndim_ if ndim_ != 3 else ""), end2 == end and not fold2.events, m.where(),
                       "step_over advances by %r bytes, the owner path by %r" % (end2 - B, end - B),
                       "after a block that belongs to another domain every record is decoded from shifted bytes")
        except ERR as e:
            run.unresolved(construct, m.where(), "cannot fold: %s" % e)


def _walk(o):
    yield o
    if isinstance(o, (tuple, list, frozenset)):
        for x in o:
            yield from _walk(x)


def amr_values(r, variables, ncache, ilevel, ndim=3):
    two = 2 ** ndim
    problems = []
    vars_ = r._attrs["variables"]
    dx = 0.5 ** (ilevel + 1)

    def writes(name):
        buf = vars_[name].get("buffer")
        if not variables[name][0]:
            if isinstance(buf, ArrBuf) and isinstance(buf._array, NdBuf) and buf._array.writes:
                problems.append("%s is not selected but its buffer is written" % name)
            return None
        if not (isinstance(buf, ArrBuf) and isinstance(buf._array, NdBuf)):
            problems.append("buffer of %s is %r" % (name, buf))
            return None
        if not (isinstance(buf.unit, UnitTok) and buf.unit.name == "unit:" + name):
            problems.append("buffer of %s is labelled %r" % (name, getattr(buf.unit, "name", buf.unit)))
        if len(buf._array.writes) != two:
            problems.append("%d writes into the buffer of %s (required one per child cell)" % (len(buf._array.writes), name))
            return None
        return buf._array.writes
    for name, want in (("level", lambda ind: Poly.const(ilevel + 1)), ("cpu", lambda ind: Poly.sym("sc:" + (si("cpuid") + 1).origin[1])),
                       ("dx", lambda ind: Poly.const(dx) * Poly.sym("boxlen") * Poly.sym(repr(("magnitude", "dx"))))):
        ws = writes(name)
        for ind, (idx, val) in enumerate(ws or []):
            want_idx = ("slice", (ncache * ind).origin, (ncache * (ind + 1)).origin, None)
            got = symsem(origin_of(val))
            if origin_of(idx) != want_idx or got != want(ind):
                problems.append("%s, child %d: rows %s <- %r (required rows %s <- %r)" % (name, ind, origin_of(idx), got, want_idx, want(ind)))
                break
    for n, c in enumerate("xyz"[:ndim]):
        ws = writes("position_" + c)
        for ind, (idx, val) in enumerate(ws or []):
            o = origin_of(val)
            un = [x for x in _walk(o) if isinstance(x, tuple) and x and x[0] == "unpacked"]
            if len(un) != 1 or un[0][1] != "xg[%d]" % n:
                problems.append("position_%s is built from %s (required the grid centre record xg[%d])" % (c, [x[1] for x in un], n))
                break
            U = Poly.sym(repr(un[0]))
            bit = (ind >> n) & 1
            want = (U + Poly.const((bit - 0.5) * dx) - Poly.sym("xb%d" % n)) * Poly.sym("boxlen") * Poly.sym(repr(("magnitude", "position_" + c)))
            got = symsem(o)
            if got != want:
                problems.append("position_%s of child %d = %r (required (xg + (%+.1f) dx - xbound[%d]) * boxlen * magnitude)" % (c, ind, got, bit - 0.5, n))
                break
    # son / refinement flag
    son = r._attrs.get("son")
    ref = r._attrs.get("ref")
    if not (isinstance(son, NdBuf) and len(son.writes) == two):
        problems.append("son indices: %r" % (son,))
    else:
        for ind, (idx, val) in enumerate(son.writes):
            o = origin_of(val)
            if not (isinstance(o, tuple) and o[:2] == ("unpacked", "son[%d]" % ind)):
                problems.append("son of child %d is decoded from %r" % (ind, o))
                break
    return problems


def check_leaf_rule(run, tree):
    """the leaf flag over the finite cases (has a son?) x (below the deepest loaded level?)"""
    amr_vars = {"level": (False, "i"), "cpu": (False, "i"), "dx": (False, "d"), "position_x": (False, "d"), "position_y": (False, "d"), "position_z": (False, "d")}
    m = tree.method(tree.cls(AMR), "read_variables")
    run.analysed(m)
    for lmax, label in ((3, "at the deepest loaded level"), (5, "below the deepest loaded level")):
        construct = "%s.read_variables::leaf-rule[%s]" % (AMR, label)
        try:
            try:
                fold, ci, r, info, hooks, B, _ = run_block(tree, AMR, amr_vars, L.AMR_BODY, {"ndim": Poly.const(3), "twotondim": Poly.const(8)}, lmax=lmax, ilevel=2, levelmax=9)
            except (Raised, ProgramRaised) as e:
                run.violated(construct, m.where(), "raises %s" % e, "reading any AMR file")
                continue
            ref = r._attrs.get("ref")
            problems = []
            if not (isinstance(ref, NdBuf) and len(ref.writes) == 8):
                problems.append("leaf flags: %r" % (ref,))
            else:
                for ind, (idx, val) in enumerate(ref.writes):
                    o = origin_of(val) if not isinstance(val, bool) else val
                    son = ("unpacked", "son[%d]" % ind)
                    if lmax == 3:
                        ok = o is True
                        want = "every cell is a leaf (True)"
                    else:
                        ok = isinstance(o, tuple) and o[0] == "not" and isinstance(o[1], tuple) and o[1][0] == ">" and isinstance(o[1][1], tuple) and \
                            o[1][1][:2] == son and o[1][2] == 0
                        want = "leaf <=> not (son > 0)"
                    if not ok:
                        problems.append("child %d: leaf flag = %r (required: %s)" % (ind, o, want))
                        break
            run.ob(construct, not problems, m.where(), "; ".join(problems) or ("cells with a son are leaves exactly when their children are not loaded; cells without a son always"),
                   "refined cells are returned together with their children (double counting), or the cells at the level cap are dropped (holes)")
        except ERR as e:
            run.unresolved(construct, m.where(), "cannot fold: %s" % e)
    # make_conditions always includes the leaf flags
    construct = AMR + ".make_conditions::leaf-always-included"
    try:
        fold = Fold(None)
        hooks = layout_hooks(fold)
        ci, r = new_reader(tree, AMR, hooks, {"level": (True, "i")})
        r._attrs["ref"] = Sym("REF")
        r._attrs["variables"]["level"]["buffer"] = Sym("LEVELBUF")
        ok = True
        details = []
        for sel in ({}, {"level": (lambda b: Sym(("pred", origin_of(b))))}, True, None):
            c = call(tree, hooks, ci, r, "make_conditions", sel)
            vals = [origin_of(v) for v in c.values()] if isinstance(c, dict) else None
            want = ["REF"] + ([("pred", "LEVELBUF")] if isinstance(sel, dict) and sel else [])
            if vals is None or sorted(map(repr, vals)) != sorted(map(repr, want)):
                ok = False
                details.append("select=%s -> %s" % ("predicates" if isinstance(sel, dict) and sel else sel, vals))
        run.ob(construct, ok, tree.method(ci, "make_conditions").where(), "; ".join(details) or "conditions = user predicates on the buffers + the leaf flags, for every form of select",
               "with (or without) user predicates the leaf mask is not applied: refined cells are returned")
    except (Raised, ProgramRaised) as e:
        run.violated(construct, m.where(), "raises %s" % e, "any selection")
    except ERR as e:
        run.unresolved(construct, m.where(), "cannot fold: %s" % e)


    check_conditions_contract(run, tree)
    check_level_header_history(run, tree)


class BufTok(Sym):
    """the unit-carrying buffer Array of a variable; its raw parts are other objects (a predicate such as `x > 1*kpc` must see the Array)"""

    def __init__(self, v):
        Sym.__init__(self, "BUF:" + v)
        self._array = self.values = self.magnitude = Sym("RAW:" + v)


def check_level_header_history(run, tree):
    """the per-level geometry of the AMR reader over a history: the reader object lives as long as the dataset, initialize() gives it a fresh zeroed
    child-offset table at every load, and the level loop of every load (and of every cpu file) starts again at the coarsest level.  After each
    read_level_header(ilevel) the table holds the 8 offsets (+-1/2 cell) of THAT level - also when the same level was the last one handled before"""
    ci = tree.cls(AMR)
    m = tree.method(ci, "read_level_header")
    init = tree.method(ci, "initialize")
    run.analysed(m)
    construct = AMR + ".read_level_header[history: levels 0, 1 | new load | level 0 | new file | level 0, 1]"
    try:
        fold = Fold(None)
        hooks = layout_hooks(fold)
        _, r = new_reader(tree, AMR, hooks, {"level": (True, "i")})
        # does initialize() replace the table? (the premise of the history; if the table is no longer re-created there, nothing is reset here either)
        resets = init is not None and any(isinstance(n, ast.Assign) and any(isinstance(t, ast.Attribute) and t.attr == "xcent" for t in n.targets) for n in ast.walk(init.node))
        problems = []

        def fresh():
            r._attrs["xcent"] = NdBuf("xcent")

        def expect(ilevel, when):
            buf = r._attrs.get("xcent")
            dx = 0.5 ** (ilevel + 1)
            writes = {}
            for idx, val in (buf.writes if isinstance(buf, NdBuf) else []):
                key = tuple(origin_of(i) if not isinstance(i, int) else i for i in (idx if isinstance(idx, tuple) else (idx,)))
                writes[key] = val
            for ind in range(8):
                for d in range(3):
                    want = (((ind >> d) & 1) - 0.5) * dx
                    got = writes.get((ind, d))
                    if not (isinstance(got, (int, float)) and abs(got - want) < 1e-12):
                        problems.append("%s: offset of child %d along axis %d is %r (required %r)" % (when, ind, d, got if got is not None else "not written (0)", want))
                        return
        fresh()
        for il in (0, 1):
            call(tree, hooks, ci, r, "read_level_header", il, 8)
            if il == 1:
                expect(1, "first load, level 2")
        if resets:
            fresh()            # a new load: initialize() re-creates the table
        call(tree, hooks, ci, r, "read_level_header", 1, 8)
        expect(1, "second load starting at the level the first one ended with")
        if resets:
            fresh()
        call(tree, hooks, ci, r, "read_level_header", 0, 8)
        call(tree, hooks, ci, r, "read_level_header", 0, 8)   # next cpu file, same level again
        expect(0, "same level in the next cpu file")
        run.ob(construct, not problems, m.where(), "; ".join(problems[:2]) or "the child offsets are those of the level just announced at every step of the history",
               "two consecutive loads that both stop at the same level return every cell of that level at the centre of its parent (offsets left at zero)")
    except (Raised, ProgramRaised) as e:
        run.violated(construct, m.where(), "raises %s" % e, "any load")
    except ERR as e:
        run.unresolved(construct, m.where(), "cannot fold: %s" % e)


def check_conditions_contract(run, tree):
    """Loader.load merges the dicts returned by the readers' make_conditions with dict.update and ANDs all values: what every reader returns
    must therefore be keyed so that no reader overwrites another's entry, and must hold each requested predicate applied to that reader's own
    buffer exactly once"""
    readers = {"amr": (AMR, {"level": (True, "i"), "dx": (True, "d")})}
    readers.update({k: (q, {k + "_a": (True, "d"), k + "_b": (True, "d")}) for k, (q, _) in MESH.items()})
    construct = "io/reader.py::Reader.make_conditions::entries-survive-the-merge"
    where = tree.method(tree.cls(AMR), "make_conditions").where()
    try:
        select = {}
        for name, (q, variables) in readers.items():
            for v in variables:
                select[v] = (lambda vv: (lambda b: Sym(("pred", vv, origin_of(b)))))(v)
        select["not_a_variable"] = lambda b: Sym(("pred", "?", origin_of(b)))
        merged, per, problems = {}, {}, []
        for name, (q, variables) in readers.items():
            fold = Fold(None)
            hooks = layout_hooks(fold, {"numpy.logical_and.reduce": lambda xs, *a, **k: Sym(("and-reduce", tuple(origin_of(x) for x in xs))),
                                        "numpy.prod": lambda xs, *a, **k: Sym(("and-reduce", tuple(origin_of(x) for x in xs))),
                                        "numpy.all": lambda xs, *a, **k: Sym(("and-reduce", tuple(origin_of(x) for x in xs)))})
            ci, r = new_reader(tree, q, hooks, variables)
            run.analysed(tree.method(ci, "make_conditions"))
            r._attrs["ref"] = Sym("REF")
            for v in variables:
                r._attrs["variables"][v]["buffer"] = BufTok(v)
            c = call(tree, hooks, ci, r, "make_conditions", dict(select))
            if not isinstance(c, dict):
                problems.append("%s returns %r" % (name, c))
                continue
            per[name] = c
            for k in c:
                if k in merged:
                    problems.append("key %r is returned by the %s reader and by the %s reader: dict.update keeps only the last, the %s reader's mask is dropped" % (k, merged[k], name, merged[k]))
                merged[k] = name
            flat = repr([origin_of(v) for v in c.values()])
            for v in variables:
                n_ = flat.count(repr(("pred", v, "BUF:" + v)))
                if n_ != 1:
                    problems.append("%s reader: the predicate on %s is applied to its unit-carrying buffer %d times (required once%s)" % (
                        name, v, n_, "; it is applied to the raw numbers instead" if ("'RAW:%s'" % v) in flat else ""))
            for other, (_, ovars) in readers.items():
                if other != name and any(("'pred', '%s'" % ov) in flat for ov in ovars):
                    problems.append("%s reader evaluates a predicate on a variable of the %s reader" % (name, other))
            if "'pred', '?'" in flat:
                problems.append("%s reader evaluates a predicate on a name that is not one of its variables" % name)
            if name == "amr" and "'REF'" not in flat.replace('"', "'"):
                problems.append("the AMR reader does not return the leaf flags")
        run.ob(construct, not problems, where, "; ".join(problems[:3]) or "%d entries from %d readers under distinct keys; every predicate applied once to its own buffer" % (len(merged), len(per)),
               "a predicate on a hydro variable replaces the AMR reader's level/position mask in the merged dict (or is lost), so rows that fail a predicate are returned")
    except (Raised, ProgramRaised) as e:
        run.violated(construct, where, "raises %s" % e, "any selective load")
    except ERR as e:
        run.unresolved(construct, where, "cannot fold: %s" % e)


# =============================================================================== particle files
PART = "io/part.py::PartReader"


def part_spec(variables, tag="", npart=None):
    recs = list(L.PART_HEADER_FIXED)
    for nm in L.PART_OPAQUE:
        recs.append((nm, "b", Poly.sym("len_%s%s" % (nm, tag)), Poly.const(1)))
    for vn, (read, ty) in variables.items():
        recs.append(("var:" + vn, ty, Poly.sym("npart") if npart is None else Poly.const(npart), Poly.const(1)))
    return recs


def check_part_header(run, tree, only_read_vs_skip=False, variables=None, tag=""):
    variables = variables or {"p0": (False, "d"), "p1": (True, "d"), "p2": (False, "i"), "p3": (True, "b"), "p4": (False, "d"), "p5": (True, "i")}
    m = tree.method(tree.cls(PART), "read_header")
    run.analysed(m)
    construct = PART + ".read_header" + tag
    try:
        fold = Fold(FileSpec(part_spec(variables)))
        hooks = layout_hooks(fold)
        ci, r = new_reader(tree, PART, hooks, variables)
        info = base_info()
        try:
            call(tree, hooks, ci, r, "read_header", info)
        except (Raised, ProgramRaised) as e:
            run.violated(construct, m.where(), "raises %s" % e, "every particle file")
            return
        problems = ["%r: %s" % (e, e.how) for e in fold.misaligned]
        end = position(r._attrs["offsets"])
        if not (end == fold.spec.end):
            problems.append("the header+body advance the file position to %r, RAMSES writes %r" % (end, fold.spec.end))
        run.ob(construct + "::layout", not problems, m.where(), "; ".join(problems[:3]) or
               "%d decodes aligned (npart; 5 opaque records skipped by their own length markers; each selected variable on its own record); "
               "selected and skipped variables of types d/i/b advance the position alike" % len(fold.events),
               "particle variables are decoded from shifted bytes (a skipped variable of another type, an opaque record of another length)")
        if only_read_vs_skip:
            return
        vp = []
        vars_ = r._attrs["variables"]
        for vn, (read, ty) in variables.items():
            pieces = vars_[vn]["pieces"]
            if not read:
                if pieces:
                    vp.append("variable %s is not selected but has pieces" % vn)
                continue
            if list(pieces) != [0]:
                vp.append("pieces of %s after one file: keys %s (required [0])" % (vn, list(pieces)))
                continue
            a = pieces[0]
            o = origin_of(a._array) if isinstance(a, ArrBuf) else None
            un = [x for x in _walk(o) if isinstance(x, tuple) and x and x[0] == "unpacked"]
            mags = [x for x in _walk(o) if isinstance(x, tuple) and x and x[0] == "magnitude"]
            if not isinstance(a, ArrBuf) or len(un) != 1 or un[0][1] != "var:" + vn or mags != [("magnitude", vn)] or not (isinstance(o, tuple) and o[0] == "*"):
                vp.append("piece of %s = %r (required its own record times the magnitude of its unit)" % (vn, o))
            elif not (isinstance(a.unit, UnitTok) and a.unit.name == "unit:" + vn):
                vp.append("piece of %s is labelled %r" % (vn, getattr(a.unit, "name", a.unit)))
        if not (isinstance(info.get("nparticles"), Sc) and info["nparticles"] == si("np0") + si("npart")):
            vp.append("info['nparticles'] = %r (required previous + npart)" % (info.get("nparticles"),))
        # second file on the same reader: the loader zeroes the offsets and replaces the bytes
        fold.spec = FileSpec(part_spec(variables, "'"))
        fold.events.clear()
        fold.misaligned.clear()
        r._attrs["offsets"].update({k: SI(Poly()) for k in "bidnsql"})
        call(tree, hooks, ci, r, "read_header", info)
        for vn, (read, ty) in variables.items():
            pieces = vars_[vn]["pieces"]
            if read and list(pieces) != [0, 1]:
                vp.append("pieces of %s after two files: keys %s (required [0, 1]: one piece per file, in file order)" % (vn, list(pieces)))
            elif read and pieces[0] is pieces[1]:
                vp.append("the two pieces of %s are the same object" % vn)
        if fold.misaligned:
            vp.append("second file: %r: %s" % (fold.misaligned[0], fold.misaligned[0].how))
        run.ob(construct + "::pieces", not vp, m.where(), "; ".join(vp[:3]) or
               "each selected variable gains exactly one piece per file (its own record x its own magnitude, labelled with its own unit); particle count accumulated",
               "rows of one particle come from different particles (a variable misses a file's piece or overwrites it), or values carry another variable's unit")
    except ERR as e:
        run.unresolved(construct, m.where(), "cannot fold: %s" % e)
    # a file WITHOUT particles (npart = 0: a cpu whose domain holds none): every selected variable still gains its (empty) piece, so that
    # the group has the same columns whichever files were read, and the records are stepped over
    if not only_read_vs_skip:
        try:
            fold = Fold(FileSpec(part_spec(variables, npart=0)))
            fold.bind = {"npart": SI(Poly.const(0))}
            hooks = layout_hooks(fold)
            ci, r = new_reader(tree, PART, hooks, variables)
            info = base_info()
            try:
                call(tree, hooks, ci, r, "read_header", info)
                vars_ = r._attrs["variables"]
                missing = [vn for vn, (read, ty) in variables.items() if read and list(vars_[vn]["pieces"]) != [0]]
                end = position(r._attrs["offsets"])
                probs = []
                if missing:
                    probs.append("variables %s have no piece after a file without particles (required an empty piece each)" % missing)
                if not (end == fold.spec.end):
                    probs.append("the file position ends at %r, RAMSES writes %r" % (end, fold.spec.end))
                run.ob(construct + "::file-without-particles", not probs, m.where(), "; ".join(probs) or "every selected variable gains an empty piece; the records are stepped over",
                       "load(cpu_list=[k]) for a cpu that owns no particle returns a particle group WITHOUT columns instead of zero-length columns")
            except (Raised, ProgramRaised) as e:
                run.violated(construct + "::file-without-particles", m.where(), "raises %s" % e, "a particle file with npart = 0")
        except ERR as e:
            run.unresolved(construct + "::file-without-particles", m.where(), "cannot fold: %s" % e)
    # an uninitialised particle reader reads nothing
    try:
        fold = Fold(None)
        hooks = layout_hooks(fold)
        ci, r = new_reader(tree, PART, hooks, variables)
        r._attrs["initialized"] = False
        before = dict(r._attrs["offsets"])
        call(tree, hooks, ci, r, "read_header", base_info())
        same = all(SI.wrap(r._attrs["offsets"][k]) == SI.wrap(before[k]) for k in before)
        run.ob(construct + "::inactive", not fold.events and same, m.where(), "an uninitialised reader decodes %d records" % len(fold.events), "", nontrivial=False)
    except (Raised, ProgramRaised) + ERR as e:
        run.unresolved(construct + "::inactive", m.where(), "cannot fold: %s" % e)



def check_part_header_space(run, tree):
    """thorough tier: the particle header folded for every selection of six variables (2**6) under two type assignments (d i b d i b and
    b d d i i d): alignment by byte position, typed read/skip agreement and the pieces of every selected variable"""
    import itertools
    for types in ("dibdib", "bddiid"):
        for flags in itertools.product((True, False), repeat=6):
            variables = {"p%d" % i: (f, t) for i, (f, t) in enumerate(zip(flags, types))}
            check_part_header(run, tree, variables=variables, tag="[types %s, selected %s]" % (types, "".join("1" if f else "0" for f in flags)))
