"""C08 — unit conversion preserves the physical quantity; defined units have true values."""
from __future__ import annotations

import ast

from ..flow import enumerate_paths
from ..source import norm, const_value, walk_no_nested
from .common import is_name, params, returns_of, single_return
from .config_rules import check_constants
from . import array_folds as af
from .vector_rules import check_component_map, VECTOR

EXPLANATION = (
    "Static rules: (R1) Array.to and Vector.to never store through their receiver; (R2) Array.to is evaluated in a rational "
    "algebra over symbols (values A, unit scales OLD, NEW) with pint's Quantity semantics: the returned values are "
    "A*OLD/NEW, labelled NEW, not cast or rounded, and a conversion to an equal unit is the identity; the conversion goes "
    "through pint's .to so incompatible dimensions raise; (R3) Vector.to maps .to(unit) with the same argument over every "
    "component; (R4) every `define` string of configure_constants is parsed and its CGS value and dimension compared with "
    "the IAU 2015 / CODATA catalogue (relative tolerance 1e-3); (R5) one pint registry in the package, in the cgs system; "
    "Units.__call__ returns a Unit unchanged, refuses a Quantity and otherwise parses through that registry.")
NOT_DECIDED = ("pint's parsing of equivalent spellings and its numeric factors; floating-point round-trip error; the "
               "effect of a user configuration file that differs from config/defaults.py")
TRUSTED = ("CPython ast", "pint semantics of Quantity.to / magnitude / units (S6)", "constants catalogue S3 (sa/specs/dims.py)")

ARRAY = "core/array.py::Array"


def r1_r2_array_to(run, tree):
    run.rule("C08.R1", "Array.to: receiver not written; ratio old/new; result labelled new; identity shortcut; no lossy cast",
             "D7 fold of Array.to over unit relations x dtypes (unit ratios in an exact monomial algebra)", "pint Quantity semantics", floor=6)
    af.check_to_fold(run, tree)


def r3_vector_to(run, tree):
    run.rule("C08.R3", "Vector.to converts every component with the same unit; receiver not written", "sibling agreement", "",
             floor=1)
    vi = tree.cls(VECTOR)
    check_component_map(run, tree, tree.method(vi, "to"), VECTOR + ".to",
                        lambda e, v, pn: norm(e) == "%s.to(%s)" % (v, pn[1]), "v.to(u) converts every component to u")


def r4_constants(run, tree):
    run.rule("C08.R4", "constants catalogue", "D2 + table", "S3: IAU 2015 nominal values / CODATA", floor=9)
    check_constants(run, tree)


def r5_registry(run, tree):
    run.rule("C08.R5", "single pint registry (cgs); Units.__call__ contract", "who-may-call + path rule", "", floor=4)
    sites = []
    for fi in tree.all_functions():
        for n in walk_no_nested(fi.node):
            if isinstance(n, ast.Call) and tree.dotted(fi.module, n.func) in ("pint.UnitRegistry", "pint.registry.UnitRegistry"):
                sites.append((fi, n))
    for mi in tree.modules.values():
        for st in mi.tree.body:
            for n in ast.walk(st) if not isinstance(st, (ast.FunctionDef, ast.ClassDef)) else []:
                if isinstance(n, ast.Call) and tree.dotted(mi, n.func) in ("pint.UnitRegistry",):
                    sites.append((None, n))
    ok = len(sites) == 1 and sites[0][0] is not None and sites[0][0].qual == "units/units.py::Units.__init__"
    run.ob("units/units.py::UnitRegistry-construction", ok, sites[0][0].where(sites[0][1]) if sites and sites[0][0] else "units/units.py",
           "%d registry constructions: %s" % (len(sites), [s[0].qual if s[0] else "module level" for s in sites]),
           "units from two registries never compare equal and cannot be converted into each other")
    if sites:
        kws = {k.arg: const_value(k.value) for k in sites[0][1].keywords}
        run.ob("units/units.py::UnitRegistry-system", kws.get("system") == "cgs", sites[0][0].where(sites[0][1]) if sites[0][0] else "",
               "registry system = %r" % kws.get("system"), "base-unit conversions (to_base_units, G as Gaussian) change meaning")
    # exactly one Units() instance at module level, exported as `units`
    mi = tree.module("units/units.py")
    inst = [st for st in mi.tree.body if isinstance(st, ast.Assign) and isinstance(st.value, ast.Call) and norm(st.value.func) == "Units"]
    run.ob("units/units.py::single-instance", len(inst) == 1 and is_name(inst[0].targets[0], "units"), "units/units.py",
           "%d module-level Units() instances" % len(inst), "osyris.units and the units used by Array differ")
    # configure_constants is applied to that registry
    ui = tree.func("units/units.py::Units.__init__")
    cfg = any(isinstance(n, ast.Call) and isinstance(n.func, ast.Attribute) and n.func.attr == "configure_constants"
              and n.args and norm(n.args[0]) == "%s._ureg" % params(ui)[0] for n in walk_no_nested(ui.node))
    run.ob("units/units.py::Units.__init__::constants-defined", cfg, ui.where(), "configure_constants(self._ureg) %s" % (
        "called" if cfg else "not called"), "M_sun, R_sun, ... undefined")
    # __call__ contract
    fi = tree.func("units/units.py::Units.__call__")
    run.analysed(fi)
    pn = params(fi)
    verdicts = {}
    for path in enumerate_paths(fi.node.body):
        kind = None
        for it in path:
            if it[0] == "test" and isinstance(it[1], ast.Call) and is_name(it[1].func, "isinstance") and is_name(it[1].args[0], pn[1]):
                d = tree.dotted(fi.module, it[1].args[1])
                if it[2] and d in ("pint.Quantity", "pint.Unit"):
                    kind = d.split(".")[1]
        ex = path[-1]
        if kind is None:
            kind = "other"
        if ex[1] == "raise":
            verdicts.setdefault(kind, []).append("raise")
        elif ex[1] == "return" and ex[2].value is not None:
            verdicts.setdefault(kind, []).append(norm(ex[2].value))
        else:
            verdicts.setdefault(kind, []).append("None")
    run.ob("units/units.py::Units.__call__[Quantity]", verdicts.get("Quantity") == ["raise"], fi.where(),
           "a Quantity argument -> %s" % verdicts.get("Quantity"), "units(3*m) silently drops the magnitude")
    run.ob("units/units.py::Units.__call__[Unit]", verdicts.get("Unit") == [pn[1]], fi.where(),
           "a Unit argument -> %s" % verdicts.get("Unit"), "a unit object is re-parsed or replaced")
    run.ob("units/units.py::Units.__call__[str]", verdicts.get("other") == ["%s._ureg(%s).units" % (pn[0], pn[1])], fi.where(),
           "any other argument -> %s" % verdicts.get("other"), "equivalent spellings parsed by different registries")


RULES = [r1_r2_array_to, r3_vector_to, r4_constants, r5_registry]
