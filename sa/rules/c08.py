"""C08 — unit conversion preserves the physical quantity; defined units have true values."""
from __future__ import annotations

import ast

from ..source import FuncInfo, norm, walk_no_nested
from .common import is_name
from .config_rules import check_constants
from . import array_folds as af

from . import quantity_stack as qs

EXPLANATION = '(R1) Array.to over unit relations x dtypes with unit ratios in an exact monomial algebra: identity for equal units, values scaled by old/new, labelled new, no cast back to the source dtype, incompatible dimensions raise, receiver untouched; (R3) Vector mapping methods (to, copy, reshape, indexing, neg, pow) on 1-3 components; (R4) configure_constants interpreted on a recording registry, definitions evaluated in the dimension domain against an independently sourced catalogue S3 (1e-3) and required aliases; (R5) one registry construction (cgs) in the package, Units folded on a recording registry: constants defined on THE registry, Quantity refused, Unit returned unchanged, strings parsed as written over a history of spellings (a cache may only be keyed on the exact string). (R5) registry model records contexts and interprets preprocessors: every symbol defined by the configuration reaches the parser as written; (R6) end to end x.to(u) for Array and Vector over the dimensionless family and equal-size aliases. (R7) relabelling a Vector goes through the unit setter of every component. R6 covers the empty spelling of dimensionless as a target (x.to("")). R5 also requires that quantities and units are made by the one registry (no pint.Quantity(...) / pint.Unit(...) calls); R6 covers single (0-d) and empty Vectors and a relabel-after-convert history.'
NOT_DECIDED = "pint's parsing of equivalent spellings and its numeric factors; floating-point round-trip error; a user configuration file that differs from config/defaults.py"
TRUSTED = ('CPython ast', 'pint semantics of Quantity.to / magnitude / units', 'constants catalogue S3 (sa/specs/dims.py)', 'the interpreter sa/models.py (ModelEval) and its library models')

ARRAY = "core/array.py::Array"

TECHNIQUE = 'static analysis: abstract interpretation over unit tokens, dimension-domain evaluation of unit definitions'

def r1_r2_array_to(run, tree):
    run.rule("C08.R1", "Array.to: receiver not written; ratio old/new; result labelled new; identity shortcut; no lossy cast",
             "D7 fold of Array.to over unit relations x dtypes (unit ratios in an exact monomial algebra)", "pint Quantity semantics", floor=6)
    af.check_to_fold(run, tree)


def r3_vector_to(run, tree):
    from . import core_folds as cf
    run.rule("C08.R3", "Vector.to (and the other mapping methods) act on every component with the same argument", "D7 fold of the Vector class over 1-3 components", "",
             floor=3)
    cf.check_vector_unary_and_maps(run, tree)


def r4_constants(run, tree):
    run.rule("C08.R4", "constants catalogue", "D2 + table", "S3: IAU 2015 nominal values / CODATA", floor=9)
    check_constants(run, tree)


def r5_registry(run, tree):
    run.rule("C08.R5", "single pint registry (cgs, no context enabled); Units.__call__ contract", "who-may-call + path rule", "", floor=4)
    check_registry(run, tree)


def check_registry(run, tree):
    sites = []
    for fi in tree.all_functions():
        for n in walk_no_nested(fi.node):
            if isinstance(n, ast.Call) and tree.dotted(fi.module, n.func) in ("pint.UnitRegistry", "pint.registry.UnitRegistry"):
                sites.append((fi, n))
    for mi in tree.modules.values():
        for st in mi.tree.body:
            for n in ast.walk(st) if not isinstance(st, (ast.FunctionDef, ast.ClassDef)) else []:
                if isinstance(n, ast.Call) and tree.dotted(mi, n.func) in ("pint.UnitRegistry",):
                    sites.append((None, n))
    # the one construction belongs to the constructor that Units() runs: Units.__init__ as resolved through the MRO (a base class that owns
    # the registry counts), or a helper that constructor calls
    ucls0 = tree.cls("units/units.py::Units")
    init = tree.method(ucls0, "__init__")
    allowed = set()
    if init is not None:
        allowed.add(init.qual)
        for n in walk_no_nested(init.node):
            if isinstance(n, ast.Call):
                c = tree.resolve_call(init, n)
                if hasattr(c, "qual") and hasattr(c, "node") and isinstance(c.node, ast.FunctionDef):
                    allowed.add(c.qual)
    ok = len(sites) == 1 and sites[0][0] is not None and sites[0][0].qual in allowed
    run.ob("units/units.py::UnitRegistry-construction", ok, sites[0][0].where(sites[0][1]) if sites and sites[0][0] else "units/units.py",
           "%d registry constructions: %s" % (len(sites), [s[0].qual if s[0] else "module level" for s in sites]),
           "units from two registries never compare equal and cannot be converted into each other")
    # quantities and units are made BY the registry (ureg(...), ureg.Quantity, k * unit): the module-level classes pint.Quantity / pint.Unit
    # build objects of pint's own application registry, which cannot be combined with osyris' units and know none of its constants
    foreign = []
    for fi in tree.all_functions():
        for n in walk_no_nested(fi.node):
            if isinstance(n, ast.Call) and tree.dotted(fi.module, n.func) in ("pint.Quantity", "pint.Unit", "pint.Measurement", "pint.quantity.Quantity", "pint.unit.Unit"):
                foreign.append((fi, n))
    run.ob("units/units.py::quantities-made-by-the-registry", not foreign, foreign[0][0].where(foreign[0][1]) if foreign else "units/units.py",
           ("%d direct constructions of pint.Quantity / pint.Unit: %s" % (len(foreign), [f.qual for f, _ in foreign])) if foreign else
           "no direct construction of pint.Quantity / pint.Unit in the package (isinstance tests aside)",
           "a Quantity built with the generic class belongs to pint's default registry: converting it to a unit defined by osyris (M_sun, R_jup, ar) fails")
    # exactly one Units() instance at module level, exported as `units`
    mi = tree.module("units/units.py")
    ucls = tree.cls("units/units.py::Units")
    inst = [st for m2 in tree.modules.values() for st in m2.tree.body if isinstance(st, ast.Assign) and isinstance(st.value, ast.Call)
            and isinstance(st.value.func, ast.Name) and tree.resolve_name(m2, st.value.func.id) is ucls]
    exported = tree.resolve_name(tree.module("units/__init__.py"), "units")
    ok_inst = len(inst) == 1 and isinstance(exported, tuple) and exported[0] == "value" and exported[2] is inst[0].value
    run.ob("units/units.py::single-instance", ok_inst, "units/units.py",
           "%d module-level instances of the Units class; osyris.units resolves to %s" % (len(inst), "that instance" if ok_inst else exported), "osyris.units and the units used by Array differ")
    # the Units class folded on a recording registry: constants defined on THE registry; __call__ contract; define forwarded
    from ..models import ModelEval, Raised, Marker
    from ..peval import Model, Unsupported
    from .array_folds import Q, U
    from .core_models import RawTok
    regs, configured = [], []

    class Registry(Model):
        def __init__(self, *a, **k):
            self.kw, self.defined = k, []
            regs.append(self)

        def define(self, *a, **k):
            self.defined.append((a, k))

        def enable_contexts(self, *names, **k):
            self.contexts = getattr(self, "contexts", []) + list(names)

        def __getattr__(self, name):
            if name == "contexts":
                return []
            raise Unsupported("pint.UnitRegistry.%s is not in the registry model" % name)

        def preprocess(self, text):
            """pint runs the registry's preprocessors over every string it is asked to parse"""
            pre = list(self.kw.get("preprocessors") or []) + list(self.__dict__.get("extra_pre", []))
            for f in pre:
                if isinstance(f, Marker) and f.kind == "pkg" and isinstance(f.data[0], FuncInfo):
                    text = ModelEval(tree, f.data[0], {}, hk).invoke(f.data[0], [text], {}, None)
                elif callable(f):
                    text = f(text)
                else:
                    raise Unsupported("preprocessor %r" % (f,))
            return text

        @property
        def preprocessors(self):
            self.__dict__.setdefault("extra_pre", [])
            return self.__dict__["extra_pre"]

        def __call__(self, arg):
            reg = self
            text = self.preprocess(arg) if isinstance(arg, str) else arg

            class Parsed(Model):
                units = ("parsed-by", id(reg), text)
                u = units
            return Parsed()

    class Config(Model):
        def configure_constants(self, reg, *a):
            configured.append(reg)
    import re as _re
    hk = {"ext": {"pint.UnitRegistry": Registry, "pint.registry.UnitRegistry": Registry, "re.compile": _re.compile, "re.sub": _re.sub, "re.match": _re.match,
                  "re.fullmatch": _re.fullmatch, "re.search": _re.search, "re.escape": _re.escape, "re.IGNORECASE": _re.IGNORECASE, "re.I": _re.I},
          "globals": {"config/__init__.py::config": Config(), "__init__.py::config": Config()}}
    ui = tree.cls("units/units.py::Units")
    init = tree.method(ui, "__init__")
    run.analysed(init)
    try:
        ev = ModelEval(tree, init, {}, hk)
        inst = ev.instantiate(ui, [], {}, None)
        ok = len(regs) == 1 and configured == regs
        run.ob("units/units.py::Units.__init__::constants-defined", ok, init.where(), "%d registries constructed by Units(); configure_constants "
               "applied to %s" % (len(regs), "that registry" if ok else "%d registries" % len(configured)), "M_sun, R_sun, ... undefined")
        run.ob("units/units.py::UnitRegistry-system", len(regs) == 1 and regs[0].kw.get("system") == "cgs", init.where(),
               "registry system = %r" % (regs[0].kw.get("system") if regs else None), "base-unit conversions (to_base_units, G as Gaussian) change meaning")
        run.ob("units/units.py::UnitRegistry-contexts", len(regs) == 1 and not regs[0].contexts, init.where(),
               "contexts enabled on the registry: %s" % (regs[0].contexts if regs else None),
               "a pint context (Gaussian, spectroscopy, ...) adds conversions between units of DIFFERENT dimensions: F -> cm, Hz -> nm succeed, so "
               "adding or comparing such quantities returns numbers instead of raising")
        call = tree.method(ui, "__call__")
        run.analysed(call)
        cases = [("Quantity", Q(RawTok("q"), U("cm")), "raises TypeError", "units(3*m) silently drops the magnitude"),
                 ("Unit", U("cm"), "same object", "a unit object is re-parsed or replaced"),
                 ("str", "cm", ("parsed-by", id(regs[0]) if regs else 0, "cm"), "equivalent spellings parsed by different registries")]
        for label, arg, want, fam in cases:
            try:
                r = ev.invoke(call, [inst, arg], {}, None)
                got = "same object" if r is arg else r
            except Raised as e:
                got = "raises " + e.name
            run.ob("units/units.py::Units.__call__[%s]" % label, got == want, call.where(), "%s argument -> %s" % (label, got if not isinstance(got, tuple) else "parsed by the registry of this instance"), fam)
        # a history of spellings: every string is parsed as written (a cache may only be keyed on the exact string: in pint a
        # space is a multiplication, "m s" is not "ms")
        seq = ["ms", "m s", "m  s", "g / cm**3", "g/cm**3", "ms", "c m", "cm"]
        got_seq = []
        for sp in seq:
            try:
                got_seq.append(ev.invoke(call, [inst, sp], {}, None))
            except Raised as e:
                got_seq.append("raises " + e.name)
        import re

        def canon(t):
            # spaces next to an operator or at the ends are insignificant; a space between two names is a multiplication
            return re.sub(r"\s+", " ", re.sub(r"\s*([*/()])\s*", r"\1", t.strip())) if isinstance(t, str) else t
        wrong = [(sp, g[2] if isinstance(g, tuple) else g) for sp, g in zip(seq, got_seq)
                 if not (isinstance(g, tuple) and g[:2] == ("parsed-by", id(regs[0]) if regs else 0) and canon(g[2]) == canon(sp))]
        run.ob("units/units.py::Units.__call__[history of spellings]", not wrong, call.where(),
               "units(s) over the sequence %s: %s" % (seq, "each parsed as written by the one registry" if not wrong else
                                                      "; ".join("units(%r) gives the unit parsed from %r" % w for w in wrong[:3])),
               "units('m s') returns millisecond after units('ms') was seen (a cache keyed on a normalised spelling)")
        # every symbol the configuration defines reaches the parser as it is written (a preprocessor or a normalisation step may not rewrite it)
        try:
            cc = tree.func("config/defaults.py::configure_constants")
            run.analysed(cc)
            reg2 = regs[0] if regs else None
            n0 = len(reg2.defined)
            ModelEval(tree, cc, {}, hk).invoke(cc, [reg2], {}, None)
            symbols = []
            for (a_, k_) in reg2.defined[n0:]:
                if a_ and isinstance(a_[0], str):
                    parts = [p_.strip() for p_ in a_[0].split("=")]
                    symbols += [parts[0]] + [p_ for p_ in parts[2:] if p_ and p_ != "_"]
            mangled = []
            for sym in symbols:
                r = ev.invoke(call, [inst, sym], {}, None)
                if not (isinstance(r, tuple) and r[:2] == ("parsed-by", id(reg2)) and r[2] == sym):
                    mangled.append("units(%r) is parsed as %r" % (sym, r[2] if isinstance(r, tuple) and len(r) > 2 else r))
            # a name defined by the configuration may not take the spelling of an existing prefixed unit (pint resolves an exact alias first:
            # "mH" defined as a mass silently stops meaning millihenry)
            PREFIX = ("y", "z", "a", "f", "p", "n", "u", "µ", "m", "c", "d", "da", "h", "k", "M", "G", "T", "P", "E", "Z", "Y", "")
            BASE = ("m", "g", "s", "A", "K", "mol", "cd", "rad", "sr", "Hz", "N", "Pa", "J", "W", "C", "V", "F", "ohm", "Ω", "S", "Wb", "T", "H", "lm", "lx", "Bq", "Gy", "Sv",
                    "L", "l", "eV", "b", "bar", "pc", "au", "yr", "a", "G", "erg", "dyn", "P", "St", "Gal", "Mx", "Oe", "Ba", "t", "Da", "u", "min", "h", "d", "ly", "atm", "cal", "K")
            taken = {p_ + b_ for p_ in PREFIX for b_ in BASE}
            shadow = sorted(sym for sym in symbols if sym in taken)
            run.ob("units/units.py::defined-symbols-do-not-shadow-units", not shadow, cc.where(), ("defined symbols that are also prefixed units: %s" % shadow) if shadow else
                   "%d defined names and symbols, none spelled like an SI-prefixed unit of the registry's default table" % len(symbols),
                   "a unit string written by the user (mH = millihenry) now denotes the new constant: comparisons between compatible quantities raise and incompatible ones return an answer")
            run.ob("units/units.py::Units.__call__[defined symbols]", bool(symbols) and not mangled, call.where(),
                   "; ".join(mangled[:3]) or "%d defined names and symbols (M_sun, L_bol0, ar, ...) reach the parser as written" % len(symbols),
                   "a unit the package defines cannot be used under its own symbol (e.g. L_bol0 rewritten to L_bol**0 by an exponent preprocessor)")
        except Raised as e:
            run.violated("units/units.py::Units.__call__[defined symbols]", call.where(), "raises %s" % e, "units(<defined symbol>)")
        d = tree.method(ui, "define")
        if d is not None:
            ev.invoke(d, [inst, "x = 1 * cm"], {}, None)
            run.ob("units/units.py::Units.define", bool(regs) and regs[0].defined[-1:] == [(("x = 1 * cm",), {})], d.where(),
                   "define forwards to the registry: %s" % (regs[0].defined[-1:] if regs else None), "user-defined units land nowhere", nontrivial=False)
    except Raised as e:
        run.violated("units/units.py::Units", init.where(), "raises %s" % e, "import osyris")
    except Unsupported as e:
        run.unresolved("units/units.py::Units", init.where(), "cannot fold: %s" % e)


def r6_end_to_end(run, tree):
    run.rule("C08.R6", "end to end: x.to(u) denotes the same physical quantity and is labelled u, for Array and Vector, including the dimensionless family "
             "(rad/deg/percent) and differently named units of equal size", "D7 fold of Array.to / Vector.to with pint units as symbolic-scale models", "", floor=13)
    qs.check_to_stack(run, tree)


def r7_vector_unit(run, tree):
    run.rule("C08.R7", "relabelling a Vector (v.unit = u) goes through the unit setter of every component Array, so that whatever the components remember about their unit is reset (shared with C09.R6)",
             "D7 fold of Vector.__init__ / unit setter over component tokens", "", floor=8)
    from . import core_folds as cf
    cf.check_vector_constructor(run, tree)


def r_masked(run, tree):
    from . import array_folds as af
    run.rule("C08.R8", "an Array holding a numpy masked array keeps the mask through construction, copy(), to(), indexing, .values and the numpy dispatch "
             "(numpy.asarray / numpy.array on the way hand the hidden entries back as ordinary values)", "D7 fold of the Array class over a masked buffer token", "", floor=6)
    af.check_masked_buffers(run, tree)


RULES = [r_masked, r1_r2_array_to, r3_vector_to, r4_constants, r5_registry, r6_end_to_end, r7_vector_unit]


def t_pair_space(run, tree):
    run.rule("C08.T1", "thorough: Array.to and Vector.to over all ordered pairs of 15 units", "D7 fold of the whole Array class (and Vector.to) with dispatching numpy models and symbolic-scale units, over the complete product of the unit list", "", floor=1)
    qs.check_to_pair_space(run, tree)


THOROUGH_RULES = [t_pair_space]
