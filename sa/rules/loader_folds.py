"""Loader.load interpreted (ModelEval) with recording reader models: the traversal protocol, the selection, the counters
and the cpu list are read off the event trace and compared with a checker-side statement of the RAMSES traversal."""
from __future__ import annotations

from ..models import ModelEval, PyObj, Marker, Raised, explore
from ..peval import Model, Unsupported, ProgramRaised
from ..source import AnalysisError
from .core_models import RawTok, ArrTok, core_hooks, tok_origin

ERR = (Unsupported, AnalysisError)
LOADER_Q = "io/loader.py::Loader"
LOAD = LOADER_Q + ".load"
OFFSET_KEYS = "bidnsql"


class NGrid(Model):
    """meta['ngridlevel'][domain, ilevel]"""

    def __init__(self, table, trace, owner):
        self.table, self.trace, self.owner = table, trace, owner

    def __getitem__(self, idx):
        if isinstance(idx, int) and not isinstance(idx, bool):
            # one domain's row (numpy: a view): ngridlevel[domain][ilevel]
            if not -len(self.table) <= idx < len(self.table):
                raise Raised("IndexError", None, "index %d is out of bounds for axis 0 with size %d" % (idx, len(self.table)))
            return NGridRow(self, idx % len(self.table))
        if not (isinstance(idx, tuple) and len(idx) == 2):
            raise Unsupported("ngridlevel indexed with %r" % (idx,))
        self.trace.append(("ngridlevel", self.owner, idx))
        return self.table[idx[0]][idx[1]]


class NGridRow(Model):
    def __init__(self, grid, dom):
        self.grid, self.dom = grid, dom

    def __getitem__(self, il):
        if not (isinstance(il, int) and not isinstance(il, bool)):
            raise Unsupported("ngridlevel[%d] indexed with %r" % (self.dom, il))
        return self.grid.table[self.dom][il]

    def __len__(self):
        return len(self.grid.table[self.dom])


class Offsets(dict):
    pass


class RecReader(Model):
    """A reader as Loader.load sees it: every method records (method, reader, arguments)."""

    def __init__(self, name, kind, sc):
        self.name, self.kind, self.sc = name, kind, sc
        self.initialized = False
        self.cpu_list = None      # like the real readers: the Hilbert pre-selection is (re)computed by initialize(), for the CURRENT call
        self.offsets = Offsets({k: 7 for k in OFFSET_KEYS})   # stale values of a previous file
        self.offsets["extra"] = 5
        self.bytes = None
        self.meta = {"nboundary": sc["nboundary"], "ngridlevel": NGrid(sc["ngridlevel"], sc["trace"], name)}
        self.variables = {}
        if kind == "mesh":
            for v, read in sc["variables"].get(name, {}).items():
                self.variables[v] = {"read": read, "pieces": {}, "buffer": None, "unit": "u"}
        self.ncalls = 0

    def _rec(self, *ev):
        self.sc["trace"].append((ev[0], self.name) + tuple(ev[1:]))

    def initialize(self, meta, units, select):
        self._rec("initialize", dict(lmax=meta.get("lmax"), ncells=meta.get("ncells"), npart=meta.get("nparticles")),
                  select if not isinstance(select, dict) else dict(select), units)
        self.initialized = self.name in self.sc["initialized"]
        self.cpu_list = self.sc.get("hilbert_cpu_list") if self.name == "amr" else None
        for item in self.variables.values():
            item["pieces"] = {}
        return self.sc["loaded_on_init"].get(self.name)

    def read_header(self, meta):
        self._rec("read_header", dict((k, self.offsets.get(k)) for k in OFFSET_KEYS), self.bytes)

    def read_level_header(self, ilevel, twotondim):
        self._rec("read_level_header", ilevel, twotondim)

    def read_domain_header(self):
        self._rec("read_domain_header")

    def allocate_buffers(self, ncache, twotondim):
        self._rec("allocate_buffers", ncache, twotondim)
        self.ncalls += 1
        for v, item in self.variables.items():
            item["buffer"] = ArrTok(("buffer", self.name, v, self.ncalls), "u", (ncache * twotondim,))

    def read_cacheline_header(self, ncache, ndim):
        self._rec("read_cacheline_header", ncache, ndim)

    def read_variables(self, ncache, ind, ilevel, cpuid, info):
        self._rec("read_variables", ncache, ind, ilevel, cpuid, "meta" if info is self.sc["meta"] else repr(info))
        if self.name == "part":
            info["nparticles"] += 1

    def make_conditions(self, select):
        self._rec("make_conditions", select if not isinstance(select, dict) else dict(select))
        if self.kind != "mesh":
            return {}
        return {self.name + "_cond": ArrTok(("cond", self.name, self.ncalls), "dimensionless", (4,)), self.name + "_raw": RawTok(("rawcond", self.name, self.ncalls), (4,))}

    def read_footer(self, ncache, twotondim):
        self._rec("read_footer", ncache, twotondim)

    def step_over(self, ncache, twotondim, ndim):
        self._rec("step_over", ncache, twotondim, ndim)


class FileTok(Model):
    def __init__(self, name, mode, trace):
        self.fname, self.mode, self.trace = name, mode, trace

    def read(self, *a):
        self.trace.append(("file-read", self.fname, self.mode))
        return ("bytes-of", self.fname)

    def close(self):
        pass


class GroupRec(Model):
    """Datagroup as the loader uses it"""
    kinds = ("Datagroup",)

    trace = None

    def __init__(self, *a, **k):
        self.items_, self.sorted_by = {}, []

    def __len__(self):
        return len(self.items_)

    def __setitem__(self, k, v):
        self.items_[k] = v

    def __getitem__(self, k):
        return self.items_[k]

    def __contains__(self, k):
        return k in self.items_

    def keys(self):
        return self.items_.keys()

    def sortby(self, key):
        self.sorted_by.append(key)
        if GroupRec.trace is not None:
            GroupRec.trace.append(("sortby", id(self), key, sorted(self.items_)))


class MaskTok(RawTok):
    def astype(self, dtype, *a, **k):
        if isinstance(dtype, Marker) and dtype.kind == "type" and dtype.data[0] is bool or dtype == "bool":
            return self
        return RawTok.astype(self, dtype, *a, **k)


def and_of(x, *a, **k):
    """np.prod / logical_and.reduce of a list of masks: their conjunction"""
    if isinstance(x, (list, tuple)):
        return MaskTok(("AND", frozenset(tok_origin(e) for e in x), tuple(type(e).__name__ for e in x)), (4,))
    if isinstance(x, RawTok) and isinstance(x.origin, tuple) and x.origin[0] == "array":
        return MaskTok(("AND", frozenset(x.origin[1]), x.origin[2]), x.shape)
    raise Unsupported("np.prod(%r)" % (x,))


def scenario(**kw):
    sc = dict(ncpu=2, ndim=2, levelmax=3, nboundary=1, hilbert_cpu_list=None,
              # [domain][ilevel]: domains 0,1 are the cpus, 2 is a boundary
              ngridlevel=[[2, 3, 0], [1, 0, 4], [5, 1, 1]],
              initialized={"amr", "hydro", "part"}, loaded_on_init={"sink": GroupRec()},   # an EMPTY group (falsy): must be kept
              variables={"amr": {"level": True, "xyz_x": True, "skipme": False}, "hydro": {"density": True}},
              ncells=lambda cpu, ilevel: 3, select=None, cpu_list=None, sortby=None, level_cap=2)
    sc.update(kw)
    sc["trace"] = []
    return sc


def run_load(tree, sc, loader=None, meta=None):
    tr = sc["trace"]
    GroupRec.trace = tr
    sc["meta"] = meta if meta is not None else {"levelmax": sc["levelmax"], "ncpu": sc["ncpu"], "ndim": sc["ndim"], "nout": 7, "path": "PATH",
                                                "infile": "INFILE", "ncells": 99, "nparticles": 77, "lmax": 1, "levelmin": 1}
    hooks = core_hooks({
        "numpy.array": lambda x, *a, **k: RawTok(("array", tuple(tok_origin(e) for e in x), tuple(type(e).__name__ for e in x)), (4,)) if isinstance(x, (list, tuple)) else x,
        "numpy.ones": lambda n, *a, **k: [True] * n if isinstance(n, int) else (_ for _ in ()).throw(Unsupported("np.ones(%r)" % (n,))),
        "numpy.zeros": lambda n, *a, **k: [False] * n if isinstance(n, int) else (_ for _ in ()).throw(Unsupported("np.zeros(%r)" % (n,))),
        "numpy.arange": lambda *a, **k: list(range(*a)) if all(isinstance(x, int) for x in a) else (_ for _ in ()).throw(Unsupported("np.arange%r" % (a,))),
        "numpy.asarray": lambda x, *a, **k: x, "numpy.atleast_1d": lambda x, *a, **k: x if isinstance(x, (list, tuple)) else [x],
        "numpy.prod": and_of, "numpy.logical_and.reduce": and_of, "numpy.all": and_of,
        "numpy.sum": lambda sel, *a, **k: tr.append(("count", tok_origin(sel))) or sc["ncells_fn"](sel),
        "numpy.count_nonzero": lambda sel, *a, **k: tr.append(("count", tok_origin(sel))) or sc["ncells_fn"](sel),
        "numpy.concatenate": lambda xs, *a, **k: ArrTok(("concat", tuple(tok_origin(x) for x in xs)), "u", (9,)),
    })
    hooks["builtins"] = {"open": lambda fname, mode="r", *a, **k: tr.append(("open", fname, mode)) or FileTok(fname, mode, tr)}
    hooks["class"]["core/datagroup.py::Datagroup"] = GroupRec
    hooks["pkgfunc"] = {
        "io/utils.py::generate_fname": lambda nout, path="", ftype="", cpuid=1, ext="": ("fname", nout, path, ftype, cpuid, ext),
        "io/utils.py::find_max_amr_level": lambda levelmax, select: tr.append(("find_max_amr_level", levelmax, dict(select))) or sc["level_cap"],
        "io/utils.py::make_vector_arrays": lambda dg, ndim: tr.append(("make_vector_arrays", id(dg), ndim)),
    }
    state = {"cur": None}

    def ncells_fn(sel):
        # which (cpu, level) block is being read: from the last read_variables event
        for ev in reversed(tr):
            if ev[0] == "read_variables":
                return sc["ncells"](ev[5] + 1, ev[4])
        return 0
    sc["ncells_fn"] = ncells_fn
    if loader is None:
        loader = PyObj(tree.cls(LOADER_Q))
        loader._attrs.update({"nout": 7, "path": "PATH", "infile": "INFILE"})
        loader._attrs["readers"] = {n: RecReader(n, k, sc) for n, k in sc["reader_kinds"].items()}
    else:
        for r in loader._attrs["readers"].values():
            r.sc = sc
            r.meta["ngridlevel"].trace = tr
            r.ncalls = 0
    fi = tree.func(LOAD)
    ev = ModelEval(tree, fi, {}, hooks)
    ev.MAX_STEPS = 10 ** 7

    def snap(x):
        if isinstance(x, dict):
            return ("dict", tuple((k, snap(v)) for k, v in x.items()))
        if isinstance(x, (list, tuple)):
            return (type(x).__name__, tuple(snap(v) for v in x))
        return x if isinstance(x, (str, int, float, bool, type(None))) else ("object", id(x))
    before = {k: snap(sc[k]) for k in ("select", "cpu_list", "sortby")}
    out = ev.invoke(fi, [loader], {"select": sc["select"], "cpu_list": sc["cpu_list"], "sortby": sc["sortby"], "meta": sc["meta"], "units": "UNITS"}, None)
    sc["arguments_changed"] = [k for k in before if snap(sc[k]) != before[k]]
    return loader, out


# ---------------------------------------------------------------------------- expected trace (checker-side spec of the traversal)
def expected_reader_trace(sc, name, active, cpu_list, lmax):
    """Per-reader projection of the RAMSES traversal protocol."""
    ev = []
    two = 2 ** sc["ndim"]
    for cpu in cpu_list:
        ev.append(("read_header", name, {k: 0 for k in OFFSET_KEYS}, ("bytes-of", ("fname", 7, "PATH", name, cpu, ""))))
        for il in range(lmax):
            ev.append(("read_level_header", name, il, two))
            for dom in range(sc["nboundary"] + sc["ncpu"]):
                ev.append(("read_domain_header", name))
                nc = sc["ngridlevel"][dom][il]
                if nc > 0:
                    if dom == cpu - 1:
                        ev.append(("allocate_buffers", name, nc, two))
                        ev.append(("read_cacheline_header", name, nc, sc["ndim"]))
                        for ind in range(two):
                            ev.append(("read_variables", name, nc, ind, il, cpu - 1, "meta"))
                        ev.append(("make_conditions", name, "<select>"))
                        ev.append(("read_footer", name, nc, two))
                    else:
                        ev.append(("step_over", name, nc, two, sc["ndim"]))
    return ev


def first_diff(got, want):
    for i, (g, w) in enumerate(zip(got, want)):
        if g != w:
            return "event %d is %s, the traversal requires %s" % (i, g, w)
    if len(got) != len(want):
        return "%d events, the traversal requires %d (%s)" % (len(got), len(want), "next required: %s" % (want[len(got)],) if len(want) > len(got)
                                                              else "extra: %s" % (got[len(want)],))
    return None




class LevelPred(Model):
    """a user predicate on the level: accepts the levels 2 .. cap (a lower bound: level 1 is rejected).  Applied to concrete level numbers it
    answers concretely; applied to a buffer token it gives a mask token"""

    def __init__(self, lo=2, hi=2):
        self.lo, self.hi = lo, hi

    def __call__(self, x):
        if isinstance(x, (list, tuple)) and all(isinstance(v, int) and not isinstance(v, bool) for v in x):
            return [self.lo <= v <= self.hi for v in x]
        if isinstance(x, int) and not isinstance(x, bool):
            return self.lo <= x <= self.hi
        return ArrTok(("levelpred", tok_origin(x)), "dimensionless", getattr(x, "shape", (4,)))

    def __repr__(self):
        return "F"


F_PRED = LevelPred()

SCENARIOS = [
    # label, overrides, expected: active readers (in order), cpu list, lmax, per-kind select
    ("no selection, all mesh readers and particles", {}, dict(active=["amr", "hydro", "part"], cpus=[1, 2], lmax=3, select=lambda kind: {})),
    ("level/variable predicates on the mesh, unknown group in select, Hilbert pre-selection",
     dict(select={"mesh": {"level": F_PRED, "density": "G"}, "bogus": {"x": 1}}, hilbert_cpu_list=[2]),
     dict(active=["amr", "hydro", "part"], cpus=[2], lmax=2, select=lambda kind: {"level": F_PRED, "density": "G"} if kind == "mesh" else {}, cap=True)),
    ("predicate on a mesh variable other than level: no level cap",
     dict(select={"mesh": {"density": "G"}}),
     dict(active=["amr", "hydro", "part"], cpus=[1, 2], lmax=3, select=lambda kind: {"density": "G"} if kind == "mesh" else {}, cap=False)),
    ("explicit cpu_list overrides the Hilbert pre-selection", dict(cpu_list=[1], hilbert_cpu_list=[2]),
     dict(active=["amr", "hydro", "part"], cpus=[1], lmax=3, select=lambda kind: {})),
    ("only sinks: no file is opened", dict(initialized=set()), dict(active=[], cpus=[], lmax=0, select=lambda kind: {})),
    ("hydro without amr: the AMR reader is added", dict(initialized={"hydro"}), dict(active=["hydro", "amr"], cpus=[1, 2], lmax=3, select=lambda kind: {})),
    ("only particles: files read, tree not traversed", dict(initialized={"part"}), dict(active=["part"], cpus=[1, 2], lmax=0, select=lambda kind: {})),
    ("only particles with an explicit cpu_list: only those files are read", dict(initialized={"part"}, cpu_list=[2]), dict(active=["part"], cpus=[2], lmax=0, select=lambda kind: {})),
    ("select given as a list of groups", dict(select=["mesh", "sink"]),
     dict(active=["amr", "hydro", "part"], cpus=[1, 2], lmax=3, select=lambda kind: kind in ("mesh", "sink"))),
    ("a block with no selected cell; sorting requested", dict(ncells=lambda cpu, il: 0 if (cpu, il) == (2, 2) else 3, sortby={"mesh": "level", "absent": "x"}),
     dict(active=["amr", "hydro", "part"], cpus=[1, 2], lmax=3, select=lambda kind: {})),
    ("an explicit EMPTY cpu_list (a list computed from a criterion that matched no file): no file is read", dict(cpu_list=[], hilbert_cpu_list=[2]),
     dict(active=["amr", "hydro", "part"], cpus=[], lmax=3, select=lambda kind: {})),
    ("variable lists per group (one name that no reader provides)", dict(select={"mesh": ["density", "level", "no_such_variable"], "part": ["mass"]}),
     dict(active=["amr", "hydro", "part"], cpus=[1, 2], lmax=3, select=lambda kind: {"mesh": ["density", "level", "no_such_variable"], "part": ["mass"]}.get(kind, {}))),
    # the mask tokens have four elements: here every cell of every block qualifies (a piece may then be stored without masking -
    # which is the work buffer ITSELF: see work_buffer_retained)
    ("every cell of every block selected", dict(ncells=lambda cpu, il: 4), dict(active=["amr", "hydro", "part"], cpus=[1, 2], lmax=3, select=lambda kind: {})),
]


_RETAINED = {}
_FRESH = __import__("itertools").count(1)


def work_buffer_retained(tree):
    """Reader.allocate_buffers of the repository, interpreted twice for blocks of the same size and once for another size: does a work
    array of one block survive into the next?  -> None (a fresh array every time) or a description of the retained buffer"""
    if tree is None:
        raise Unsupported("work_buffer_retained without a tree")
    if id(tree) in _RETAINED:
        return _RETAINED[id(tree)]
    from .core_models import UnitTok
    ci = tree.cls("io/reader.py::Reader")
    m = tree.method(ci, "allocate_buffers")
    hooks = core_hooks({"numpy.empty": lambda shape, *a, **k: RawTok(("empty", next(_FRESH)), tuple(shape) if isinstance(shape, (list, tuple)) else (shape,)),
                        "numpy.zeros": lambda shape, *a, **k: RawTok(("zeros", next(_FRESH)), tuple(shape) if isinstance(shape, (list, tuple)) else (shape,)),
                        "numpy.dtype": lambda t, *a, **k: t})
    r = PyObj(ci)
    r._attrs.update({"kind": "mesh", "variables": {"v": {"read": True, "type": "d", "buffer": None, "pieces": {}, "unit": _UnitHolder(UnitTok("u"))}}})
    ev = ModelEval(tree, m, {}, hooks)
    seen = []
    for ncache in (3, 3, 5, 3):
        ev.invoke(m, [r, ncache, 8], {}, None)
        seen.append(r._attrs["variables"]["v"]["buffer"])
    res = None
    for i in range(1, len(seen)):
        for j in range(i):
            if seen[i] is seen[j] or (getattr(seen[i], "origin", 0) == getattr(seen[j], "origin", 1)):
                res = "io/reader.py::Reader.allocate_buffers keeps the work array of an earlier block (call %d returns the array of call %d)" % (i + 1, j + 1)
    _RETAINED[id(tree)] = res
    return res


class _UnitHolder(Model):
    """item["unit"]: the Array whose .units is the unit of the variable"""

    def __init__(self, u):
        self.units = self.unit = u


def check_scenario(sc, exp, loader, out, kinds):
    """-> list of (aspect, problem)"""
    tr = sc["trace"]
    problems = []
    two = 2 ** sc["ndim"]
    if sc.get("arguments_changed"):
        problems.append(("arguments", "load() modified the caller's %s (a select reused for the next output - a loop over snapshots - no longer asks for the same thing)" % ", ".join(sc["arguments_changed"])))
    # ---- initialisation
    inits = [e for e in tr if e[0] == "initialize"]
    if [e[1] for e in inits] != list(kinds):
        problems.append(("initialize", "readers initialised: %s (required every reader once, in order %s)" % ([e[1] for e in inits], list(kinds))))
    for e in inits:
        want_sel = exp["select"](kinds[e[1]])
        if e[3] != want_sel:
            problems.append(("select", "reader %s initialised with select=%r (required %r: the entry of its own group)" % (e[1], e[3], want_sel)))
        if e[2]["lmax"] != exp["lmax_meta"]:
            problems.append(("lmax-before-initialize", "reader %s is initialised while meta['lmax'] = %r (required %r: readers size their work from it)" % (
                e[1], e[2]["lmax"], exp["lmax_meta"])))
        if e[4] != "UNITS":
            problems.append(("initialize", "reader %s initialised with units=%r" % (e[1], e[4])))
    caps = [e for e in tr if e[0] == "find_max_amr_level"]
    if exp.get("cap") is True:
        if len(caps) != 1 or caps[0][1] != sc["levelmax"] or caps[0][2] != exp["select"]("mesh"):
            problems.append(("level-cap", "find_max_amr_level calls: %s (required one, with levelmax=%d and the mesh predicates)" % (caps, sc["levelmax"])))
    elif caps and exp.get("cap") is False:
        problems.append(("level-cap", "level cap computed although there is no level predicate: %s" % (caps,)))
    # ---- per-reader traversal
    for name in kinds:
        got = [e for e in tr if e[1:2] == (name,) and e[0] not in ("initialize", "ngridlevel")]
        got = [(e[0], e[1], "<select>") if e[0] == "make_conditions" else e for e in got]
        want = expected_reader_trace(sc, name, exp["active"], exp["cpus"], exp["lmax"]) if name in exp["active"] else []
        d = first_diff(got, want)
        if d:
            problems.append(("traversal[%s]" % name, d))
        for e in tr:
            if e[0] == "make_conditions" and e[1] == name and e[2] != exp["select"](kinds[name]):
                problems.append(("select", "make_conditions of %s receives %r (required %r)" % (name, e[2], exp["select"](kinds[name]))))
                break
    # ---- files: opened per (cpu, active reader), binary, before that reader's header
    opens = [e for e in tr if e[0] == "open"]
    want_open = [("open", ("fname", 7, "PATH", name, cpu, ""), "rb") for cpu in exp["cpus"] for name in exp["active"]]
    if opens != want_open:
        problems.append(("files", first_diff(opens, want_open) or "?"))
    ng = [e for e in tr if e[0] == "ngridlevel"]
    if any(e[1] != "amr" for e in ng):
        problems.append(("ncache", "grid counts taken from reader %s (required the AMR reader)" % sorted({e[1] for e in ng})))
    # ---- selection, counters, pieces
    blocks = []           # (cpu, ilevel, sel origin, ncells)
    cur = None
    for e in tr:
        if e[0] == "read_variables":
            cur = (e[5] + 1, e[4])
        if e[0] == "count":
            blocks.append((cur[0], cur[1], e[1], sc["ncells"](*cur)))
    nblocks = sum(1 for cpu in exp["cpus"] for il in range(exp["lmax"]) if sc["ngridlevel"][cpu - 1][il] > 0)
    if len(blocks) != nblocks:
        problems.append(("selection", "%d selection masks evaluated for %d blocks of cells" % (len(blocks), nblocks)))
    k = 0
    mesh_active = [n for n in exp["active"] if kinds[n] == "mesh"]
    sels = []
    for (cpu, il, sel, n) in blocks:
        k += 1
        want = ("AND", frozenset([("cond", r, k) for r in mesh_active] + [("rawcond", r, k) for r in mesh_active]))
        if not (isinstance(sel, tuple) and sel[0] == "AND" and sel[1] == want[1]):
            problems.append(("selection", "cells of cpu %d level %d selected with %s (required the conjunction of the conditions of every reader: %s)" % (
                cpu, il + 1, sel, sorted(want[1]))))
            break
        sels.append((k, sel, n))
    if exp["active"] and any(kinds[n] == "mesh" for n in exp["active"]):
        want_cells = sum(n for (_, _, _, n) in blocks)
        if sc["meta"].get("ncells") != want_cells:
            problems.append(("counters", "meta['ncells'] = %r after the load (required %d: reset, then the selected cells of every block)" % (sc["meta"].get("ncells"), want_cells)))
    if exp["cpus"]:
        want_part = sum(1 for e in tr if e[0] == "read_variables" and e[1] == "part")
        if sc["meta"].get("nparticles") != want_part:
            problems.append(("counters", "meta['nparticles'] = %r after the load (required %d: reset on every load)" % (sc["meta"].get("nparticles"), want_part)))
    # ---- result
    if not isinstance(out, dict):
        problems.append(("result", "load returns %r" % (out,)))
        return problems
    want_keys = set(sc["loaded_on_init"].keys()) | {kinds[n] for n in exp["active"]}
    if set(out) != want_keys:
        problems.append(("result", "groups returned: %s (required %s)" % (sorted(out), sorted(want_keys))))
    for key, val in sc["loaded_on_init"].items():
        if out.get(key) is not val:
            problems.append(("result", "the (empty) group returned by %s.initialize is not kept: out[%r] = %r ('empty' and 'missing' become indistinguishable)" % (key, key, out.get(key))))
    mesh = out.get("mesh")
    if mesh_active:
        if not isinstance(mesh, GroupRec):
            problems.append(("pieces", "out['mesh'] is %r" % (mesh,)))
        else:
            want_vars = {}
            for r in mesh_active:
                for v, read in sc["variables"].get(r, {}).items():
                    if read:
                        want_vars[v] = ("concat", tuple(("idx", ("buffer", r, v, k_), sel) for (k_, sel, n) in sels if n > 0))
            got_vars = {v: tok_origin(a) for v, a in mesh.items_.items()}
            # a block whose cells ALL qualify may be stored unmasked - the same values - but the piece is then the reader's work buffer
            # itself, not a copy: sound only while allocate_buffers hands out a fresh array for every block (decided on the real readers)
            unmasked = []
            for v, w in want_vars.items():
                g = got_vars.get(v)
                if isinstance(g, tuple) and g[:1] == ("concat",) and len(g) == 2 and len(g[1]) == len(w[1]) and g != w:
                    norm = []
                    for gp, wp, (k_, sel, n) in zip(g[1], w[1], [x for x in sels if x[2] > 0]):
                        if gp == wp[1] and n == 4:
                            unmasked.append((v, k_))
                            norm.append(wp)
                        else:
                            norm.append(gp)
                    got_vars[v] = ("concat", tuple(norm))
            if unmasked:
                kept = work_buffer_retained(sc.get("tree"))
                if kept:
                    problems.append(("pieces", "variable %s: the piece of block %d is the reader's work buffer itself (stored without a copy), and %s: "
                                     "the next block of the same size overwrites the stored rows" % (unmasked[0][0], unmasked[0][1], kept)))
            if any(not w[1] for w in want_vars.values()):
                want_vars = {}
            if got_vars != want_vars:
                bad = sorted(set(got_vars) ^ set(want_vars)) or [v for v in want_vars if got_vars[v] != want_vars[v]]
                v = bad[0]
                problems.append(("pieces", "variable %s of the mesh group is %s (required %s: the buffer of every block with selected cells, masked with "
                                 "that block's ONE selection, in traversal order)" % (v, got_vars.get(v, "absent"), want_vars.get(v, "absent"))))
            if sc["sortby"]:
                want_sort = [key for grp, key in sc["sortby"].items() if grp == "mesh"]
                if mesh.sorted_by != want_sort:
                    problems.append(("sortby", "mesh group sorted by %s (required %s)" % (mesh.sorted_by, want_sort)))
                evs = [e[0] for e in tr if e[0] in ("sortby", "make_vector_arrays")]
                if "sortby" in evs and "make_vector_arrays" in evs[evs.index("sortby"):]:
                    problems.append(("sortby", "sorting runs before the vector quantities are assembled"))
                if any(e[0] == "sortby" and not e[3] for e in tr):
                    problems.append(("sortby", "sorting runs before the variables are merged into the group"))
    mv = [e for e in tr if e[0] == "make_vector_arrays"]
    if len(mv) != len(out) or any(e[2] != sc["ndim"] for e in mv):
        problems.append(("vectors", "make_vector_arrays applied to %d of %d groups" % (len(mv), len(out))))
    return problems


def check_load(run, tree):
    from .keydomain import reader_kinds
    readers, kinds = reader_kinds(tree)
    fi = tree.func(LOAD)
    run.analysed(fi)
    for label, over, exp in SCENARIOS:
        construct = "%s[%s]" % (LOAD, label)
        try:
            def attempt(over=over):
                sc_ = scenario(**over)
                sc_["reader_kinds"] = kinds
                sc_["tree"] = tree
                try:
                    return ("ok", sc_) + tuple(run_load(tree, sc_))
                except (Raised, ProgramRaised) as e:
                    return ("raised", sc_, e, None)
            # tests the abstraction does not decide (`if ncells == sel.size:`) are explored both ways
            branches = explore(attempt)
            exp = dict(exp)
            problems, raised, sc = [], None, None
            for assume, (status, sc, loader, out) in branches:
                if status == "raised":
                    raised = loader
                    break
                exp["lmax_meta"] = sc["level_cap"] if exp.get("cap") else sc["levelmax"]
                ps = check_scenario(sc, exp, loader, out, kinds)
                if ps:
                    problems = [(p[0], p[1] + ("" if not assume else " (assuming %s)" % ", ".join("%s%s" % ("" if v else "NOT ", k[:60]) for k, v in sorted(assume.items())))) for p in ps]
                    break
            if raised is not None:
                run.violated(construct, fi.where(), "raises %s" % raised, "load(%s)" % label)
                continue
            run.ob(construct, not problems, fi.where(), "; ".join("%s: %s" % p for p in problems[:3]) or
                   "%d events: every reader follows the traversal (files %s, levels %d), one conjunction mask per block, counters and pieces exact" % (
                       len(sc["trace"]), exp["cpus"], exp["lmax"]),
                   "load(%s): %s" % (label, "; ".join(sorted({p[0] for p in problems})) if problems else
                                     "a reader misses or repeats a record, cells are selected with a partial mask, counters drift, a group is lost"))
            run.extra.setdefault("loader_fold_events", {})[label] = len(sc["trace"])
        except ERR as e:
            run.unresolved(construct, fi.where(), "cannot fold: %s" % e)
    # ---- history: the Hilbert pre-selection of one load is not the cpu list of the next
    construct = LOAD + "[a load with a Hilbert pre-selection, then a load without]"
    try:
        sc1 = scenario(select={"mesh": {"density": "G"}}, hilbert_cpu_list=[2])
        sc1["reader_kinds"] = kinds
        loader, out1 = run_load(tree, sc1)
        sc2 = scenario()
        sc2["reader_kinds"] = kinds
        loader, out2 = run_load(tree, sc2, loader=loader, meta=sc1["meta"])
        exp = dict(active=["amr", "hydro", "part"], cpus=[1, 2], lmax=3, select=lambda kind: {}, cap=False, lmax_meta=3)
        problems = check_scenario(sc2, exp, loader, out2, kinds)
        run.ob(construct, not problems, fi.where(), "; ".join("%s: %s" % p for p in problems[:3]) or "the second load reads every file",
               "after a load restricted by position predicates, a plain load() still reads only the files of the earlier region")
    except (Raised, ProgramRaised) as e:
        run.violated(construct, fi.where(), "raises %s" % e, "second load")
    except ERR as e:
        run.unresolved(construct, fi.where(), "cannot fold: %s" % e)
    # ---- history: a second load on the same Loader object starts from scratch
    construct = LOAD + "[second load on the same Loader]"
    try:
        sc1 = scenario()
        sc1["reader_kinds"] = kinds
        loader, out1 = run_load(tree, sc1)
        meta = sc1["meta"]
        sc2 = scenario(select={"mesh": {"density": "G"}}, cpu_list=[2])
        sc2["reader_kinds"] = kinds
        loader, out2 = run_load(tree, sc2, loader=loader, meta=meta)
        exp = dict(active=["amr", "hydro", "part"], cpus=[2], lmax=3, select=lambda kind: {"density": "G"} if kind == "mesh" else {}, cap=False, lmax_meta=3)
        problems = check_scenario(sc2, exp, loader, out2, kinds)
        if out2 is out1 or (isinstance(out2, dict) and isinstance(out1, dict) and any(out2.get(k) is out1.get(k) and isinstance(out2.get(k), GroupRec) for k in out2)):
            problems.append(("fresh-output", "the second load returns objects of the first"))
        run.ob(construct, not problems, fi.where(), "; ".join("%s: %s" % p for p in problems[:3]) or "the second load is unaffected by the first (selection, level cap, counters, pieces, output rebuilt)",
               "loading twice from one Dataset: cells counted twice, an earlier level cap or selection persists")
    except (Raised, ProgramRaised) as e:
        run.violated(construct, fi.where(), "raises %s" % e, "second load")
    except ERR as e:
        run.unresolved(construct, fi.where(), "cannot fold: %s" % e)


# =============================================================================== thorough tier: a product of loader scenarios
def check_load_space(run, tree):
    """Loader.load folded over the product ndim {1,2,3} x ncpu {1,2,3} x levelmax {2,3,4} x nboundary {0,1,2} x {no selection, level predicate}
    x {all cpus, explicit cpu_list}, with grid-count tables containing empty (level, domain) blocks: every scenario is compared with
    the traversal specification (one aggregated obligation per ndim)"""
    import itertools
    from .keydomain import reader_kinds
    readers, kinds = reader_kinds(tree)
    fi = tree.func(LOAD)
    run.analysed(fi)
    for ndim in (1, 2, 3):
        bad, unres, n, events = [], [], 0, 0
        for ncpu, levelmax, nb, with_level, with_list in itertools.product((1, 2, 3), (2, 3, 4), (0, 1, 2), (False, True), (False, True)):
            n += 1
            label = "ndim=%d ncpu=%d levelmax=%d nboundary=%d%s%s" % (ndim, ncpu, levelmax, nb, " level-predicate" if with_level else "", " cpu_list" if with_list else "")
            try:
                table = [[(3 * d + 2 * l + ncpu) % 4 for l in range(levelmax)] for d in range(ncpu + nb)]      # includes empty blocks
                over = dict(ncpu=ncpu, ndim=ndim, levelmax=levelmax, nboundary=nb, ngridlevel=table, level_cap=max(1, levelmax - 1))
                cpus = list(range(1, ncpu + 1))
                if with_list:
                    over["cpu_list"] = [ncpu]
                    cpus = [ncpu]
                if with_level:
                    over["select"] = {"mesh": {"level": F_PRED}}
                exp = dict(active=["amr", "hydro", "part"], cpus=cpus, lmax=over["level_cap"] if with_level else levelmax,
                           select=(lambda kind: {"level": F_PRED} if kind == "mesh" else {}) if with_level else (lambda kind: {}), cap=True if with_level else None)
                sc = scenario(**over)
                sc["reader_kinds"] = kinds
                exp["lmax_meta"] = sc["level_cap"] if exp.get("cap") else sc["levelmax"]
                try:
                    loader, out = run_load(tree, sc)
                except (Raised, ProgramRaised) as e:
                    bad.append("%s: raises %s" % (label, e))
                    continue
                problems = check_scenario(sc, exp, loader, out, kinds)
                events += len(sc["trace"])
                if problems:
                    bad.append("%s: %s" % (label, "; ".join("%s: %s" % p for p in problems[:2])))
            except ERR as e:
                unres.append("%s: %s" % (label, e))
        construct = "%s[scenario space, ndim=%d]" % (LOAD, ndim)
        if unres:
            run.unresolved(construct, fi.where(), "cannot fold %d scenarios, e.g. %s" % (len(unres), unres[0]))
        else:
            run.ob(construct, not bad, fi.where(), ("%d of %d scenarios wrong, e.g. %s" % (len(bad), n, bad[0])) if bad else
                   "%d scenarios (%d events) follow the traversal specification" % (n, events),
                   "for some combination of dimensions, cpus, levels, boundary regions and selection a reader misses or repeats a record, a block is selected with a partial mask or counters drift")
