"""Rules on core/vector.py shared by C06, C08, C09, C17, C18."""
from __future__ import annotations

import ast


VECTOR = "core/vector.py::Vector"
VBINOP = "core/vector.py::_binary_op"

FORWARDED = ["__add__", "__iadd__", "__sub__", "__isub__", "__mul__", "__imul__", "__truediv__", "__itruediv__",
             "__lt__", "__le__", "__gt__", "__ge__", "__eq__", "__ne__", "__and__", "__or__", "__xor__"]






