"""Rules on core/vector.py shared by C06, C08, C09, C17, C18."""
from __future__ import annotations

import ast

from ..source import norm, const_value, walk_no_nested, FuncInfo
from .common import is_name, params, single_return, bind_call, returns_of

VECTOR = "core/vector.py::Vector"
VBINOP = "core/vector.py::_binary_op"

FORWARDED = ["__add__", "__iadd__", "__sub__", "__isub__", "__mul__", "__imul__", "__truediv__", "__itruediv__",
             "__lt__", "__le__", "__gt__", "__ge__", "__eq__", "__ne__", "__and__", "__or__", "__xor__"]


def check_vector_forwarding(run, tree, names=FORWARDED):
    """Each Vector dunder forwards the same-named Array dunder to vector._binary_op(name, self, other)."""
    vi = tree.cls(VECTOR)
    for d in names:
        fi = tree.method(vi, d)
        construct = "%s.%s" % (VECTOR, d)
        if fi is None or fi.cls.qual != vi.qual:
            run.violated(construct, vi.module.rel, "%s is not defined on Vector" % d, "v %s w" % d)
            continue
        run.analysed(fi)
        ret = single_return(fi)
        ok, detail = False, norm(ret)[:80] if ret is not None else "not a single return"
        if isinstance(ret, ast.Call):
            callee = tree.resolve_call(fi, ret)
            if isinstance(callee, FuncInfo) and callee.qual == VBINOP:
                bound, extra, star = bind_call(callee.node, ret)
                pn = params(callee)
                me = params(fi)
                opname = const_value(bound.get(pn[0]))
                ok = (opname == d and is_name(bound.get(pn[1]), me[0]) and len(me) > 1 and is_name(bound.get(pn[2]), me[1])
                      and not extra and not star)
                detail = "forwards %r with operands (%s, %s)" % (opname, norm(bound.get(pn[1])), norm(bound.get(pn[2])))
        run.ob(construct, ok, fi.where(), detail,
               "v %s w applies a different operator to the components%s" % (
                   d, " / rebinds v to a new Vector so that other references do not see the update" if d.startswith("__i") else ""))


def check_component_map(run, tree, fi, construct, elt_ok, what, need_name=False):
    """`fi` returns self.__class__(**{c: f(xyz) for c, xyz in self._xyz.items()}[, name=...]) with f accepted by elt_ok."""
    if fi is None:
        run.violated(construct, "core/vector.py", "method not defined", what)
        return
    run.analysed(fi)
    ret = single_return(fi)
    pn = params(fi)
    ok, detail = False, norm(ret)[:100] if ret is not None else "not a single return"
    name_ok = not need_name
    if isinstance(ret, ast.Call):
        for k in ret.keywords:
            if k.arg is None and isinstance(k.value, ast.DictComp):
                dc = k.value
                if len(dc.generators) == 1:
                    g = dc.generators[0]
                    over_all = norm(g.iter) == "%s._xyz.items()" % pn[0] and not g.ifs
                    if isinstance(g.target, ast.Tuple) and len(g.target.elts) == 2 and all(
                            isinstance(e, ast.Name) for e in g.target.elts):
                        kv, vv = g.target.elts[0].id, g.target.elts[1].id
                        ok = over_all and is_name(dc.key, kv) and elt_ok(dc.value, vv, pn)
            if k.arg == "name" and norm(k.value) in ("%s._name" % pn[0], "%s.name" % pn[0], "str(%s._name)" % pn[0],
                                                     "str(%s.name)" % pn[0]):
                name_ok = True
        ctor_ok = norm(ret.func) in ("%s.__class__" % pn[0], "Vector")
        ok = ok and ctor_ok
    run.ob(construct, ok, fi.where(), detail, "%s — a component is skipped or treated differently" % what)
    if need_name:
        run.ob(construct + "::name-kept", name_ok, fi.where(), "name %s" % ("carried over" if name_ok else "dropped"),
               "v[idx].name / group[idx]['velocity'].name is '' instead of the member's name")
