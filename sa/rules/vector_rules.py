"""Rules on core/vector.py shared by C06, C08, C09, C17, C18."""
from __future__ import annotations

import ast

from ..source import norm, const_value, walk_no_nested, FuncInfo
from .common import is_name, params, single_return, bind_call, returns_of

VECTOR = "core/vector.py::Vector"
VBINOP = "core/vector.py::_binary_op"

FORWARDED = ["__add__", "__iadd__", "__sub__", "__isub__", "__mul__", "__imul__", "__truediv__", "__itruediv__",
             "__lt__", "__le__", "__gt__", "__ge__", "__eq__", "__ne__", "__and__", "__or__", "__xor__"]


def check_vector_forwarding(run, tree, names=FORWARDED):
    """Each Vector dunder forwards the same-named Array dunder to vector._binary_op(name, self, other)."""
    vi = tree.cls(VECTOR)
    for d in names:
        fi = tree.method(vi, d)
        construct = "%s.%s" % (VECTOR, d)
        if fi is None or fi.cls.qual != vi.qual:
            run.violated(construct, vi.module.rel, "%s is not defined on Vector" % d, "v %s w" % d)
            continue
        run.analysed(fi)
        ret = single_return(fi)
        ok, detail = False, norm(ret)[:80] if ret is not None else "not a single return"
        if isinstance(ret, ast.Call):
            callee = tree.resolve_call(fi, ret)
            if isinstance(callee, FuncInfo) and callee.qual == VBINOP:
                bound, extra, star = bind_call(callee.node, ret)
                pn = params(callee)
                me = params(fi)
                opname = const_value(bound.get(pn[0]))
                ok = (opname == d and is_name(bound.get(pn[1]), me[0]) and len(me) > 1 and is_name(bound.get(pn[2]), me[1])
                      and not extra and not star)
                detail = "forwards %r with operands (%s, %s)" % (opname, norm(bound.get(pn[1])), norm(bound.get(pn[2])))
        run.ob(construct, ok, fi.where(), detail,
               "v %s w applies a different operator to the components%s" % (
                   d, " / rebinds v to a new Vector so that other references do not see the update" if d.startswith("__i") else ""))


def _component_dictcomp(call):
    for k in call.keywords:
        if k.arg is None and isinstance(k.value, ast.DictComp):
            return k.value
    return None


def check_component_map(run, tree, fi, construct, elt_ok, what, need_name=False):
    """`fi` returns self.__class__(**{c: f(xyz) for c, xyz in self._xyz.items()}[, name=...]) with f accepted by elt_ok.
    A helper method that performs the component map with a function argument (self._map(lambda xyz: ...)) is followed.
    Unrecognised shapes are *unresolved*; a recognised map over a subset / with another element is a violation."""
    if fi is None:
        run.violated(construct, "core/vector.py", "method not defined", what)
        return
    run.analysed(fi)
    ret = single_return(fi)
    pn = params(fi)
    if not isinstance(ret, ast.Call):
        run.unresolved(construct, fi.where(), "body is not a single `return <call>`")
        return
    name_ok = not need_name
    for k in ret.keywords:
        if k.arg == "name" and norm(k.value) in ("%s._name" % pn[0], "%s.name" % pn[0], "str(%s._name)" % pn[0],
                                                 "str(%s.name)" % pn[0]):
            name_ok = True
    dc = _component_dictcomp(ret)
    elt, var, self_name, over = None, None, pn[0], None
    helper_name_kept = False
    if dc is not None and norm(ret.func) in ("%s.__class__" % pn[0], "Vector", "type(%s)" % pn[0]):
        elt_holder = (dc, pn)
    else:
        # helper extraction: self.<helper>(<lambda>)
        callee = tree.resolve_call(fi, ret)
        lam = ret.args[0] if ret.args and isinstance(ret.args[0], ast.Lambda) else None
        if isinstance(callee, FuncInfo) and callee.cls is not None and lam is not None and len(lam.args.args) == 1:
            hret = single_return(callee)
            hp = params(callee)
            hdc = _component_dictcomp(hret) if isinstance(hret, ast.Call) else None
            if hdc is not None and len(hp) >= 2 and len(hdc.generators) == 1:
                g = hdc.generators[0]
                if isinstance(g.target, ast.Tuple) and len(g.target.elts) == 2 and isinstance(hdc.value, ast.Call) and \
                        is_name(hdc.value.func, hp[1]) and len(hdc.value.args) == 1 and is_name(hdc.value.args[0],
                                                                                                   g.target.elts[1].id):
                    over_all = norm(g.iter) == "%s._xyz.items()" % hp[0] and not g.ifs and is_name(hdc.key, g.target.elts[0].id)
                    ok = over_all and elt_ok(lam.body, lam.args.args[0].arg, pn)
                    for k in hret.keywords:
                        if k.arg == "name" and "name" in norm(k.value):
                            name_ok = True
                    for k in ret.keywords:
                        if k.arg == "name":
                            name_ok = name_ok or "name" in norm(k.value)
                    run.ob(construct, ok, fi.where(), "via helper %s: %s" % (callee.qual, norm(ret)[:80]),
                           "%s — a component is skipped or treated differently" % what)
                    if need_name:
                        run.ob(construct + "::name-kept", name_ok, fi.where(), "name %s" % (
                            "carried over" if name_ok else "dropped"),
                               "v[idx].name / group[idx]['velocity'].name is '' instead of the member's name")
                    return
        run.unresolved(construct, fi.where(), "not a recognised component map: %s" % norm(ret)[:100])
        return
    ok = False
    if len(dc.generators) == 1:
        g = dc.generators[0]
        over_all = norm(g.iter) == "%s._xyz.items()" % pn[0] and not g.ifs
        if isinstance(g.target, ast.Tuple) and len(g.target.elts) == 2 and all(isinstance(e, ast.Name) for e in g.target.elts):
            kv, vv = g.target.elts[0].id, g.target.elts[1].id
            ok = over_all and is_name(dc.key, kv) and elt_ok(dc.value, vv, pn)
    run.ob(construct, ok, fi.where(), norm(ret)[:100], "%s — a component is skipped or treated differently" % what)
    if need_name:
        run.ob(construct + "::name-kept", name_ok, fi.where(), "name %s" % ("carried over" if name_ok else "dropped"),
               "v[idx].name / group[idx]['velocity'].name is '' instead of the member's name")
