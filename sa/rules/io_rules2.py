"""Loader / reader rules that are not offset arithmetic: leaf rule, masks, scaling, geometry, vector assembly,
selection normalisation, particles and sinks (shared by C01, C12, C13, C14)."""
from __future__ import annotations

import ast
from fractions import Fraction as F

from ..flow import enumerate_paths, guards_of
from ..peval import Evaluator, Model, Unsupported, RaisedInModel, ReturnValue, ProgramRaised
from ..poly import Poly, Rat, S, C
from ..source import norm, const_value, walk_no_nested, FuncInfo, ClassInfo, AnalysisError
from .common import is_name, params, calls_in, returns_of, stores_in, flatten_targets

LOAD = "io/loader.py::Loader.load"
AMR = "io/amr.py::AmrReader"
READER = "io/reader.py::Reader"


class TextEval(Evaluator):
    """Pure-expression evaluator: sub-expressions are looked up by their normalised text first."""

    def __init__(self, tree, fi, text_env, env=None, funcs=None):
        super().__init__(env or {})
        self.tree, self.fi, self.text_env, self.funcs = tree, fi, text_env, funcs or {}

    def ev(self, node):
        t = norm(node)
        if t in self.text_env:
            return self.text_env[t]
        return super().ev(node)

    def ev_Name(self, node):
        if node.id in self.env:
            return self.env[node.id]
        if node.id in self.funcs:
            return self.funcs[node.id]
        import builtins
        if node.id in ("int", "float", "len", "range", "list", "dict", "bool", "str", "all", "any", "enumerate", "zip", "isinstance",
                       "set", "tuple", "min", "max", "abs", "sorted"):
            return getattr(builtins, node.id)
        if node.id == "print":
            return lambda *a, **k: None
        if node.id in ("True", "False", "None"):
            return {"True": True, "False": False, "None": None}[node.id]
        raise Unsupported("name %s" % node.id)

    def ev_Attribute(self, node):
        t = norm(node)
        if t in self.text_env:
            return self.text_env[t]
        d = self.tree.dotted(self.fi.module, node)
        if d and d in self.funcs:
            return self.funcs[d]
        return super().ev_Attribute(node)

    def call(self, node, func, args, kwargs):
        if callable(func):
            try:
                return func(*args, **kwargs)
            except (Unsupported, RaisedInModel):
                raise
            except Exception as e:
                raise Unsupported("call %s: %s: %s" % (norm(node.func), type(e).__name__, e))
        raise Unsupported("call %s" % norm(node.func))


NPLOGIC = {"numpy.logical_not": lambda a: not a, "numpy.logical_and": lambda a, b: bool(a and b), "numpy.logical_or": lambda a, b: bool(a or b),
           "numpy.invert": lambda a: not a}


# =============================================================================== leaf rule
def check_leaf_rule(run, tree):
    fi = tree.func(AMR + ".read_variables")
    run.analysed(fi)
    ref = [n for n in walk_no_nested(fi.node) if isinstance(n, ast.Assign) and norm(n.targets[0]).startswith("%s.ref[" % params(fi)[0])]
    if len(ref) != 1:
        run.unresolved(AMR + ".read_variables::leaf-rule", fi.where(), "assignment of the leaf mask not found")
        return
    expr = ref[0].value
    pn = params(fi)
    ILEVEL, INFO = pn[3], pn[5]
    son_txt = [norm(n) for n in ast.walk(expr) if isinstance(n, ast.Subscript) and norm(n.value) == "%s.son" % pn[0]]
    table = []
    want = {("no son", "below the deepest loaded level"): True, ("no son", "at the deepest loaded level"): True,
            ("refined", "below the deepest loaded level"): False, ("refined", "at the deepest loaded level"): True}
    for son_label, son in (("no son", 0), ("refined", 5)):
        for lev_label, (ilevel, lmax) in (("below the deepest loaded level", (1, 4)), ("at the deepest loaded level", (3, 4))):
            tenv = {t: son for t in son_txt}
            tenv["%s['lmax']" % INFO] = lmax
            tenv["%s['levelmax']" % INFO] = 9
            ev = TextEval(tree, fi, tenv, {ILEVEL: ilevel}, NPLOGIC)
            construct = "%s.read_variables::leaf-rule[%s, %s]" % (AMR, son_label, lev_label)
            try:
                got = bool(ev.ev(expr))
            except Unsupported as e:
                run.unresolved(construct, fi.where(ref[0]), "cannot evaluate the leaf predicate: %s" % e)
                continue
            w = want[(son_label, lev_label)]
            run.ob(construct, got == w, fi.where(ref[0]), "leaf = %s (required %s)" % (got, w),
                   "a cell that is %s, %s, is %s" % (son_label, lev_label, "returned although its children are also returned (duplicate coverage)"
                                                     if got and not w else "dropped: the domain has a hole"))
    # also one level deeper check of the off-by-one: ilevel == lmax - 2 must still be interior
    tenv = {t: 5 for t in son_txt}
    tenv["%s['lmax']" % INFO] = 4
    tenv["%s['levelmax']" % INFO] = 9
    try:
        got = bool(TextEval(tree, fi, tenv, {ILEVEL: 2}, NPLOGIC).ev(expr))
        run.ob(AMR + ".read_variables::leaf-rule[refined, one level above the deepest]", got is False, fi.where(ref[0]),
               "leaf = %s (required False)" % got, "refined cells one level above the cap are returned together with their children")
    except Unsupported:
        pass
    # make_conditions always contains the leaf mask
    mc = tree.func(AMR + ".make_conditions")
    src = " ".join(norm(s) for s in mc.node.body)
    ok = "conditions.update({'leaf': %s.ref})" % params(mc)[0] in src and "super().make_conditions(%s)" % params(mc)[1] in src
    guarded = any(isinstance(s, (ast.If, ast.Try)) for s in mc.node.body)
    run.ob(AMR + ".make_conditions::leaf-always-included", ok and not guarded, mc.where(), "conditions = user conditions + {'leaf': self.ref}: %s" % ok,
           "with (or without) user predicates the leaf mask is not applied: refined cells are returned")


# =============================================================================== one mask
def check_one_mask(run, tree):
    fi = tree.func(LOAD)
    run.analysed(fi)
    sel = [n for n in walk_no_nested(fi.node) if isinstance(n, ast.Assign) and is_name(n.targets[0], "sel")]
    if len(sel) != 1:
        run.unresolved(LOAD + "::sel", fi.where(), "assignment of the combined selection not found")
        return
    v = sel[0].value
    t = norm(v).replace(" ", "")
    conj = None
    for c in ast.walk(v):
        if isinstance(c, ast.Call):
            d = tree.dotted(fi.module, c.func)
            if d in ("numpy.prod", "numpy.all", "numpy.logical_and.reduce", "numpy.min", "numpy.amin"):
                conj = d
            if d in ("numpy.sum", "numpy.any", "numpy.logical_or.reduce", "numpy.max", "numpy.amax"):
                conj = "DISJ:" + d
    over_all = "forcinconditions.values()" in t and "if" not in t.split("forcinconditions.values()")[1][:6]
    axis0 = "axis=0" in t
    run.ob(LOAD + "::selection-is-conjunction", conj is not None and not conj.startswith("DISJ") and over_all and axis0, fi.where(sel[0]),
           "sel = %s over %s, axis=0: %s" % (conj, "all conditions" if over_all else "a subset of the conditions", axis0),
           "cells satisfying only some of the predicates (or non-leaf cells satisfying a user predicate) are returned")
    upd = [c for c in calls_in(fi.node) if norm(c.func) == "conditions.update"]
    ok = len(upd) == 1 and norm(upd[0].args[0]) == "reader.make_conditions(_select[reader.kind])"
    lp = guards_of(fi.node, next((s for s in walk_no_nested(fi.node) if isinstance(s, ast.Expr) and s.value in upd), None)) if upd else None
    run.ob(LOAD + "::conditions-from-every-reader", ok, fi.where(upd[0]) if upd else fi.where(),
           "conditions.update(%s)" % (norm(upd[0].args[0]) if upd else "?"), "predicates on hydro variables (or the leaf mask) are ignored")
    # pieces are cut with that same sel for every read variable of every mesh reader
    st = [n for n in walk_no_nested(fi.node) if isinstance(n, ast.Assign) and "['pieces']" in norm(n.targets[0])]
    ok = len(st) == 1 and norm(st[0].value) == "item['buffer'][sel]"
    g = [norm(t) for t, pol in (guards_of(fi.node, st[0]) or []) if pol] if st else []
    run.ob(LOAD + "::one-mask-for-every-variable", ok and "reader.kind == 'mesh'" in g and "item['read']" in g, fi.where(st[0]) if st else fi.where(),
           "pieces[...] = %s under %s" % (norm(st[0].value) if st else "?", g), "variables of one cell come from different cells (rows misaligned)")
    nc = [n for n in walk_no_nested(fi.node) if isinstance(n, ast.Assign) and is_name(n.targets[0], "ncells")]
    acc = [n for n in walk_no_nested(fi.node) if isinstance(n, ast.AugAssign) and norm(n.target) == "meta['ncells']"]
    ok = len(nc) == 1 and norm(nc[0].value) in ("np.sum(sel)", "sel.sum()", "np.count_nonzero(sel)") and len(acc) == 1 and is_name(acc[0].value, "ncells")
    run.ob(LOAD + "::ncells", ok, fi.where(nc[0]) if nc else fi.where(), "ncells = %s accumulated into meta['ncells']" % (norm(nc[0].value) if nc else "?"),
           "meta['ncells'] disagrees with the rows returned")


# =============================================================================== scale / label pairing
def check_scale_label(run, tree):
    sites = [(READER + ".allocate_buffers", "units"), (READER + ".read_variables", "magnitude"), (AMR + ".read_variables", "magnitude"),
             ("io/part.py::PartReader.read_header", "both"), ("io/sink.py::SinkReader.initialize", "both")]
    for q, what in sites:
        fi = tree.func(q)
        run.analysed(fi)
        mags, units = [], []
        for n in walk_no_nested(fi.node):
            if isinstance(n, ast.Attribute) and n.attr == "magnitude":
                mags.append(norm(n.value))
            if isinstance(n, ast.Attribute) and n.attr == "units":
                units.append(norm(n.value))
        if what == "both":
            # inside one constructor call: values * X.magnitude, unit=X.units
            ok = False
            detail = "no Array(values=... * X.magnitude, unit=X.units) found"
            for c in calls_in(fi.node):
                if norm(c.func) == "Array":
                    kws = {k.arg: k.value for k in c.keywords}
                    if "values" in kws and "unit" in kws:
                        m = [norm(x.value) for x in ast.walk(kws["values"]) if isinstance(x, ast.Attribute) and x.attr == "magnitude"]
                        u = norm(kws["unit"].value) if isinstance(kws["unit"], ast.Attribute) and kws["unit"].attr == "units" else None
                        mult = any(isinstance(x, ast.BinOp) and isinstance(x.op, ast.Mult) for x in ast.walk(kws["values"]))
                        ok = len(m) == 1 and u == m[0] and mult
                        detail = "values scaled by %s.magnitude, labelled %s.units" % (m, u)
            run.ob(q + "::scale-label-pairing", ok, fi.where(), detail, "numbers scaled with one unit entry and labelled with another (or not scaled)")
        elif what == "units":
            ok = units == ["item['unit']"]
            run.ob(q + "::buffer-unit", ok, fi.where(), "buffers labelled with %s.units" % units, "mesh variables labelled with the wrong unit")
        else:
            # every store of file/geometry data into a buffer multiplies by the same record's unit magnitude
            stores = [n for n in walk_no_nested(fi.node) if isinstance(n, ast.Assign) and "['buffer']._array[" in norm(n.targets[0])]
            for s_ in stores:
                rec = norm(s_.targets[0]).split("['buffer']")[0]
                m = [norm(x.value) for x in ast.walk(s_.value) if isinstance(x, ast.Attribute) and x.attr == "magnitude"]
                is_label = norm(s_.value) in ("ilevel + 1", "cpuid + 1")
                ok = is_label or (m == ["%s['unit']" % rec] and any(isinstance(x, ast.BinOp) and isinstance(x.op, ast.Mult) for x in ast.walk(s_.value)))
                run.ob("%s::scaled-store[%s]" % (q, rec), ok, fi.where(s_), "%s = ... %s" % (rec, "x %s.magnitude" % m if m else "(integer label)"),
                       "values of %s are stored in code units but labelled with a physical unit (or scaled with another variable's factor)" % rec)
    # descriptor_to_variables: unit looked up by the variable's own name
    d = tree.func(READER + ".descriptor_to_variables")
    ok = any(isinstance(n, ast.Dict) and any(const_value(k) == "unit" and norm(v) == "units[key]" for k, v in zip(n.keys, n.values))
             for n in walk_no_nested(d.node))
    run.ob(READER + ".descriptor_to_variables::unit-by-name", ok, d.where(), "record['unit'] = units[key]: %s" % ok,
           "a variable is scaled with the library entry of another variable")


# =============================================================================== geometry
def check_geometry(run, tree):
    fi = tree.func(AMR + ".read_level_header")
    run.analysed(fi)
    pn = params(fi)
    SELF, ILEVEL, TTD = pn[0], pn[1], pn[2]

    class Rec(Model):
        def __init__(self):
            self.store = {}

        def __setitem__(self, k, v):
            self.store[tuple(int(x) if not isinstance(x, tuple) else x for x in k)] = v

    class SelfM(Model):
        pass
    for ilevel in (0, 1, 4):
        selfm = SelfM()
        selfm.xcent = Rec()
        ev = TextEval(tree, fi, {}, {SELF: selfm, ILEVEL: ilevel, TTD: 8}, {})
        ev.constant = lambda node: F(node.value).limit_denominator(1024) if isinstance(node.value, float) else node.value
        construct = "%s.read_level_header[ilevel=%d]" % (AMR, ilevel)
        try:
            ev.exec_block(fi.node.body)
        except (Unsupported, RaisedInModel) as e:
            run.unresolved(construct, fi.where(), "cannot evaluate: %s" % e)
            continue
        dx = getattr(selfm, "dxcell", None)
        want_dx = F(1, 2 ** (ilevel + 1))
        run.ob(construct + "::dxcell", dx == want_dx, fi.where(), "dxcell = %s (required %s)" % (dx, want_dx), "cell sizes of level %d wrong" % (ilevel + 1))
        bad = []
        for ind in range(8):
            bits = (ind & 1, (ind >> 1) & 1, (ind >> 2) & 1)
            for d in range(3):
                w = (F(bits[d]) - F(1, 2)) * want_dx
                g = selfm.xcent.store.get((ind, d))
                if g is None or F(g) != w:
                    bad.append("xcent[%d,%d]=%s (required %s)" % (ind, d, g, w))
        run.ob(construct + "::child-offsets", not bad, fi.where(), "; ".join(bad[:4]) or "8 child offsets = (bit_d(ind) - 1/2) * dxcell, x fastest",
               "children of an oct are placed in the wrong octant (cells swapped within every oct)")
    # read_variables formulas
    rv = tree.func(AMR + ".read_variables")
    pn = params(rv)
    SELF, NC, IND, ILEVEL, CPUID, INFO = pn
    for n in walk_no_nested(rv.node):
        if isinstance(n, ast.Assign) and "['buffer']._array[" in norm(n.targets[0]):
            tgt = norm(n.targets[0])
            env_t = {"%s.xg[:, n]" % SELF: S("xg"), "%s.xcent[%s, n]" % (SELF, IND): S("xc"), "%s.meta['xbound'][n]" % SELF: S("xb"),
                     "%s['boxlen']" % INFO: S("boxlen"), "%s.dxcell" % SELF: S("dxcell")}
            for x in ast.walk(n.value):
                if isinstance(x, ast.Attribute) and x.attr == "magnitude":
                    env_t[norm(x)] = S("u")
            ev = TextEval(tree, rv, env_t, {ILEVEL: S("ilevel"), CPUID: S("cpuid")}, {})
            ev.constant = lambda node: Poly.const(node.value) if isinstance(node.value, (int, float)) else node.value
            try:
                v = ev.ev(n.value)
            except Unsupported as e:
                run.unresolved("%s.read_variables::formula[%s]" % (AMR, tgt[:40]), rv.where(n), "cannot evaluate: %s" % e)
                continue
            if "'level'" in tgt:
                want, what = S("ilevel") + 1, "level = ilevel + 1"
            elif "'cpu'" in tgt:
                want, what = S("cpuid") + 1, "cpu = cpuid + 1 (cpuid = cpu_num - 1)"
            elif "'dx'" in tgt:
                want, what = S("dxcell") * S("boxlen") * S("u"), "dx = dxcell * boxlen * unit"
            elif "[key]" in tgt:
                want, what = (S("xg") + S("xc") - S("xb")) * S("boxlen") * S("u"), "position = (xg + xcent - xbound) * boxlen * unit"
            else:
                run.unresolved("%s.read_variables::formula[%s]" % (AMR, tgt[:40]), rv.where(n), "unknown buffer store")
                continue
            run.ob("%s.read_variables::formula[%s]" % (AMR, what.split(" =")[0]), isinstance(v, Poly) and v == want, rv.where(n),
                   "%s = %r (required %s)" % (tgt.split("[")[1][:12], v, what), "%s of every cell is wrong" % what.split(" =")[0])
    keyn = [n for n in walk_no_nested(rv.node) if isinstance(n, ast.Assign) and is_name(n.targets[0], "key")]
    ok = len(keyn) == 1 and norm(keyn[0].value) == "'position_' + 'xyz'[n]"
    run.ob(AMR + ".read_variables::axis-key", ok, rv.where(), "position key for axis n: %s" % (norm(keyn[0].value) if keyn else "?"),
           "x and y coordinates swapped")


def check_ngridlevel_axes(run, tree):
    fi = tree.func(AMR + ".read_header")
    alloc = [n for n in walk_no_nested(fi.node) if isinstance(n, ast.Assign) and norm(n.targets[0]).endswith("['ngridlevel']")]
    ok = len(alloc) == 1 and norm(alloc[0].value).replace(" ", "").startswith("np.zeros([info['ncpu']+self.meta['nboundary'],info['levelmax']]")
    run.ob(AMR + ".read_header::ngridlevel-shape", ok, fi.where(alloc[0]) if alloc else fi.where(), "ngridlevel allocated as %s" % (norm(alloc[0].value)[:70] if alloc else "?"),
           "grid counts indexed with swapped axes")
    n_ok = 0
    for n in walk_no_nested(fi.node):
        if isinstance(n, ast.Assign) and "['ngridlevel'][" in norm(n.targets[0]):
            t = norm(n.value).replace(" ", "")
            cpu_block = norm(n.targets[0]).replace(" ", "").endswith("[:info['ncpu'],:]")
            want = ".reshape(info['levelmax'],info['ncpu']).T" if cpu_block else ".reshape(info['levelmax'],self.meta['nboundary']).T"
            ok = t.endswith(want)
            n_ok += 1
            run.ob("%s.read_header::ngridlevel-%s" % (AMR, "cpu" if cpu_block else "boundary"), ok, fi.where(n),
                   "record (cpu fastest) reshaped with %s" % t[-60:], "the count for (domain, level) is taken from (level, domain): wrong grids are read")
    if n_ok == 0:
        run.unresolved(AMR + ".read_header::ngridlevel", fi.where(), "stores into ngridlevel not found")


# =============================================================================== vector assembly (D7)
class VecTok(Model):
    def __init__(self, **comps):
        self.comps = comps

    def __eq__(self, o):
        return isinstance(o, VecTok) and self.comps == o.comps

    def __repr__(self):
        return "Vector(%s)" % ", ".join("%s=%s" % kv for kv in self.comps.items())


VEC_CASES = [
    ("3-D velocity + scalars", 3, ["density", "velocity_x", "velocity_y", "velocity_z", "pressure"],
     {"density": "density", "pressure": "pressure", "velocity": VecTok(x="velocity_x", y="velocity_y", z="velocity_z")}),
    ("infix components", 3, ["B_x_left", "B_y_left", "B_z_left", "B_x_right", "B_y_right", "B_z_right"],
     {"B_left": VecTok(x="B_x_left", y="B_y_left", z="B_z_left"), "B_right": VecTok(x="B_x_right", y="B_y_right", z="B_z_right")}),
    ("bare x,y,z -> position", 3, ["x", "y", "z", "mass"], {"position": VecTok(x="x", y="y", z="z"), "mass": "mass"}),
    ("incomplete component set stays scalar", 3, ["velocity_x", "velocity_y", "density"],
     {"velocity_x": "velocity_x", "velocity_y": "velocity_y", "density": "density"}),
    ("2-D", 2, ["velocity_x", "velocity_y", "density"], {"velocity": VecTok(x="velocity_x", y="velocity_y"), "density": "density"}),
    ("2-D with a stray z component", 2, ["velocity_x", "velocity_y", "velocity_z"],
     {"velocity": VecTok(x="velocity_x", y="velocity_y"), "velocity_z": "velocity_z"}),
    ("1-D: nothing merged", 1, ["velocity_x", "density"], {"velocity_x": "velocity_x", "density": "density"}),
    ("name containing an earlier x", 3, ["photon_flux_x", "photon_flux_y", "photon_flux_z", "xenon"],
     {"photon_flux": VecTok(x="photon_flux_x", y="photon_flux_y", z="photon_flux_z"), "xenon": "xenon"}),
    ("position components + level", 3, ["position_x", "position_y", "position_z", "level", "dx"],
     {"position": VecTok(x="position_x", y="position_y", z="position_z"), "level": "level", "dx": "dx"}),
    ("x-named scalar with no partners", 3, ["max_x", "density"], {"max_x": "max_x", "density": "density"}),
]


def check_vector_assembly(run, tree):
    fi = tree.func("io/utils.py::make_vector_arrays")
    run.analysed(fi)
    for label, ndim, keys, want in VEC_CASES:
        data = {k: k for k in keys}
        ev = TextEval(tree, fi, {}, {}, {"Vector": lambda **kw: VecTok(**kw)})
        construct = "io/utils.py::make_vector_arrays[%s]" % label
        try:
            ev.run_function(fi.node, [data, ndim])
        except (Unsupported, RaisedInModel) as e:
            run.unresolved(construct, fi.where(), "cannot evaluate: %s" % e)
            continue
        except (KeyError, ProgramRaised) as e:
            run.violated(construct, fi.where(), "raises %s" % e, "loading a variable set like %s raises" % keys)
            continue
        run.ob(construct, data == want, fi.where(), "%s (ndim=%d) -> %s%s" % (keys, ndim, data, "" if data == want else "; required %s" % want),
               "a variable set like %s: components not merged / merged wrongly / a variable lost or renamed" % keys)


# =============================================================================== selection normalisation (D7)
def check_descriptor_to_variables(run, tree):
    fi = tree.func(READER + ".descriptor_to_variables")
    run.analysed(fi)

    class SelfM(Model):
        pass
    f = "FUNC"
    cases = [
        ("dict listing a predicate", {"a": f}, {"a": f, "b": True}),
        ("dict switching a variable off", {"a": False}, {"a": False, "b": True}),
        ("True", True, {"a": True, "b": True}),
        ("False", False, {"a": False, "b": False}),
        ("list of names", ["a"], {"a": True, "b": False}),
        ("empty dict", {}, {"a": True, "b": True}),
    ]

    class Units(Model):
        def __getitem__(self, k):
            return "unit:" + k
    for label, select, want in cases:
        selfm = SelfM()
        selfm.variables = {"stale": {"read": True, "pieces": {1: "old"}}}
        ev = TextEval(tree, fi, {}, {}, {})
        construct = "%s.descriptor_to_variables[select=%s]" % (READER, label)
        try:
            ev.run_function(fi.node, [selfm, {"a": "d", "b": "i"}, {}, Units(), select])
        except (Unsupported, RaisedInModel) as e:
            run.unresolved(construct, fi.where(), "cannot evaluate: %s" % e)
            continue
        got = {k: v["read"] for k, v in selfm.variables.items() if k in ("a", "b")}
        truthy = {k: bool(v) for k, v in got.items()} == {k: bool(v) for k, v in want.items()}
        run.ob(construct, truthy, fi.where(), "read flags %s (required %s)" % (got, want),
               "selection given as %s loads the wrong set of variables" % label)
        fresh = all(selfm.variables[k]["pieces"] == {} and selfm.variables[k]["type"] in ("d", "i") and
                    selfm.variables[k]["unit"] == "unit:" + k for k in ("a", "b"))
        run.ob(construct + "::fresh-records", fresh, fi.where(), "every descriptor key gets a new record with empty pieces, its type and units[key]: %s" % fresh,
               "pieces of an earlier load are concatenated again", nontrivial=False)


def check_select_normalisation(run, tree):
    """Loader.load: `_select` per kind from the user's select."""
    fi = tree.func(LOAD)
    run.analysed(fi)
    # statements up to (not including) the first one that mentions meta
    prefix = []
    for st in fi.node.body:
        if any(isinstance(n, ast.Name) and n.id == "meta" for n in ast.walk(st)):
            break
        prefix.append(st)

    class R(Model):
        def __init__(self, kind):
            self.kind = kind

    class SelfM(Model):
        pass
    selfm = SelfM()
    selfm.readers = {"amr": R("mesh"), "hydro": R("mesh"), "grav": R("mesh"), "part": R("part"), "rt": R("mesh"), "sink": R("sink")}
    p = "PRED"
    cases = [
        ("None", None, {"mesh": {}, "part": {}, "sink": {}}),
        ("dict for one group", {"mesh": {"density": p}}, {"mesh": {"density": p}, "part": {}, "sink": {}}),
        ("dict switching a group off", {"part": False}, {"mesh": {}, "part": False, "sink": {}}),
        ("dict with an unknown group", {"bogus": {"a": p}, "sink": ["a"]}, {"mesh": {}, "part": {}, "sink": ["a"]}),
        ("list of groups", ["mesh", "sink"], {"mesh": True, "part": False, "sink": True}),
        ("single group in a list", ["part"], {"mesh": False, "part": True, "sink": False}),
    ]
    for label, select, want in cases:
        ev = TextEval(tree, fi, {}, {"self": selfm, "select": select}, {})
        construct = "%s::select-normalisation[%s]" % (LOAD, label)
        try:
            ev.exec_block(prefix)
        except (Unsupported, RaisedInModel) as e:
            run.unresolved(construct, fi.where(), "cannot evaluate: %s" % e)
            continue
        got = ev.env.get("_select")
        run.ob(construct, got == want, fi.where(), "_select = %s (required %s)" % (got, want),
               "select=%s loads groups that were excluded or drops requested ones" % label)
    # each reader is initialised with the selection of its own kind
    init = [c for c in calls_in(fi.node) if isinstance(c.func, ast.Attribute) and c.func.attr == "initialize"]
    ok = len(init) == 1 and {k.arg: norm(k.value) for k in init[0].keywords}.get("select") == "_select[reader.kind]"
    run.ob(LOAD + "::initialize-with-own-kind", ok, fi.where(init[0]) if init else fi.where(), "reader.initialize(select=%s)" % (
        {k.arg: norm(k.value) for k in init[0].keywords}.get("select") if init else "?"), "a reader is configured with another group's selection")


def check_inactive_readers(run, tree):
    fi = tree.func(LOAD)
    src = {norm(s): s for s in walk_no_nested(fi.node) if isinstance(s, ast.stmt)}
    add = [s for t, s in src.items() if t == "readers[group] = reader"]
    g = [norm(t) for t, pol in (guards_of(fi.node, add[0]) or []) if pol] if add else []
    run.ob(LOAD + "::only-initialized-readers", len(add) == 1 and "reader.initialized" in g, fi.where(add[0]) if add else fi.where(),
           "readers[group] = reader under %s" % g, "a reader that was switched off (or whose files are missing) opens and decodes files")
    forced = [s for t, s in src.items() if t == "readers['amr'] = self.readers['amr']"]
    g2 = [(norm(t), pol) for t, pol in (guards_of(fi.node, forced[0]) or [])] if forced else []
    ok = len(forced) == 1 and ("'amr' not in readers", True) in g2 and ("do_not_load_amr", False) in g2
    run.ob(LOAD + "::amr-forced-with-any-mesh-reader", ok, fi.where(forced[0]) if forced else fi.where(), "AMR reader added under %s" % g2,
           "hydro variables are loaded without the AMR tree (no leaf mask, no grid counts)")
    flags = {"do_not_load_amr = False": "reader.kind == 'mesh'", "do_not_load_cpus = False": "reader.kind in ('mesh', 'part')"}
    for stmt, need in flags.items():
        s_ = src.get(stmt)
        gg = [norm(t) for t, pol in (guards_of(fi.node, s_) or []) if pol] if s_ is not None else []
        run.ob("%s::%s" % (LOAD, stmt.split(" =")[0]), s_ is not None and need in gg and "reader.initialized" in gg, fi.where(s_) if s_ is not None else fi.where(),
               "`%s` under %s" % (stmt, gg), "files are (not) read although a reader needs them", nontrivial=False)


# =============================================================================== particles / sinks
def check_part_rows(run, tree):
    fi = tree.func("io/part.py::PartReader.read_header")
    txt = [norm(s) for s in walk_no_nested(fi.node) if isinstance(s, ast.stmt)]
    ok = "npieces = len(item['pieces'])" in txt and any(t.startswith("item['pieces'][npieces] = Array(") for t in txt)
    run.ob("io/part.py::PartReader.read_header::one-piece-per-file", ok, fi.where(), "each read variable appends one piece keyed by the piece count: %s" % ok,
           "pieces of different files overwrite each other: rows lost for some variables")
    lf = tree.func(LOAD)
    merge = [n for n in walk_no_nested(lf.node) if isinstance(n, ast.Assign) and norm(n.targets[0]) == "out[name][key]"]
    ok = len(merge) == 1 and norm(merge[0].value) == "np.concatenate(list(item['pieces'].values()))"
    g = [norm(t) for t, pol in (guards_of(lf.node, merge[0]) or []) if pol] if merge else []
    run.ob(LOAD + "::pieces-concatenated-in-order", ok and any("item['read']" in x for x in g), lf.where(merge[0]) if merge else lf.where(),
           "out[name][key] = %s under %s" % (norm(merge[0].value) if merge else "?", g),
           "variables concatenated in different orders: rows of one particle come from different particles")
    grp = [n for n in walk_no_nested(lf.node) if isinstance(n, ast.Assign) and is_name(n.targets[0], "name") and norm(n.value) == "reader.kind"]
    run.ob(LOAD + "::group-by-kind", len(grp) == 1, lf.where(), "readers merge into the group named by their kind: %s" % (len(grp) == 1),
           "hydro variables land in another group than the AMR variables", nontrivial=False)


def check_sink(run, tree):
    fi = tree.func("io/sink.py::SinkReader.initialize")
    run.analysed(fi)
    body = fi.node
    txt = [norm(s) for s in walk_no_nested(body) if isinstance(s, ast.stmt)]
    n_readline = sum(1 for c in calls_in(body) if isinstance(c.func, ast.Attribute) and c.func.attr == "readline")
    lt = [c for c in calls_in(body) if norm(c.func) == "np.loadtxt"]
    skip = next((const_value(k.value) for c in lt for k in c.keywords if k.arg == "skiprows"), None)
    run.ob("io/sink.py::SinkReader.initialize::header-lines", n_readline == 2 and skip == n_readline, fi.where(),
           "%d header lines read, loadtxt skips %r" % (n_readline, skip), "the first sink is parsed as a header line (or a header as data)")
    a2d = any(norm(c.func) == "np.atleast_2d" and c.args and isinstance(c.args[0], ast.Call) and norm(c.args[0].func) == "np.loadtxt" for c in calls_in(body))
    run.ob("io/sink.py::SinkReader.initialize::single-sink", a2d, fi.where(), "loadtxt result wrapped in atleast_2d: %s" % a2d,
           "a file with exactly one sink: columns are indexed on a 1-D array (IndexError / wrong values)")
    binds = {"m": "units['mass']", "l": "units['length']", "t": "units['time']"}
    okb = all(("%s = %s" % (k, v)) in txt for k, v in binds.items())
    run.ob("io/sink.py::SinkReader.initialize::code-unit-symbols", okb, fi.where(), "m, l, t bound to mass, length, time: %s" % okb,
           "a unit line such as `m l**2 t**-2` is evaluated with swapped scales")
    loop = [n for n in walk_no_nested(body) if isinstance(n, ast.For) and "zip(key_list, unit_list)" in norm(n.iter)]
    ok = False
    if loop:
        t = norm(loop[0])
        ok = "enumerate(zip(key_list, unit_list))" in norm(loop[0].iter) and "sink_data[:, i] * unit.magnitude" in t and "unit=unit.units" in t and "sink[key] = " in t
    run.ob("io/sink.py::SinkReader.initialize::column-pairing", ok, fi.where(loop[0]) if loop else fi.where(),
           "column i <-> key_list[i] <-> unit_list[i], scaled and labelled with the same unit: %s" % ok, "a column is scaled with its neighbour's unit")
    legacy = any("ureg(u.replace('[', '').replace(']', ''))" in t for t in txt) and any("eval(u.replace(' ', '*'))" in t for t in txt)
    run.ob("io/sink.py::SinkReader.initialize::unit-dialects", legacy, fi.where(), "bracket form -> physical unit, otherwise evaluated in code units: %s" % legacy,
           "legacy sink files are scaled as if in code units")
    # missing -> None ; empty -> empty Datagroup
    verdict = {}
    for path in enumerate_paths(fi.node.body):
        conds = {norm(it[1]): it[2] for it in path if it[0] == "test"}
        ex = path[-1]
        if ex[1] != "return":
            continue
        rv = ex[2].value
        if conds.get("not os.path.exists(sink_file)") is True:
            verdict["missing"] = rv
        elif conds.get("os.path.getsize(sink_file) == 0") is True:
            verdict["empty"] = rv
        elif conds.get("select is False") is True:
            verdict["off"] = rv
    run.ob("io/sink.py::SinkReader.initialize::missing-file", "missing" in verdict and verdict["missing"] is None, fi.where(),
           "missing file -> returns %s" % (norm(verdict["missing"]) if verdict.get("missing") is not None else "None"), "a missing sink file gives an (empty) group")
    emp = verdict.get("empty")
    ok = emp is not None and is_name(emp, "sink") and "sink = Datagroup()" in txt
    run.ob("io/sink.py::SinkReader.initialize::empty-file", ok, fi.where(), "zero-size file -> returns %s" % (norm(emp) if emp is not None else "None"),
           "an empty sink file gives no group")
    lf = tree.func(LOAD)
    st = [n for n in walk_no_nested(lf.node) if isinstance(n, ast.If) and any(norm(s) == "out[group] = loaded_on_init" for s in n.body)]
    ok = len(st) == 1 and norm(st[0].test) == "loaded_on_init is not None"
    run.ob(LOAD + "::empty-group-kept", ok, lf.where(st[0]) if st else lf.where(), "a group returned by initialize is stored under `%s`" % (norm(st[0].test) if st else "?"),
           "an empty sink group is falsy (len 0) and is dropped: 'empty' and 'missing' become indistinguishable")


def check_sortby(run, tree):
    lf = tree.func(LOAD)
    blk = [n for n in lf.node.body if isinstance(n, ast.If) and norm(n.test) == "sortby is not None"]
    ok = False
    after_merge = False
    if blk:
        t = norm(blk[0])
        ok = "for group, key in sortby.items()" in t and "if group in out" in t and "out[group].sortby(key)" in t
        idx = lf.node.body.index(blk[0])
        vec = [i for i, s in enumerate(lf.node.body) if "make_vector_arrays" in norm(s)]
        after_merge = bool(vec) and idx > max(vec)
    run.ob(LOAD + "::sort-on-load", ok and after_merge, lf.where(blk[0]) if blk else lf.where(), "sortby applied to every requested group present, after assembly: %s/%s" % (ok, after_merge),
           "sortby sorts only the key column, or runs before vectors are assembled")
