"""Vector.cross / dot / norm (core/vector.py) interpreted by ModelEval over PHYSICAL QUANTITIES: component Arrays carry a symbolic
value and a unit (scale, dimension) with the operator semantics established for core/array.py by C02 (the right operand is
converted when the dimensions agree, units multiply otherwise, sums of different dimensions raise)."""
from __future__ import annotations

from ..models import ModelEval, PyObj, Raised
from ..peval import Model, Unsupported, ProgramRaised
from ..poly import S, Fn
from ..qeval import UnitV, ArrayV, arr_mul, arr_add, DimError, R, DIMLESS
from ..source import AnalysisError
from .core_models import VECTOR_Q, core_hooks

ERR = (Unsupported, AnalysisError)
L1 = {"L": 1}
U1 = UnitV(1, L1)
U2 = UnitV(S("K"), L1)
U3 = UnitV(S("J"), {"T": -1})


class QNum(Model):
    """raw number behind an Array (in the Array's own unit)"""
    kinds = ("ndarray",)
    shape = ()

    def __init__(self, r, fn=None):
        self.r, self.fn = R(r), fn

    def _n(self, o):
        if isinstance(o, QNum):
            if o.fn is not None or self.fn is not None:
                raise Unsupported("arithmetic on an uninterpreted function value")
            return o.r
        if isinstance(o, (int, float)) and not isinstance(o, bool):
            return R(o)
        raise Unsupported("raw arithmetic with %r" % (o,))

    def __add__(self, o):
        return QNum(self.r + self._n(o))

    __radd__ = __iadd__ = __add__

    def __sub__(self, o):
        return QNum(self.r - self._n(o))

    def __mul__(self, o):
        return QNum(self.r * self._n(o))

    __rmul__ = __imul__ = __mul__

    def __neg__(self):
        return QNum(-self.r)


class QArr(Model):
    kinds = ("Array", "Base")
    shape = ()

    def __init__(self, av, name=""):
        self.av = av
        self.name = name

    @property
    def unit(self):
        return self.av.unit

    @unit.setter
    def unit(self, u):
        self.av = ArrayV(self.av.vals, u, self.av.fn)

    @property
    def values(self):
        return QNum(self.av.vals, self.av.fn)

    _array = values

    def _o(self, o):
        if isinstance(o, QArr):
            return o.av
        if isinstance(o, (int, float)) and not isinstance(o, bool):
            return ArrayV(R(o), DIMLESS)
        if isinstance(o, QNum):
            return ArrayV(o.r, DIMLESS)
        raise Unsupported("Array operator with %r" % (o,))

    def _fn_guard(self, o):
        if self.av.fn is not None or (isinstance(o, QArr) and o.av.fn is not None):
            raise Unsupported("arithmetic on an uninterpreted function value")

    def __mul__(self, o):
        self._fn_guard(o)
        return QArr(arr_mul(self.av, self._o(o)))

    __imul__ = __mul__

    def __rmul__(self, o):
        self._fn_guard(o)
        return QArr(arr_mul(self._o(o), self.av))

    def __truediv__(self, o):
        self._fn_guard(o)
        return QArr(arr_mul(self.av, self._o(o), div=True))

    __itruediv__ = __truediv__

    def _add(self, o, sign):
        self._fn_guard(o)
        try:
            return QArr(arr_add(self.av, self._o(o), sign))
        except DimError:
            raise Raised("DimensionalityError", None, "incompatible dimensions")

    def __add__(self, o):
        return self._add(o, 1)

    __iadd__ = __add__

    def __sub__(self, o):
        return self._add(o, -1)

    __isub__ = __sub__

    def __neg__(self):
        return QArr(ArrayV(-self.av.vals, self.av.unit))

    def __getattr__(self, name):
        if name in ("__add__", "__sub__", "__mul__", "__truediv__", "__iadd__", "__isub__", "__imul__", "__itruediv__"):
            return object.__getattribute__(self, name)
        raise AttributeError(name)


def q_array(values=None, unit=None, name=""):
    if isinstance(values, (QArr, PyObj)):
        raise Raised("NotImplementedError", None, "Cannot create Array from Array or Vector.")
    u = unit if isinstance(unit, UnitV) else DIMLESS if unit is None else None
    if u is None:
        raise Unsupported("Array(unit=%r)" % (unit,))
    if isinstance(values, QNum):
        return QArr(ArrayV(values.r, u, fn=values.fn), name)
    if isinstance(values, (int, float)):
        return QArr(ArrayV(R(values), u), name)
    raise Unsupported("Array(%r)" % (values,))


def q_hooks():
    def sqrt(x):
        if isinstance(x, QNum) and x.fn is None:
            return QNum(R(0), fn=Fn("sqrt", x.r))
        raise Unsupported("sqrt(%r)" % (x,))
    h = core_hooks({"numpy.sqrt": sqrt, "numpy.zeros": lambda *a, **k: QNum(0), "numpy.zeros_like": lambda *a, **k: QNum(0)})
    h["class"] = {"core/array.py::Array": q_array}
    h["globals"] = dict(h.get("globals", {}))
    for k in list(h["globals"]):
        h["globals"][k] = lambda u: u if isinstance(u, UnitV) else (_ for _ in ()).throw(Unsupported("units(%r)" % (u,)))
    return h


def qvec(tree, hk, prefix, unit, n=3):
    ci = tree.cls(VECTOR_Q)
    ev = ModelEval(tree, tree.method(ci, "__init__"), {}, hk)
    comps = {c: QArr(ArrayV(S(c + prefix), unit)) for c in "xyz"[:n]}
    return ev.instantiate(ci, [], comps, None)


def qcomps(tree, hk, v):
    ev = ModelEval(tree, tree.func(VECTOR_Q + ".__init__"), {}, hk)
    return ev.obj_getattr(v, "_xyz")


def check_cross(run, tree):
    ci = tree.cls(VECTOR_Q)
    m = tree.method(ci, "cross")
    run.analysed(m)
    for label, ub in (("same-unit", U1), ("compatible-different-units", U2), ("different-dimensions", U3)):
        construct = "%s.cross[%s]" % (VECTOR_Q, label)
        try:
            hk = q_hooks()
            a, b = qvec(tree, hk, "1", U1), qvec(tree, hk, "2", ub)
            try:
                out = ModelEval(tree, m, {}, hk).invoke(m, [a, b], {}, None)
            except (Raised, ProgramRaised) as e:
                run.violated(construct, m.where(), "raises %s" % e, "a x b")
                continue
            comps = qcomps(tree, hk, out) if isinstance(out, PyObj) else None
            if not comps or len(comps) != 3:
                run.violated(construct, m.where(), "cross returns %r" % (out,), "a x b")
                continue
            x1, y1, z1, x2, y2, z2 = (R(S(n_)) for n_ in ("x1", "y1", "z1", "x2", "y2", "z2"))
            k = ub.scale
            want = {"x": (y1 * z2 - z1 * y2) * k, "y": (z1 * x2 - x1 * z2) * k, "z": (x1 * y2 - y1 * x2) * k}
            wdim = (U1 * ub).dim
            bad = []
            for c in "xyz":
                got = comps[c].av
                if not (got.phys() == want[c]):
                    bad.append("%s = %r, required %r" % (c, got.phys(), want[c]))
                if got.unit.dim != wdim:
                    bad.append("%s has dimension %r, required %r" % (c, got.unit.dim, wdim))
            run.ob(construct, not bad, m.where(), "; ".join(bad[:2]) or "components equal the determinant with unit product",
                   "a x b for a in m and b in %s: antisymmetry / a.(a x b)=0 fail" % ("m" if label == "same-unit" else "cm" if label.startswith("compat") else "1/s"))
        except ERR as e:
            run.unresolved(construct, m.where(), "cannot fold cross: %s" % e)


def check_norm(run, tree):
    ci = tree.cls(VECTOR_Q)
    m = tree.method(ci, "norm")
    run.analysed(m)
    for n in (1, 2, 3):
        construct = "%s.norm[nvec=%d]" % (VECTOR_Q, n)
        try:
            hk = q_hooks()
            a = qvec(tree, hk, "1", U2, n)
            try:
                out = ModelEval(tree, m, {}, hk).obj_getattr(a, "norm")
            except (Raised, ProgramRaised) as e:
                run.violated(construct, m.where(), "raises %s" % e, "|v|")
                continue
            comps = [R(S(c + "1")) for c in "xyz"[:n]]
            av = out.av if isinstance(out, QArr) else None
            if n == 1:
                ok = av is not None and av.unit.same(U2) and ((av.fn is None and av.vals == comps[0]) or av.fn == Fn("sqrt", comps[0] * comps[0]))
                run.ob(construct, ok, m.where(), "norm of a 1-component vector = %r" % (av,), "|v| for a 1-D vector")
                continue
            tot = R(0)
            for c in comps:
                tot = tot + c * c
            ok = av is not None and av.fn == Fn("sqrt", tot) and av.unit.same(U2)
            run.ob(construct, ok, m.where(), "norm = %r (required sqrt(%r) in the unit of the components)" % (av, tot), "|v| misses a component or carries the wrong unit")
        except ERR as e:
            run.unresolved(construct, m.where(), "cannot fold norm: %s" % e)


def check_dot(run, tree):
    ci = tree.cls(VECTOR_Q)
    m = tree.method(ci, "dot")
    run.analysed(m)
    for label, ub, n in (("same-unit", U1, 3), ("compatible-different-units", U2, 3), ("different-dimensions", U3, 3),
                         ("compatible-different-units,nvec=2", U2, 2), ("compatible-different-units,nvec=1", U2, 1)):
        construct = "%s.dot[%s]" % (VECTOR_Q, label)
        try:
            hk = q_hooks()
            a, b = qvec(tree, hk, "1", U1, n), qvec(tree, hk, "2", ub, n)
            try:
                out = ModelEval(tree, m, {}, hk).invoke(m, [a, b], {}, None)
            except (Raised, ProgramRaised) as e:
                run.violated(construct, m.where(), "raises %s" % e, "a . b")
                continue
            want = R(0)
            for c in "xyz"[:n]:
                want = want + R(S(c + "1")) * R(S(c + "2"))
            want = want * ub.scale
            wdim = (U1 * ub).dim
            av = out.av if isinstance(out, QArr) else None
            if av is None or av.fn is not None:
                run.violated(construct, m.where(), "dot returns %r" % (out,), "a . b")
                continue
            bad = []
            if not (av.phys() == want):
                bad.append("physical value %r, required %r (values %r labelled with scale %r)" % (av.phys(), want, av.vals, av.unit.scale))
            if av.unit.dim != wdim:
                bad.append("dimension %r, required %r" % (av.unit.dim, wdim))
            run.ob(construct, not bad, m.where(), "; ".join(bad) or "sum of products with the unit of the products",
                   "(1,2,3) m . (100,200,300) cm: numbers computed in one unit and labelled with another")
        except ERR as e:
            run.unresolved(construct, m.where(), "cannot fold dot: %s" % e)


def check_triple_product(run, tree):
    """(u x (n x u)).n == |u|^2 |n|^2 - (u.n)^2 for the repository's cross: with v = n x u the basis (n, u, v) is right-handed"""
    ci = tree.cls(VECTOR_Q)
    m = tree.method(ci, "cross")
    construct = VECTOR_Q + ".cross::triple-product"
    try:
        hk = q_hooks()
        n, u = qvec(tree, hk, "n", DIMLESS), qvec(tree, hk, "u", DIMLESS)
        ev = ModelEval(tree, m, {}, hk)
        w = ev.invoke(m, [n, u], {}, None)
        t = ev.invoke(m, [u, w], {}, None)

        def vals(v):
            c = qcomps(tree, hk, v)
            return [c[k].av.vals for k in "xyz"]
        tn, nn, uu = vals(t), vals(n), vals(u)
        d = lambda a, b: a[0] * b[0] + a[1] * b[1] + a[2] * b[2]
        lhs, rhs = d(tn, nn), d(uu, uu) * d(nn, nn) - d(uu, nn) * d(uu, nn)
        run.ob(construct, lhs == rhs, m.where(), "(u x (n x u)) . n %s |u|^2 |n|^2 - (u.n)^2" % ("==" if lhs == rhs else "!="),
               "with v = n x u the basis is left-handed (u x v = -n): the map is mirrored")
    except (Raised, ProgramRaised) as e:
        run.violated(construct, m.where(), "raises %s" % e, "VectorBasis")
    except ERR as e:
        run.unresolved(construct, m.where(), "cannot fold: %s" % e)
