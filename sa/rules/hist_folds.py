"""plot/histogram2d.py::histogram2d interpreted (ModelEval) over token Arrays with symbolic numpy values: limits, axis
separation, layer semantics are read off what reaches the hist2d kernel and what each returned layer is made of."""
from __future__ import annotations

from ..models import explore, ModelEval, PyObj, Raised
from ..peval import Unsupported, ProgramRaised
from ..poly import Poly, Fn
from ..source import AnalysisError
from ..symnp import Sym, Sc, Stack, np_hooks, ext_default, origin_of, reduce_stack
from .core_models import ArrTok, OpTok, UnitTok, core_hooks
from .layer_folds import LAYER_Q
from .map_folds import QT, walk, leaves

ERR = (Unsupported, AnalysisError)
H2D = "plot/histogram2d.py::histogram2d"


class Rec:
    kernel = None


def describe(o):
    """canonical description of how a limit was obtained from the data"""
    names = {x[1] if x[0] in ("np",) else x[1] for x in walk(o) if isinstance(x, tuple) and len(x) >= 2 and x[0] in ("np", "method") and isinstance(x[1], str)}
    fin = any(isinstance(x, tuple) and x and x[0] == "isfinite" for x in walk(o))
    data = sorted(l for l in leaves(o) if l in ("X", "Y"))
    logged = any(isinstance(x, tuple) and len(x) > 1 and x[0] == "op" and x[1] == "log10" for x in walk(o))
    return (tuple(sorted(names)), fin, tuple(data), logged)


def build(tree, layers_spec, limits=None, logx=False, logy=False, loglog=False, resolution=16, operation="sum", reuse=None, call_opts=None, nan_in_data=None):
    hooks = core_hooks()
    rec = Rec()
    hooks["ext"].update(np_hooks({
        "numpy.log10": lambda x: OpTok("log10", x, None) if isinstance(x, ArrTok) else Sc(Poly.sym(Fn("log10", Sc.lift(x).r))) if Sc.lift(x) is not None else Sym(("log10", origin_of(x))),
        "numpy.isfinite": lambda x: Sym(("isfinite", origin_of(x))),
        "numpy.where": lambda c, *a: (Sym(("where", origin_of(c))),) if not a else Sym(("where3", origin_of(c), origin_of(a))),
        "numpy.ones_like": lambda x, *a, **k: Sym(("ones_like", origin_of(x))),
        "numpy.logspace": lambda a, b, n, *r, **k: Sym(("logspace", origin_of(a), origin_of(b), origin_of(n))),
    }))

    def limit_reduce(name):
        def f(x, *a, **k):
            if isinstance(x, Stack):
                return reduce_stack(name, x, a, k)
            o = ("np", name, origin_of(x))
            return Sc.sym("limit%r" % (describe(o),))
        return f
    for nm in ("amin", "amax", "min", "max", "nanmin", "nanmax"):
        hooks["ext"]["numpy." + nm] = limit_reduce(nm)
    if nan_in_data is not None:
        # a reduction of the WHOLE data is NaN exactly when the data contain a NaN (numpy propagates it); infinities do not show this way
        base_isnan = hooks["ext"].get("numpy.isnan")
        hooks["ext"]["numpy.isnan"] = lambda x, *a, **k: bool(nan_in_data) if isinstance(x, Sc) and "limit(" in repr(x) and ", False, " in repr(x) else (
            False if isinstance(x, Sc) and "limit(" in repr(x) else base_isnan(x, *a, **k))
    hooks["ext_default"] = ext_default
    hooks["builtins"] = {"abs": lambda x: Sc(Poly.sym(Fn("abs", x.r))) if isinstance(x, Sc) else abs(x)}

    kparams = [a.arg for a in tree.func("plot/utils.py::hist2d").node.args.args]

    def kernel(*pos, **kw):
        # arguments bound to the kernel's own parameter names, however the call spells them (positionally or by keyword)
        if len(pos) > len(kparams) or any(n in kw for n in kparams[:len(pos)]):
            raise Raised("TypeError", None, "hist2d() called with arguments that do not bind")
        kw = dict(zip(kparams, pos), **kw)
        rec.kernel = kw
        v = kw.get("values")
        if not isinstance(v, Stack):
            raise Unsupported("values handed to hist2d: %r" % (v,))
        return Stack([Sym(("binned", k)) for k in range(len(v))]), Sym(("counts",))
    hooks["pkgfunc"] = {"plot/parser.py::get_norm": lambda norm=None, vmin=None, vmax=None: ("norm-object", norm, vmin, vmax),
                        "plot/utils.py::hist2d": kernel}
    ci = tree.cls(LAYER_Q)
    ev0 = ModelEval(tree, tree.method(ci, "__init__"), {}, hooks)
    layers = []
    by_tag = {}
    for tag, op, *more in layers_spec:
        opts = {"operation": op} if op else {}
        if more:
            opts.update(more[0])
        if tag not in by_tag:
            by_tag[tag] = ArrTok(tag, "g", (5,), tag.lower())          # one Array OBJECT per tag: the same tag twice = the same object in two layers
        layers.append(ev0.instantiate(ci, [by_tag[tag]], opts, None))
    if reuse is not None:
        layers = reuse
    rec.layers = layers
    x = ArrTok("X", "m", (5,), "x")
    y = ArrTok("Y", "s", (5,), "y")
    kwargs = dict(plot=False, logx=logx, logy=logy, loglog=loglog, resolution=resolution, operation=operation)
    kwargs.update(limits or {})
    kwargs.update(call_opts or {})
    fi = tree.func(H2D)
    ev = ModelEval(tree, fi, {}, hooks)
    out = ev.invoke(fi, [x, y] + layers, kwargs, None)
    return rec, out


def auto(axis, which, logged=False):
    red = {"min": ("amin", "min"), "max": ("amax", "max")}[which]
    return [Sc.sym("limit%r" % (((r,), True, (axis,), logged),)) for r in red] + \
           [Sc.sym("limit%r" % ((tuple(sorted((r, "take"))), True, (axis,), logged),)) for r in red]


def check_hist2d(run, tree, aspects=("limits", "layers")):
    fi = tree.func(H2D)
    run.analysed(fi)
    # ------------------------------------------------------------------ limits
    cases = [
        ("automatic limits", {}, False),
        ("automatic limits, logarithmic x", {}, True),
        ("explicit numbers", {"xmin": 2.0, "xmax": 9.0, "ymin": 1.0, "ymax": 4.0}, False),
        ("explicit numbers, logarithmic x", {"xmin": 2.0, "xmax": 9.0, "ymin": 1.0, "ymax": 4.0}, True),
        ("explicit Quantities in another unit", {"xmin": QT("XLO@km", "km"), "xmax": QT("XHI@km", "km"), "ymin": 1.0, "ymax": 4.0}, False),
        ("one end given, the other automatic", {"xmin": 2.0, "ymax": 4.0}, False),
        # 0 is a limit like any other (data on both sides of zero): it is not "no limit"
        ("explicit numbers, two of them exactly 0", {"xmin": 0.0, "xmax": 9.0, "ymin": -4.0, "ymax": 0}, False),
        ("one end given as 0, the other automatic", {"xmax": 0.0, "ymin": 0}, False),
    ]
    for label, lim, logx, nan_in_data in ([c + (n_,) for c in cases for n_ in ((False, True) if len(c[1]) < 4 else (None,))] if "limits" in aspects else []):
        construct = "%s::limits[%s%s]" % (H2D, label, "" if nan_in_data is None else (", data with a NaN" if nan_in_data else ", data without NaN (infinities possible)"))
        try:
            try:
                # a test the abstraction does not decide (np.isclose of two symbolic limits) is explored both ways
                branches = explore(lambda: build(tree, [("RHO", "mean")], limits=dict(lim), logx=logx, nan_in_data=nan_in_data), limit=6)
            except (Raised, ProgramRaised) as e:
                run.violated(construct, fi.where(), "raises %s" % e, "histogram2d(%s)" % label)
                continue
            problems = []
            for assume, (rec, out) in branches:
              kw = rec.kernel or {}
              if problems:
                  break
              tag = "" if not assume else " (when %s)" % ", ".join("%s%s" % ("" if v_ else "NOT ", k_[:80]) for k_, v_ in sorted(assume.items()))
              for ax, AX, lg in (("x", "X", logx), ("y", "Y", False)):
                  lo_in, hi_in = lim.get(ax + "min"), lim.get(ax + "max")

                  def given(v):
                      if isinstance(v, QT):
                          v = v.to(UnitTok("m" if ax == "x" else "s")).magnitude
                      else:
                          v = Sc.lift(v)
                      if lg:
                          v = Sc(Poly.sym(Fn("log10", v.r)))
                      return v
                  got_lo, got_hi = Sc.lift(kw.get(ax + "min")) or kw.get(ax + "min"), Sc.lift(kw.get(ax + "max")) or kw.get(ax + "max")
                  if not isinstance(got_lo, Sc) or not isinstance(got_hi, Sc):
                      problems.append("%s limits handed to the kernel: %r, %r" % (ax, got_lo, got_hi))
                      continue
                  cands_lo = [given(lo_in)] if lo_in is not None else auto(AX, "min", lg)
                  cands_hi = [given(hi_in)] if hi_in is not None else auto(AX, "max", lg)
                  ok = False
                  for m in cands_lo:
                      for M in cands_hi:
                          d = M - m

                          def coeff(delta):
                              """delta == c * d for a constant c -> c, else None"""
                              try:
                                  q = (delta / d).r.as_poly()
                              except (ValueError, ZeroDivisionError):
                                  return None
                              return float(q.const_value()) if q.is_const() else None
                          c_lo = coeff(got_lo - m) if lo_in is None else (0.0 if got_lo == m else None)
                          c_hi = coeff(got_hi - M) if hi_in is None else (0.0 if got_hi == M else None)
                          if c_lo is not None and c_hi is not None and (c_lo <= 0 if lo_in is None else True) and (c_hi > 0 if hi_in is None else True):
                              ok = True
                  if not ok:
                      problems.append("%s range handed to the kernel is [%r, %r] (required: given limits converted to the axis unit%s; a missing limit = "
                                      "finite %s of the data; the automatic upper end strictly above the data maximum)%s" % (ax, got_lo, got_hi, " and log10'd" if lg else "", "min/max", tag))
            run.ob(construct, not problems, fi.where(), "; ".join(problems[:2]) or "x and y ranges as specified", "points on the edge of the data fall outside the "
                   "histogram; an infinite value in the data makes the automatic range infinite; a limit in km is read as m")
        except ERR as e:
            run.unresolved(construct, fi.where(), "cannot fold: %s" % e)
    # ------------------------------------------------------------------ axis separation + layers
    for label, spec, logx, logy, call_op in ((("two layers (mean, sum)", [("RHO", "mean"), ("TEMP", None)], False, True, "sum"), ("no layer: counts", [], True, False, "sum"),
                                             ("layer-level sum against call-level mean", [("RHO", None), ("TEMP", "sum")], False, False, "mean"),
                                             ("three layers (sum, mean, sum)", [("RHO", "sum"), ("TEMP", "mean"), ("PRES", None)], False, False, "sum"),
                                             # the SAME Array object given twice, with different reductions: each layer has its own slot and its own reduction
                                             ("the same Array as a mean layer and as a sum layer", [("RHO", "mean"), ("RHO", "sum")], False, False, "sum"),
                                             ("the same Array as two mean layers", [("RHO", "mean"), ("RHO", "mean")], False, False, "sum")) if "layers" in aspects else ()):
        construct = "%s::layers[%s]" % (H2D, label)
        try:
            try:
                rec, out = build(tree, spec, logx=logx, logy=logy, operation=call_op)
            except (Raised, ProgramRaised) as e:
                run.violated(construct, fi.where(), "raises %s" % e, "histogram2d(%s)" % label)
                continue
            kw = rec.kernel or {}
            problems = []
            for ax, AX, other, lg in (("x", "X", "Y", logx), ("y", "Y", "X", logy)):
                for k_ in (ax, ax + "min", ax + "max"):
                    o = origin_of(kw.get(k_))
                    txt = repr(o)
                    if ("'%s'" % other) in txt or ("('%s'," % other) in txt:
                        problems.append("kernel argument %s depends on the %s data" % (k_, other.lower()))
                    if ("'%s'" % AX) not in txt and ("('%s'," % AX) not in txt:
                        problems.append("kernel argument %s does not depend on the %s data" % (k_, AX.lower()))
                vo = origin_of(kw.get(ax))
                has_log = any(isinstance(t, tuple) and len(t) > 1 and t[0] == "op" and t[1] == "log10" for t in walk(vo))
                if has_log != lg:
                    problems.append("%s values handed to the kernel are %s (log%s=%s)" % (ax, "log10'd" if has_log else "linear", ax, lg))
                if kw.get("n" + ax) != 16:
                    problems.append("n%s = %r" % (ax, kw.get("n" + ax)))
            vals = kw.get("values")
            elems = [origin_of(e) for e in vals.elems] if isinstance(vals, Stack) else []
            if spec:
                if [sorted(leaves(e) & {"RHO", "TEMP", "PRES"}) for e in elems] != [[s_[0]] for s_ in spec]:
                    problems.append("kernel slots are made of %s (required one slot per layer, in order)" % [sorted(leaves(e)) for e in elems])
            else:
                if len(elems) != 1 or not any(isinstance(t, tuple) and t and t[0] == "ones_like" for t in walk(elems[0])):
                    problems.append("without layers the binned quantity is %r (required ones: the number of points per bin)" % (elems,))
            rl = out._attrs.get("layers") if isinstance(out, PyObj) else None
            ops = [s[1] or call_op for s in spec] or ["sum"]
            if not isinstance(rl, list) or len(rl) != len(ops):
                problems.append("%r layers returned" % (rl if not isinstance(rl, list) else len(rl),))
            else:
                for i, op in enumerate(ops):
                    d = origin_of(rl[i].get("data")) if isinstance(rl[i], dict) else None
                    want_body = ("binned", i) if op != "mean" else ("/", ("binned", i), ("counts",))
                    want = ("masked", ("==", ("counts",), 0), want_body)
                    if d != want:
                        problems.append("layer %d (%s) is %r (required %r)" % (i, op, d, want))
            run.ob(construct, not problems, fi.where(), "; ".join(problems[:3]) or
                   "x arguments from x only, y from y only; one kernel slot per layer; mean = slot / counts, others the slot; masked where counts == 0",
                   "a layer shows another layer's histogram; 'mean' is not divided by the counts (or 'sum' is); empty bins are not masked; the y range is "
                   "computed from x")
        except ERR as e:
            run.unresolved(construct, fi.where(), "cannot fold: %s" % e)


def check_hist2d_layer_options(run, tree):
    """norm / vmin / vmax per layer: a layer that sets them keeps its own, a layer that leaves them unset gets the CALL-level ones - whatever the
    position of the layers (an earlier layer's options never become the later layers' defaults)"""
    fi = tree.func(H2D)
    run.analysed(fi)
    own = {"norm": "log", "vmin": 1.0, "vmax": 100.0}
    call = {"norm": "linear", "vmin": 0.5}
    for label, spec in (("own options first, unset second", [("RHO", None, own), ("TEMP", None)]), ("unset first, own options second", [("RHO", None), ("TEMP", None, own)]),
                        ("own, unset, unset", [("RHO", None, own), ("TEMP", None), ("PRES", None)])):
        construct = "%s::layer-options[%s]" % (H2D, label)
        try:
            try:
                rec, out = build(tree, spec, call_opts=dict(call))
            except (Raised, ProgramRaised) as e:
                run.violated(construct, fi.where(), "raises %s" % e, "histogram2d with %s" % label)
                continue
            rl = out._attrs.get("layers") if isinstance(out, PyObj) else None
            problems = []
            if not isinstance(rl, list) or len(rl) != len(spec):
                problems.append("%r layers returned" % (rl if not isinstance(rl, list) else len(rl),))
            else:
                for i, sp in enumerate(spec):
                    eff = dict(norm=call.get("norm"), vmin=call.get("vmin"), vmax=call.get("vmax"))
                    if len(sp) > 2:
                        eff.update(sp[2])
                    want = ("norm-object", eff["norm"], eff["vmin"], eff["vmax"])
                    params = rl[i].get("params") if isinstance(rl[i], dict) else None
                    got = params.get("norm") if isinstance(params, dict) else None
                    if got != want:
                        problems.append("layer %d is rendered with %r (required %r)" % (i, got, want))
            run.ob(construct, not problems, fi.where(), "; ".join(problems[:3]) or "every layer rendered with its own norm/vmin/vmax where set and the call-level ones otherwise",
                   "the colour scale of one layer is applied to the layers after it")
        except ERR as e:
            run.unresolved(construct, fi.where(), "cannot fold: %s" % e)


def check_hist2d_history(run, tree):
    """the same Layer object (without an operation of its own) handed to two calls with different call-level operations: each call uses its own"""
    fi = tree.func(H2D)
    construct = H2D + "::layers[one Layer object, two calls]"
    try:
        try:
            rec1, out1 = build(tree, [("RHO", None)], operation="mean")
            rec2, out2 = build(tree, [], operation="sum", reuse=rec1.layers)
        except (Raised, ProgramRaised) as e:
            run.violated(construct, fi.where(), "raises %s" % e, "two histograms of one Layer")
            return
        d1 = origin_of(out1._attrs["layers"][0].get("data"))
        d2 = origin_of(out2._attrs["layers"][0].get("data"))
        w1 = ("masked", ("==", ("counts",), 0), ("/", ("binned", 0), ("counts",)))
        w2 = ("masked", ("==", ("counts",), 0), ("binned", 0))
        lay = rec1.layers[0]
        untouched = lay._attrs.get("operation") is None and lay._attrs.get("kwargs") == {}
        run.ob(construct, d1 == w1 and d2 == w2 and untouched, fi.where(),
               "first call (operation='mean') -> %s; second call (operation='sum') -> %s; the caller's Layer afterwards: operation=%r, options=%r" % (
                   "mean" if d1 == w1 else d1, "sum" if d2 == w2 else d2, lay._attrs.get("operation"), lay._attrs.get("kwargs")),
               "options of an earlier call stick to the caller's Layer: a 'mean' histogram followed by a 'sum' histogram of the same Layer returns means")
    except ERR as e:
        run.unresolved(construct, fi.where(), "cannot fold: %s" % e)
