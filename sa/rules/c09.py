"""C09 — Vector operations are the component-wise lifting of Array operations."""
from __future__ import annotations

import ast

from ..flow import enumerate_paths
from ..peval import Unsupported
from ..poly import Poly, Rat, S, Fn
from ..qeval import QEval, ArrayV, VectorV, UnitV, NumV, DimError, R
from ..source import norm, const_value, walk_no_nested, AnalysisError
from . import coretypes as ct
from . import core_folds as cf
from .common import is_name, params, single_return, returns_of, bind_call
from .vector_rules import (check_vector_forwarding, check_component_map, VECTOR, VBINOP, FORWARDED)

EXPLANATION = 'Folds of the Vector class interpreted over component tokens: (R1) every operator applies the same-named Array operator to every component pair for 1-3 components and operand kinds (Vector, Array, number, ndarray, Quantity), results named/shaped consistently; (R2) component-count gate, unary/mapping methods, numpy dispatch on every component, nvec, norm recomputed after an in-place component change (no cache); (R3-R5) cross = determinant formula, norm = sqrt(sum of squares), dot = sum of products, as physical quantities (symbolic execution with units); (R6) construction from Arrays validates shape and unit of every component, the unit setter reaches every component.'
NOT_DECIDED = 'numeric values; broadcasting between components of different shapes (rejected by the constructor)'
TRUSTED = ('CPython ast', 'Array operator semantics as established by C02/C07', 'the interpreter sa/models.py (ModelEval) and its library models')

L1 = {"L": 1}
U1 = UnitV(1, L1)            # e.g. m
U2 = UnitV(S("K"), L1)       # compatible, different scale (K m)
U3 = UnitV(S("J"), {"T": -1})  # incompatible dimension

TECHNIQUE = 'static analysis: abstract interpretation of the Vector class over component tokens; symbolic execution of cross/dot/norm over physical quantities'

def vec(prefix, unit, n=3):
    return VectorV({c: ArrayV(S(c + prefix), unit) for c in "xyz"[:n]})


def r1_forwarding(run, tree):
    run.rule("C09.R1", "every Vector operator applies the same-named Array operator to every component pair (folded over 1-3 "
             "components and all right-hand kinds); reflected forms in the quantity algebra", "D7 fold (ModelEval) + D1", "S4", floor=21)
    cf.check_vector_lifting(run, tree, FORWARDED)
    ct.check_composites(run, tree, ["__rmul__", "__rtruediv__", "__radd__", "__rsub__", "__invert__"], cls_qual=VECTOR)


def r2_lifting(run, tree):
    run.rule("C09.R2", "component-count gate; unary/mapping methods and the numpy dispatch act on every component; nvec; norm not cached",
             "D7 fold (ModelEval)", "", floor=18)
    cf.check_vector_unary_and_maps(run, tree)
    cf.check_vector_nvec(run, tree)
    cf.check_vector_norm_fresh(run, tree)
    cf.check_vector_wrap_numpy(run, tree)


def _run_method(tree, qual, args, zero=None):
    fi = tree.func(qual)
    ev = QEval(tree, fi, dict(zero or {}))
    return fi, ev, ev.call_function(fi, args, {})


def r3_cross(run, tree):
    run.rule("C09.R3", "cross product = determinant formula, as physical quantities", "D1 x D6 symbolic execution", "", floor=3)
    for label, ub in (("same-unit", U1), ("compatible-different-units", U2), ("different-dimensions", U3)):
        a, b = vec("1", U1), vec("2", ub)
        construct = "%s.cross[%s]" % (VECTOR, label)
        try:
            fi, ev, out = _run_method(tree, VECTOR + ".cross", [a, b])
        except (Unsupported, DimError) as e:
            run.unresolved(construct, "core/vector.py", "cannot execute cross symbolically: %s" % e)
            continue
        run.analysed(fi)
        if not isinstance(out, VectorV) or len(out.comps) != 3:
            run.violated(construct, fi.where(), "cross returns %r" % (out,), "a x b")
            continue
        x1, y1, z1, x2, y2, z2 = (R(S(n)) for n in ("x1", "y1", "z1", "x2", "y2", "z2"))
        k = ub.scale
        want = {"x": (y1 * z2 - z1 * y2) * k, "y": (z1 * x2 - x1 * z2) * k, "z": (x1 * y2 - y1 * x2) * k}
        wdim = (U1 * ub).dim
        bad = []
        for c in "xyz":
            got = out.comps[c]
            if not (got.phys() == want[c]):
                bad.append("%s = %r, required %r" % (c, got.phys(), want[c]))
            if got.unit.dim != wdim:
                bad.append("%s has dimension %r, required %r" % (c, got.unit.dim, wdim))
        run.ob(construct, not bad, fi.where(), "; ".join(bad) or "components equal the determinant with unit product",
               "a x b for a in m and b in %s: antisymmetry / a.(a x b)=0 fail" % (
                   "m" if label == "same-unit" else "cm" if label.startswith("compat") else "1/s"))


def r4_norm(run, tree):
    run.rule("C09.R4", "norm = sqrt(sum of squared components) in the component unit", "D1 symbolic execution", "", floor=3)
    for n in (1, 2, 3):
        a = vec("1", U2, n)
        construct = "%s.norm[nvec=%d]" % (VECTOR, n)
        try:
            fi, ev, out = _run_method(tree, VECTOR + ".norm", [a])
        except (Unsupported, DimError) as e:
            run.unresolved(construct, "core/vector.py", "cannot execute norm symbolically: %s" % e)
            continue
        run.analysed(fi)
        comps = [R(S(c + "1")) for c in "xyz"[:n]]
        if n == 1:
            ok = isinstance(out, ArrayV) and out.fn is None and out.vals == comps[0] and out.unit.same(U2)
            if not ok and isinstance(out, ArrayV) and out.fn is not None:
                ok = out.fn == Fn("sqrt", comps[0] * comps[0]) and out.unit.same(U2)
            run.ob(construct, ok, fi.where(), "norm of a 1-component vector = %r" % (out,), "|v| for a 1-D vector")
            continue
        tot = R(0)
        for c in comps:
            tot = tot + c * c
        ok = isinstance(out, ArrayV) and out.fn == Fn("sqrt", tot) and out.unit.same(U2)
        run.ob(construct, ok, fi.where(), "norm = %r (required sqrt(%r) in the unit of the components)" % (out, tot),
               "|v| misses a component or carries the wrong unit")


def r5_dot(run, tree):
    run.rule("C09.R5", "dot product = sum of component products as physical quantities; unit provenance", "D1 x D6", "",
             floor=5)
    for label, ub, n in (("same-unit", U1, 3), ("compatible-different-units", U2, 3), ("different-dimensions", U3, 3),
                         ("compatible-different-units,nvec=2", U2, 2), ("compatible-different-units,nvec=1", U2, 1)):
        a, b = vec("1", U1, n), vec("2", ub, n)
        construct = "%s.dot[%s]" % (VECTOR, label)
        try:
            fi, ev, out = _run_method(tree, VECTOR + ".dot", [a, b])
        except (Unsupported, DimError) as e:
            run.unresolved(construct, "core/vector.py", "cannot execute dot symbolically: %s" % e)
            continue
        run.analysed(fi)
        want = R(0)
        for c in "xyz"[:n]:
            want = want + R(S(c + "1")) * R(S(c + "2"))
        want = want * ub.scale
        wdim = (U1 * ub).dim
        if not isinstance(out, ArrayV) or out.fn is not None:
            run.violated(construct, fi.where(), "dot returns %r" % (out,), "a . b")
            continue
        bad = []
        if not (out.phys() == want):
            bad.append("physical value %r, required %r (values %r labelled with scale %r)" % (
                out.phys(), want, out.vals, out.unit.scale))
        if out.unit.dim != wdim:
            bad.append("dimension %r, required %r" % (out.unit.dim, wdim))
        run.ob(construct, not bad, fi.where(), "; ".join(bad) or "sum of products with the unit of the products",
               "(1,2,3) m . (100,200,300) cm: numbers computed in one unit and labelled with another")


def r6_construction(run, tree):
    run.rule("C09.R6", "construction from Arrays validates the shape and unit of every component; the unit setter reaches every component",
             "D7 fold of Vector.__init__ / unit setter over component tokens", "", floor=8)
    cf.check_vector_constructor(run, tree)


RULES = [r1_forwarding, r2_lifting, r3_cross, r4_norm, r5_dot, r6_construction]
