"""C09 — Vector operations are the component-wise lifting of Array operations."""
from __future__ import annotations

import ast

from ..poly import S
from ..qeval import QEval, ArrayV, VectorV, UnitV
from . import coretypes as ct
from . import core_folds as cf
from .vector_rules import VECTOR, FORWARDED

EXPLANATION = 'Folds of the Vector class interpreted over component tokens: (R1) every operator applies the same-named Array operator to every component pair for 1-3 components and operand kinds (Vector, Array, number, ndarray, Quantity), results named/shaped consistently; (R2) component-count gate, unary/mapping methods, numpy dispatch on every component, nvec, norm recomputed after an in-place component change (no cache); (R3-R5) cross = determinant formula, norm = sqrt(sum of squares), dot = sum of products, as physical quantities (symbolic execution with units); (R6) construction from Arrays validates shape and unit of every component, the unit setter reaches every component. (R7) the conversion every component operation relies on is exact (shared); a component re-assigned after construction is seen by every later operation. (R8) every numeric result keeps its unit, integers included; (R9) norm is total on rows of zeros, boolean and integer components. (R10) v op y agrees component by component with v.c op y (values, units, refusals) for python 0, numbers, Arrays, Quantities; R5 folds dot over operands of different rank with broadcasting shapes; R9 covers infinite components. R2 also passes extra positional arguments through Vector._wrap_numpy; R5 includes a Vector whose components were attached in another order; R10 includes in-place operators on integer data.'
NOT_DECIDED = 'numeric values; broadcasting between components of different shapes (rejected by the constructor)'
TRUSTED = ('CPython ast', 'Array operator semantics as established by C02/C07', 'the interpreter sa/models.py (ModelEval) and its library models')

L1 = {"L": 1}
U1 = UnitV(1, L1)            # e.g. m
U2 = UnitV(S("K"), L1)       # compatible, different scale (K m)
U3 = UnitV(S("J"), {"T": -1})  # incompatible dimension

TECHNIQUE = 'static analysis: abstract interpretation of the Vector class over component tokens; symbolic execution of cross/dot/norm over physical quantities'

def vec(prefix, unit, n=3):
    return VectorV({c: ArrayV(S(c + prefix), unit) for c in "xyz"[:n]})

from . import vecq_folds as vq


def r1_forwarding(run, tree):
    run.rule("C09.R1", "every Vector operator applies the same-named Array operator to every component pair (folded over 1-3 "
             "components and all right-hand kinds); reflected forms in the quantity algebra", "D7 fold (ModelEval) + D1", "S4", floor=21)
    cf.check_vector_lifting(run, tree, FORWARDED)
    ct.check_composites(run, tree, ["__rmul__", "__rtruediv__", "__radd__", "__rsub__", "__invert__"], cls_qual=VECTOR)


def r2_lifting(run, tree):
    run.rule("C09.R2", "component-count gate; unary/mapping methods and the numpy dispatch act on every component; nvec; norm not cached",
             "D7 fold (ModelEval)", "", floor=18)
    cf.check_vector_unary_and_maps(run, tree)
    cf.check_vector_component_reassigned(run, tree)
    cf.check_vector_nvec(run, tree)
    cf.check_vector_norm_fresh(run, tree)
    cf.check_vector_wrap_numpy(run, tree)


def _run_method(tree, qual, args, zero=None):
    fi = tree.func(qual)
    ev = QEval(tree, fi, dict(zero or {}))
    return fi, ev, ev.call_function(fi, args, {})


def r3_cross(run, tree):
    run.rule("C09.R3", "cross product = determinant formula, as physical quantities", "D7 fold of Vector.cross over quantities (symbolic values x unit scale x dimension)", "", floor=3)
    vq.check_cross(run, tree)


def r4_norm(run, tree):
    run.rule("C09.R4", "norm = sqrt(sum of squared components) in the component unit", "D7 fold of Vector.norm over quantities", "", floor=3)
    vq.check_norm(run, tree)


def r4b_norm_corners(run, tree):
    run.rule("C09.R9", "norm is total: rows of exact zeros give 0 (not nan), boolean and integer components are reduced without a cast error", "D7 fold of Vector.norm over small concrete vectors (IEEE division, numpy casting rules for out=)", "", floor=4)
    from . import quantity_stack as qs
    qs.check_norm_corner_cases(run, tree)


def r5_dot(run, tree):
    run.rule("C09.R5", "dot product = sum of component products as physical quantities; unit provenance", "D7 fold of Vector.dot over quantities", "",
             floor=5)
    vq.check_dot(run, tree)
    from . import quantity_stack as qs
    qs.check_dot_shapes(run, tree)


def r6_construction(run, tree):
    run.rule("C09.R6", "construction from Arrays validates the shape and unit of every component; the unit setter reaches every component",
             "D7 fold of Vector.__init__ / unit setter over component tokens", "", floor=8)
    cf.check_vector_constructor(run, tree)


def r7_conversion(run, tree):
    run.rule("C09.R7", "the conversion every component operation brings its right operand through is exact (shared with C02/C08): Array.to scales by the unit ratio, no cast back",
             "D7 fold of Array.to", "", floor=6)
    from . import array_folds as af
    af.check_to_fold(run, tree)


def r8_gate(run, tree):
    run.rule("C09.R8", "every numeric result of a component operation keeps its unit, integers included (dot, cross, +, -, * of integer-valued Vectors; shared with C02.R4/C10.R4)",
             "D7 fold of _wrap_numpy over the dtype model", "numpy dtype model", floor=14)
    from . import array_folds as af
    af.check_wrap_numpy_fold(run, tree, want=("gate-numeric", "gate-bool"))


def r10_agreement(run, tree):
    run.rule("C09.R10", "end to end: v op y equals, component by component, v.c op y on the component Arrays - same values, same units, same refusals - for y a python 0, "
             "a python number, an Array or a Quantity in compatible and incompatible units", "D7 fold of core/vector.py and core/array.py together with dispatching numpy models", "", floor=6)
    from . import quantity_stack as qs
    qs.check_vector_lifting_stack(run, tree)
    # ... and those component Arrays updated in place hold x op y as a physical quantity (v [m] += w [cm] adds lengths, not raw numbers)
    qs.check_inplace_stack(run, tree)


RULES = [r1_forwarding, r2_lifting, r3_cross, r4_norm, r5_dot, r6_construction, r7_conversion, r8_gate, r4b_norm_corners, r10_agreement]


def t_pair_space(run, tree):
    run.rule("C09.T1", "thorough: v op w, v op Array, v op Quantity for + - * / over all ordered pairs of 10 units and 1-3 components: component-wise on physical quantities", "D7 fold of core/vector.py and core/array.py with dispatching numpy models and symbolic-scale units", "", floor=12)
    from . import quantity_stack as qs
    qs.check_vector_pair_space(run, tree)


THOROUGH_RULES = [t_pair_space]
