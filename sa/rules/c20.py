"""C20 — Datagroup and Dataset behave as dictionaries; equality is by content."""
from __future__ import annotations

import ast

from ..flow import enumerate_paths
from ..source import norm
from . import dg_rules as dg
from .common import is_name, params, returns_of, single_return

EXPLANATION = (
    "Static rules on core/datagroup.py and core/dataset.py: (R1) __iter__, __len__, __delitem__, keys, items, values, get, "
    "pop, clear of both classes delegate to the same-named dict method of the backing dict with the same arguments "
    "(Dataset.clear also clears meta); (R2) gates dominate stores: Datagroup's shape gate (as C06.R1/R2), Dataset's "
    "isinstance(value, Datagroup) test + TypeError precede the store, name and parent are set on every accepted insertion, "
    "constructors and update insert through __setitem__, single writer of each backing dict; (R3) Datagroup.__eq__ is "
    "evaluated over abstract cases (key sets equal/different; per member: no / some / all elements differ; Vector members "
    "differing by a norm-preserving change) with a model of osyris truthiness (a 0-d Array is falsy; np.any on an Array "
    "returns a 0-d Array) and must return the content-equality verdict in each.")
NOT_DECIDED = "insertion order (Python dict); the element-wise comparison values themselves (numpy after unit conversion)"
TRUSTED = ("CPython ast", "Python dict semantics", "model of Array truthiness/iteration (core/array.py __len__)")


def r1_delegation(run, tree):
    run.rule("C20.R1", "dict delegation table", "sibling agreement", "Python dict API", floor=18)
    dg.check_delegation(run, tree, dg.DG, "_container")
    dg.check_delegation(run, tree, dg.DS, "groups")


def r2_gates(run, tree):
    run.rule("C20.R2", "gates dominate stores; every stored item renamed / parented; single writers", "path rule", "", floor=8)
    dg.check_setitem_gate(run, tree)
    dg.check_single_writer(run, tree, dg.DG, "_container")
    dg.check_insertion_via_setitem(run, tree, dg.DG, ["__init__", "update"])
    # Dataset.__setitem__
    ci = tree.cls(dg.DS)
    fi = tree.method(ci, "__setitem__")
    run.analysed(fi)
    pn = params(fi)
    SELF, KEY, VAL = pn
    n_store = 0
    for path in enumerate_paths(fi.node.body):
        typed = False
        stored = named = parented = False
        for it in path:
            if it[0] == "test":
                t = it[1]
                neg = False
                while isinstance(t, ast.UnaryOp) and isinstance(t.op, ast.Not):
                    neg = not neg
                    t = t.operand
                if isinstance(t, ast.Call) and is_name(t.func, "isinstance") and is_name(t.args[0], VAL):
                    r = tree.resolve_expr(fi.module, t.args[1])
                    if getattr(r, "qual", None) == dg.DG:
                        if (it[2] and not neg) or (not it[2] and neg):
                            typed = True
            elif it[0] == "stmt":
                st = it[1]
                src = norm(st)
                is_store = src in ("%s.groups.__setitem__(%s, %s)" % (SELF, KEY, VAL), "%s.groups[%s] = %s" % (SELF, KEY, VAL))
                if is_store:
                    stored = True
                    n_store += 1
                if src == "%s.name = %s" % (VAL, KEY):
                    named = True
                if src == "%s.parent = %s" % (VAL, SELF):
                    parented = True
                if (is_store or src.startswith("%s." % VAL) and isinstance(st, ast.Assign)) and not typed:
                    run.violated(dg.DS + ".__setitem__::effect-before-type-gate", fi.where(st),
                                 "`%s` executes although the value was not shown to be a Datagroup" % src[:60],
                                 "ds['x'] = an Array: stored (or renamed) instead of raising TypeError")
        if path[-1][1] != "raise" and stored:
            run.ob(dg.DS + ".__setitem__::name-and-parent", named and parented, fi.where(),
                   "accepted insertion sets name=%s parent=%s" % (named, parented),
                   "ds['gas'] = group leaves group.name / group.parent stale (extract_* and layer lookups use them)")
        if path[-1][1] != "raise" and not stored:
            run.violated(dg.DS + ".__setitem__::no-store", fi.where(), "a non-raising path stores nothing", "ds['x'] = group")
    raises = any(p[-1][1] == "raise" for p in enumerate_paths(fi.node.body))
    run.ob(dg.DS + ".__setitem__::rejects-non-datagroup", raises and n_store > 0, fi.where(),
           "non-Datagroup values %s" % ("raise" if raises else "are accepted"), "ds['x'] = 3")
    dg.check_single_writer(run, tree, dg.DS, "groups", allowed_store=("__setitem__",), allowed_rebind=("__init__",))
    dg.check_insertion_via_setitem(run, tree, dg.DS, ["__init__", "update"])


def r3_equality(run, tree):
    run.rule("C20.R3", "equality quantifier: equal iff same keys and no element of any member differs",
             "D7 abstract cases", "", floor=9)
    dg.check_eq_quantifier(run, tree)


RULES = [r1_delegation, r2_gates, r3_equality]
