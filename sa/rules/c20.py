"""C20 — Datagroup and Dataset behave as dictionaries; equality is by content."""
from __future__ import annotations

import ast

from ..flow import enumerate_paths
from ..source import norm
from . import dg_rules as dg
from . import core_folds as cf
from .common import is_name, params, returns_of, single_return

EXPLANATION = (
    "Static rules on core/datagroup.py and core/dataset.py: (R1) __iter__, __len__, __delitem__, keys, items, values, get, "
    "pop, clear of both classes delegate to the same-named dict method of the backing dict with the same arguments "
    "(Dataset.clear also clears meta); (R2) gates dominate stores: Datagroup's shape gate (as C06.R1/R2), Dataset's "
    "isinstance(value, Datagroup) test + TypeError precede the store, name and parent are set on every accepted insertion, "
    "constructors and update insert through __setitem__, single writer of each backing dict; (R3) Datagroup.__eq__ is "
    "evaluated over abstract cases (key sets equal/different; per member: no / some / all elements differ; Vector members "
    "differing by a norm-preserving change) with a model of osyris truthiness (a 0-d Array is falsy; np.any on an Array "
    "returns a 0-d Array) and must return the content-equality verdict in each.")
NOT_DECIDED = "insertion order (Python dict); the element-wise comparison values themselves (numpy after unit conversion)"
TRUSTED = ("CPython ast", "Python dict semantics", "model of Array truthiness/iteration (core/array.py __len__)")


def r1_delegation(run, tree):
    run.rule("C20.R1", "dictionary protocol of Datagroup and Dataset over finite histories (set, delete, pop, get, update, clear, copy, "
             "iteration, membership, len)", "D7 fold of both classes (ModelEval)", "Python dict API", floor=12)
    cf.check_datagroup_histories(run, tree)
    cf.check_dataset_histories(run, tree)
    cf.check_group_copy(run, tree)


def r2_gates(run, tree):
    run.rule("C20.R2", "indexing/sorting keep members aligned and named", "D7 fold", "", floor=5)
    cf.check_group_indexing(run, tree)


def r3_equality(run, tree):
    run.rule("C20.R3", "equality quantifier: equal iff same keys and no element of any member differs",
             "D7 abstract cases", "", floor=9)
    dg.check_eq_quantifier(run, tree)


def r_conversion(run, tree):
    from . import array_folds as af
    run.rule("C20.R4", "'equal after unit conversion' rests on Array.to (shared with C02/C08): scales by the unit ratio, no cast back to the source dtype", "D7 fold of Array.to", "", floor=6)
    af.check_to_fold(run, tree)


RULES = [r_conversion, r1_delegation, r2_gates, r3_equality]
