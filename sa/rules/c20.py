"""C20 — Datagroup and Dataset behave as dictionaries; equality is by content."""
from __future__ import annotations

import ast

from . import dg_rules as dg
from . import core_folds as cf

EXPLANATION = '(R1) Datagroup and Dataset interpreted over finite histories of set, delete, pop, get, update, clear, copy, iteration, membership, len: dictionary behaviour, shape/type gates, every stored item renamed (and parented); (R2) indexing/sorting keep members aligned and named; (R3) Datagroup.__eq__ over abstract cases: equal iff same keys and no element of any member differs (Vectors by components, not by norm); (R4) Array.to exact (shared). (R3) also folds Datagroup.__eq__ on the real class over insertion orders and key sets. (R5) the norm that reduces Vector members in __eq__ is defined for boolean components; Dataset overwrite keeps key order; members named like constructor parameters survive copy(). R1 histories cover members of another rank, absent keys (pop/del raise KeyError) and views taken before clear(); (R6) Datagroup.__eq__ end to end across units with a buffer edited between comparisons. R1 histories cover update(mapping, **keywords) order and precedence and metadata filled in place on two datasets.'
NOT_DECIDED = "numpy's element-wise comparison; insertion order of Python dicts (language guarantee)"
TRUSTED = ('CPython ast', 'Python dict semantics', 'the interpreter sa/models.py (ModelEval) and its library models')

TECHNIQUE = 'static analysis: abstract interpretation of the container classes over finite operation histories; abstract-case evaluation of equality'

def r1_delegation(run, tree):
    run.rule("C20.R1", "dictionary protocol of Datagroup and Dataset over finite histories (set, delete, pop, get, update, clear, copy, "
             "iteration, membership, len)", "D7 fold of both classes (ModelEval)", "Python dict API", floor=12)
    cf.check_datagroup_histories(run, tree)
    cf.check_dataset_histories(run, tree)
    cf.check_group_copy(run, tree)


def r2_gates(run, tree):
    run.rule("C20.R2", "indexing/sorting keep members aligned and named", "D7 fold", "", floor=5)
    cf.check_group_indexing(run, tree)


def r3_equality(run, tree):
    run.rule("C20.R3", "equality quantifier: equal iff same keys and no element of any member differs",
             "D7 fold of the Datagroup class itself over insertion orders, key sets and difference patterns (none / some / all elements; Vector members)", "", floor=16)
    cf.check_group_equality(run, tree)


def r_conversion(run, tree):
    from . import array_folds as af
    run.rule("C20.R4", "'equal after unit conversion' rests on Array.to (shared with C02/C08): scales by the unit ratio, no cast back to the source dtype", "D7 fold of Array.to", "", floor=6)
    af.check_to_fold(run, tree)


def r_norm_corners(run, tree):
    run.rule("C20.R5", "Datagroup equality reduces the element-wise != of Vector members through .norm: defined for boolean components, truthy exactly where a component differs (shared with C09.R9)", "D7 fold of Vector.norm over small concrete vectors", "", floor=4)
    from . import quantity_stack as qs
    qs.check_norm_corner_cases(run, tree)


def r_equality_history(run, tree):
    from . import quantity_stack as qs
    run.rule("C20.R6", "equality end to end across units and through time: groups holding the same quantity in m and in cm compare equal; after a member's buffer is "
             "edited in place the next comparison sees it (both orientations)", "D7 fold of Datagroup.__eq__ with the whole Array class under symbolic buffers and unit scales", "", floor=2)
    qs.check_group_equality_history(run, tree)


RULES = [r_conversion, r1_delegation, r2_gates, r3_equality, r_norm_corners, r_equality_history]


def t_history_space(run, tree):
    run.rule("C20.T1", "thorough: every sequence of up to 3 dictionary operations on a fresh Datagroup (12 operations: set with matching / mismatching length, del, pop, clear, "
             "update with good / bad items) agrees step by step with a reference dictionary with the insertion gate", "D7 fold of the Datagroup class over the complete space of short histories", "", floor=1)
    cf.check_datagroup_history_space(run, tree, depth=3)


THOROUGH_RULES = [t_history_space]
